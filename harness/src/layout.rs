//! Token-preserving re-layout of Solidity sources (C02, C17) and direct replay of
//! the offset -> line conversion.
use crate::common::*;
use crate::detectors::{all as all_detectors, parses};
use serde_json::{json, Value};
use solang_parser::lexer::{Lexer, Token};
use solstat::analyzer::utils::get_line_number;

pub const CODELIKE: &str = "transfer(address,uint256); approve(a, b); x++; selfdestruct(msg.sender); a.transfer(b); pragma solidity ^0.4.0; c >= d";

pub fn atom_text(code: u8) -> &'static str {
    match code {
        1 => " ",
        2 => "\t",
        3 => "\n",
        4 => "\r\n",
        5 => "\r",
        // (comments also carry what other tools read as directives: a comment is a comment)
        6 => " // x++; selfdestruct(msg.sender); a.transfer(b); pragma solidity ^0.4.0; c >= d solstat-ignore-next-line solhint-disable-next-line\n",
        7 => " // y--; keccak256(z); require(a && b, \"s\"); address(0) == q; w * 4 solstat:ignore noqa nosolstat\r\n",
        8 => " /* x++; selfdestruct(msg.sender); t.approve(u, 1); a / b * c; solstat-ignore slither-disable-next-line all */ ",
        9 => " /* x++; solstat-disable\n selfdestruct(msg.sender);\n for (;i < a.length;) {} solstat-enable @custom:solstat-skip */ ",
        10 => " /* \u{e9}\u{fc}\u{20ac} \u{feff}\u{feff} x++; address(this).balance; v == true \u{200b}\u{a0} */ ",
        _ => " ",
    }
}

pub fn atom_lf(code: u8) -> usize {
    match code {
        3 | 4 | 6 | 7 => 1,
        9 => 2,
        _ => 0,
    }
}

fn is_comment(code: u8) -> bool {
    code >= 6
}

/// comment-free replacement with the same number of line feeds
fn strip_comment(code: u8) -> Vec<u8> {
    match code {
        6 => vec![3],
        7 => vec![4],
        8 | 10 => vec![1],
        9 => vec![3, 3],
        c => vec![c],
    }
}

pub struct Tokens {
    pub spans: Vec<(usize, usize)>,
    /// token is the value of a pragma directive (lexed up to the `;`)
    pub pragma_value: Vec<bool>,
}

pub fn tokenize(src: &str) -> Option<Tokens> {
    let s = src.to_string();
    let r = guarded(move || {
        let mut comments = Vec::new();
        let mut spans = vec![];
        let mut kinds: Vec<u8> = vec![]; // 1 = pragma keyword, 2 = identifier, 0 = other
        for t in Lexer::new(&s, 0, &mut comments) {
            match t {
                Ok((a, tok, b)) => {
                    spans.push((a, b));
                    kinds.push(match tok {
                        Token::Pragma => 1,
                        Token::Identifier(_) => 2,
                        _ => 0,
                    });
                }
                Err(_) => return None,
            }
        }
        let mut pv = vec![false; spans.len()];
        for i in 2..spans.len() {
            if kinds[i - 2] == 1 && kinds[i - 1] == 2 {
                pv[i] = true;
            }
        }
        Some(Tokens { spans, pragma_value: pv })
    });
    r.ok().flatten()
}

/// Expand a cyclic gap pattern to one gap per token plus a trailing gap; gaps next to a
/// pragma value lose their comments (solang lexes everything up to `;` as the value).
pub fn expand(pattern: &[Vec<u8>], toks: &Tokens, trailing: Vec<u8>, injective: bool) -> Vec<Vec<u8>> {
    let n = toks.spans.len();
    let mut gaps: Vec<Vec<u8>> = Vec::with_capacity(n + 1);
    for j in 0..n {
        let mut g = pattern[j % pattern.len()].clone();
        if injective && j > 0 && g.iter().map(|c| atom_lf(*c)).sum::<usize>() == 0 {
            g.push(3);
        }
        let near_pragma_value = toks.pragma_value[j] || (j > 0 && toks.pragma_value[j - 1]);
        if near_pragma_value {
            g = g.iter().flat_map(|c| strip_comment(*c)).collect();
        }
        gaps.push(g);
    }
    gaps.push(trailing);
    gaps
}

/// White space inside a pragma value (solang lexes `>=0.7.0 <0.9.0` as ONE token): `ws` replaces every run of it.
fn relay_pragma_value(t: &str, ws: &str) -> String {
    let mut out = String::new();
    let mut in_ws = false;
    for ch in t.chars() {
        if ch == ' ' || ch == '\t' || ch == '\n' || ch == '\r' {
            if !in_ws {
                out.push_str(ws);
            }
            in_ws = true;
        } else {
            in_ws = false;
            out.push(ch);
        }
    }
    out
}

pub fn render(src: &str, toks: &Tokens, gaps: &[Vec<u8>], replace_strings: bool) -> String {
    render_with(src, toks, gaps, replace_strings, None)
}

pub fn render_with(src: &str, toks: &Tokens, gaps: &[Vec<u8>], replace_strings: bool, pragma_ws: Option<&str>) -> String {
    let mut out = String::new();
    for (j, (a, b)) in toks.spans.iter().enumerate() {
        for c in gaps[j].iter() {
            out.push_str(atom_text(*c));
        }
        let t = &src[*a..*b];
        if replace_strings && !toks.pragma_value[j] && (t.starts_with('"') || t.starts_with('\'')) && t.len() >= 2 {
            let q = &t[..1];
            out.push_str(q);
            out.push_str(CODELIKE);
            out.push_str(q);
        } else if toks.pragma_value[j] && pragma_ws.is_some() {
            out.push_str(&relay_pragma_value(t, pragma_ws.unwrap()));
        } else {
            out.push_str(t);
        }
    }
    for c in gaps[toks.spans.len()].iter() {
        out.push_str(atom_text(*c));
    }
    out
}

fn canonical_gaps(n: usize) -> Vec<Vec<u8>> {
    let mut g = vec![vec![3u8]; n + 1];
    g[0] = vec![];
    g
}

/// Same token texts after re-layout?
fn same_tokens(a_src: &str, a: &Tokens, b_src: &str) -> bool {
    match tokenize(b_src) {
        Some(b) => {
            // (white space inside a pragma value is layout too)
            a.spans.len() == b.spans.len()
                && a.spans.iter().zip(b.spans.iter()).enumerate().all(|(j, ((x0, x1), (y0, y1)))| {
                    if a.pragma_value[j] {
                        relay_pragma_value(&a_src[*x0..*x1], " ") == relay_pragma_value(&b_src[*y0..*y1], " ")
                    } else {
                        a_src[*x0..*x1] == b_src[*y0..*y1]
                    }
                })
        }
        None => false,
    }
}

/// Record, for every corpus program and a rotating subset of the TLC-generated gap patterns,
/// the flag tokens F (from the one-token-per-line layout) and the lines reported on the re-laid-out text.
pub fn record(corpus_dir: &str, patterns_file: &str, mode: &str, per_program: usize, trace: &mut NdjsonWriter, texts: &mut NdjsonWriter, detect: &mut NdjsonWriter, out: &mut Outcome) {
    let pats: Vec<Vec<Vec<u8>>> = read_ndjson(patterns_file)
        .iter()
        .map(|r| r["pattern"].as_array().unwrap().iter().map(|g| as_i64s(g).iter().map(|x| *x as u8).collect()).collect())
        .collect();
    if pats.is_empty() {
        out.tool_error("no gap patterns".into());
        return;
    }
    let injective = mode == "c17";
    let dets = all_detectors();
    let mut files: Vec<_> = std::fs::read_dir(corpus_dir).map(|rd| rd.filter_map(|e| e.ok()).map(|e| e.path()).collect()).unwrap_or_default();
    files.sort();
    let mut rng = Rng::from_env(if injective { 17 } else { 2 });
    let mut cursor = rng.below(pats.len());
    let (mut discarded, mut programs, mut used) = (0u64, 0u64, std::collections::BTreeSet::new());
    for f in files {
        let orig = match std::fs::read_to_string(&f) {
            Ok(s) => s,
            Err(_) => continue,
        };
        if !parses(&orig) {
            continue;
        }
        let name = f.file_name().unwrap().to_string_lossy().to_string();
        let variants: Vec<(&str, bool)> = if injective { vec![("orig", false), ("codestr", true)] } else { vec![("orig", false)] };
        let mut orig_flags: Option<Vec<Option<Vec<i32>>>> = None;
        for (vname, repl) in variants {
            let toks = match tokenize(&orig) {
                Some(t) if !t.spans.is_empty() => t,
                _ => continue,
            };
            let n = toks.spans.len();
            // base program = canonical layout (token k on line k)
            let canon = render(&orig, &toks, &canonical_gaps(n), repl);
            if !parses(&canon) {
                discarded += 1;
                continue;
            }
            let ctoks = match tokenize(&canon) {
                Some(t) if t.spans.len() == n => t,
                _ => {
                    discarded += 1;
                    continue;
                }
            };
            // flag tokens per detector
            let mut flags: Vec<Option<Vec<i32>>> = vec![];
            for d in dets.iter() {
                flags.push(d.run(&canon).ok().map(|s| s.into_iter().collect()));
            }
            // what a string literal SAYS is no finding: with every literal replaced by code-like text the same tokens are
            // flagged as before (short_revert_string apart, whose subject is the length of the literal)
            if vname == "orig" {
                orig_flags = Some(flags.clone());
            } else if let Some(of) = &orig_flags {
                let mut drecs = vec![];
                for (di, d) in dets.iter().enumerate() {
                    if d.name() == "short_revert_string" {
                        continue;
                    }
                    if let (Some(Some(f0)), Some(f1)) = (of.get(di), &flags[di]) {
                        if !f0.is_empty() || !f1.is_empty() {
                            drecs.push(json!({"d": d.name(), "F": f0, "rep": f1}));
                        }
                    }
                }
                out.evaluations += 1;
                trace.push(&json!({"k": "layout", "src": name, "variant": "codestr-vs-orig", "n": n, "inj": true, "gaps": canonical_gaps(n), "inner": [], "dets": drecs}));
                texts.push(&json!({"src": name, "variant": "codestr-vs-orig", "text": canon, "canon": render(&orig, &toks, &canonical_gaps(n), false)}));
            }
            programs += 1;
            // very long programs (the generated 400-level chain serves C04 / C15): two layouts only
            let per = if n > 1200 { per_program.min(2) } else { per_program };
            if n > 1200 && vname != "orig" {
                continue;
            }
            for i in 0..per {
                // a few fixed, important layouts first, then the rotating TLC patterns
                let (pattern, trailing): (Vec<Vec<u8>>, Vec<u8>) = match i {
                    0 => (vec![vec![1]], vec![]),           // everything on one line, no final newline
                    1 => (vec![vec![4]], vec![4]),          // CRLF everywhere
                    2 => (vec![vec![3, 3], vec![1]], vec![]), // blank lines, unterminated last line
                    3 => (vec![vec![3]], vec![]),           // a line feed between words, NOTHING next to punctuation (see below): `}++j`
                    _ => {
                        cursor = (cursor + 1) % pats.len();
                        used.insert(cursor);
                        (pats[cursor].clone(), if i % 2 == 0 { vec![] } else { vec![3] })
                    }
                };
                let mut gaps = expand(&pattern, &ctoks, trailing, injective);
                if i == 3 {
                    // drop the blank wherever a bracket, brace, parenthesis, semicolon or comma stands on either side
                    let glue = |c: char| "(){}[];,".contains(c);
                    for j in 1..n {
                        let (pa, pb) = (ctoks.spans[j - 1], ctoks.spans[j]);
                        let last = canon[pa.0..pa.1].chars().last().unwrap_or(' ');
                        let first = canon[pb.0..pb.1].chars().next().unwrap_or(' ');
                        let near_pragma = ctoks.pragma_value[j] || ctoks.pragma_value[j - 1];
                        if !near_pragma && (glue(last) || glue(first)) {
                            gaps[j] = vec![];
                        }
                    }
                }
                // the gap between the comparators of a version range is re-laid too (kept, tab, line feed, mixed)
                let pragma_ws = [None, Some("\t"), Some("\n"), Some("  \n\t")][i % 4];
                let text = render_with(&canon, &ctoks, &gaps, false, pragma_ws);
                // line feeds INSIDE tokens (re-laid pragma values): <<token index (1-based), count>>
                let inner: Vec<Value> = (0..n)
                    .filter(|j| ctoks.pragma_value[*j] && pragma_ws.is_some())
                    .map(|j| {
                        let (a, b) = ctoks.spans[j];
                        json!([j + 1, relay_pragma_value(&canon[a..b], pragma_ws.unwrap()).matches('\n').count()])
                    })
                    .filter(|v| v[1].as_u64().unwrap_or(0) > 0)
                    .collect();
                if !parses(&text) || !same_tokens(&canon, &ctoks, &text) {
                    discarded += 1;
                    continue;
                }
                let via_dir = i % 2 == 0 && n <= 1200;
                let mut drecs = vec![];
                let mut interesting = false;
                for (di, d) in dets.iter().enumerate() {
                    let fl = match &flags[di] {
                        Some(f) => f,
                        None => continue,
                    };
                    // every other layout goes through the entry point a user runs (analyze_dir on a directory holding the file)
                    match d.run_entry(&text, via_dir) {
                        Ok(rep) => {
                            let rep: Vec<i32> = rep.into_iter().collect();
                            if !fl.is_empty() || !rep.is_empty() {
                                interesting = true;
                                drecs.push(json!({"d": d.name(), "F": fl, "rep": rep}));
                            }
                        }
                        Err(_) => { /* totality is C04's subject */ }
                    }
                }
                out.evaluations += 1;
                if interesting {
                    out.nontrivial += 1;
                }
                let inj = gaps.iter().enumerate().all(|(j, g)| j == 0 || j == n || g.iter().map(|c| atom_lf(*c)).sum::<usize>() >= 1);
                trace.push(&json!({"k": "layout", "src": name, "variant": vname, "n": n, "inj": inj, "gaps": gaps, "inner": inner, "dets": drecs,
                                   "entry": if via_dir { "dir" } else { "file" }}));
                texts.push(&json!({"src": name, "variant": vname, "text": text, "canon": canon}));
                // constructs that span several lines in this layout: the reported lines must still be lines on which
                // a matching construct BEGINS (Patterns.tla on the projected tree of the re-laid-out text)
                if !injective && i < 6 {
                    let mut o2 = Outcome::new();
                    crate::detect::record_program(&format!("relayout:{}:{}", name, i), &text, None, detect, &mut o2);
                }
                // a TWIN of the same byte length whose line feeds sit elsewhere (adjacent gaps of equal length swapped),
                // analysed right after: a result must not depend on the file analysed before (tables keyed by size/address)
                if i < 4 {
                    let glen = |g: &Vec<u8>| g.iter().map(|c| atom_text(*c).len()).sum::<usize>();
                    let glf = |g: &Vec<u8>| g.iter().map(|c| atom_lf(*c)).sum::<usize>();
                    let mut gaps2 = gaps.clone();
                    let mut j = 1;
                    let mut swapped = 0;
                    while j + 1 < n {
                        let near = ctoks.pragma_value[j] || ctoks.pragma_value[j - 1] || ctoks.pragma_value[j + 1];
                        if !near && glen(&gaps2[j]) == glen(&gaps2[j + 1]) && glf(&gaps2[j]) != glf(&gaps2[j + 1]) {
                            gaps2.swap(j, j + 1);
                            swapped += 1;
                            j += 2;
                        } else {
                            j += 1;
                        }
                    }
                    let text2 = render_with(&canon, &ctoks, &gaps2, false, pragma_ws);
                    if swapped > 0 && text2.len() == text.len() && text2 != text && parses(&text2) && same_tokens(&canon, &ctoks, &text2) {
                        let mut drecs2 = vec![];
                        for (di, d) in dets.iter().enumerate() {
                            if let (Some(fl), Ok(rep)) = (&flags[di], d.run(&text2)) {
                                let rep: Vec<i32> = rep.into_iter().collect();
                                if !fl.is_empty() || !rep.is_empty() {
                                    drecs2.push(json!({"d": d.name(), "F": fl, "rep": rep}));
                                }
                            }
                        }
                        out.evaluations += 1;
                        let inj2 = gaps2.iter().enumerate().all(|(j, g)| j == 0 || j == n || g.iter().map(|c| atom_lf(*c)).sum::<usize>() >= 1);
                        trace.push(&json!({"k": "layout", "src": name, "variant": format!("{}-twin", vname), "n": n, "inj": inj2, "gaps": gaps2, "inner": inner, "dets": drecs2}));
                        texts.push(&json!({"src": name, "variant": format!("{}-twin", vname), "text": text2, "canon": canon, "prev": text}));
                    }
                }
                {
                    let glen = |g: &Vec<u8>| g.iter().map(|c| atom_text(*c).len()).sum::<usize>();
                    // a second twin: the SAME bytes in another arrangement -- the longest gap of the first half and the
                    // shortest gap of the second half exchanged, so that every token between them moves (equal length, equal
                    // byte sums, other offsets): a result must not be remembered under a digest of the text
                    let cand: Vec<usize> = (1..n).filter(|j| !(ctoks.pragma_value[*j] || ctoks.pragma_value[*j - 1])).collect();
                    let a = cand.iter().cloned().filter(|j| *j < n / 2).max_by_key(|j| glen(&gaps[*j]));
                    let b = cand.iter().cloned().filter(|j| *j >= n / 2).min_by_key(|j| glen(&gaps[*j]));
                    if let (Some(a), Some(b), true) = (a, b, i >= 4) {
                        let mut gaps3 = gaps.clone();
                        gaps3.swap(a, b);
                        let text3 = render_with(&canon, &ctoks, &gaps3, false, pragma_ws);
                        if glen(&gaps[a]) != glen(&gaps[b]) && text3.len() == text.len() && parses(&text3) && same_tokens(&canon, &ctoks, &text3) {
                            // (analysed right after the text it is a rearrangement of)
                            for d in dets.iter().take(1) {
                                let _ = d.run(&text);
                            }
                            let mut drecs3 = vec![];
                            for (di, d) in dets.iter().enumerate() {
                                if let (Some(fl), Ok(rep)) = (&flags[di], d.run(&text3)) {
                                    let rep: Vec<i32> = rep.into_iter().collect();
                                    if !fl.is_empty() || !rep.is_empty() {
                                        drecs3.push(json!({"d": d.name(), "F": fl, "rep": rep}));
                                    }
                                }
                            }
                            out.evaluations += 1;
                            let inj3 = gaps3.iter().enumerate().all(|(j, g)| j == 0 || j == n || g.iter().map(|c| atom_lf(*c)).sum::<usize>() >= 1);
                            trace.push(&json!({"k": "layout", "src": name, "variant": format!("{}-twin2", vname), "n": n, "inj": inj3, "gaps": gaps3, "inner": inner, "dets": drecs3}));
                            texts.push(&json!({"src": name, "variant": format!("{}-twin2", vname), "text": text3, "canon": canon, "prev": text}));
                        }
                    }
                }
                if out.samples.len() < 2 && i == 3 {
                    out.sample(json!({"src": name, "pattern": pattern, "first_gaps": &gaps[..gaps.len().min(6)]}));
                }
            }
        }
    }
    out.set("relayouts_discarded_unparseable", json!(discarded));
    out.set("programs", json!(programs));
    out.set("patterns_used", json!(used.len()));
}

/// Replay of one layout case: the flag tokens are taken again from the one-token-per-line text and the lines from
/// the re-laid-out text, by the real detector; the record (same gaps) goes to TV_C02.
pub fn replay_case(case: &Value, trace: &mut NdjsonWriter, out: &mut Outcome) {
    let (canon, text, det) = (case["canon"].as_str().unwrap_or(""), case["source"].as_str().unwrap_or(""), case["detector"].as_str().unwrap_or(""));
    let d = match crate::detectors::by_name(det) {
        Some(d) => d,
        None => {
            out.tool_error(format!("replay: unknown detector {}", det));
            return;
        }
    };
    out.evaluations += 1;
    let via_dir = case["entry"].as_str() == Some("dir");
    // a twin was analysed right after the text it rearranges
    let flags = d.run(canon);
    if let Some(prev) = case["prev"].as_str() {
        let _ = d.run(prev);
    }
    match (flags, d.run_entry(text, via_dir)) {
        (Ok(f), Ok(rep)) => {
            let f: Vec<i32> = f.into_iter().collect();
            let rep: Vec<i32> = rep.into_iter().collect();
            trace.push(&json!({"k": "layout", "src": "replay", "variant": "replay", "n": case["n"], "inj": case["inj"], "gaps": case["gaps"],
                               "inner": case.get("inner").cloned().unwrap_or(json!([])), "dets": [{"d": det, "F": f, "rep": rep}]}));
        }
        _ => out.violate("layout-replay-panic", format!("{} panicked on the recorded texts", det), case.clone()),
    }
}

/// Direct replay of TLC-generated (text, offset, line) triples into get_line_number.
pub fn replay_scan(behaviours: &str, out: &mut Outcome) {
    for (idx, r) in read_ndjson(behaviours).iter().enumerate() {
        let classes = as_strs(&r["text"]);
        let mut text = String::new();
        let mut pending_lead = false;
        for c in classes.iter() {
            match c.as_str() {
                "LF" => text.push('\n'),
                "CR" => text.push('\r'),
                "W" => text.push(' '),
                "A" => text.push('a'),
                "H" => pending_lead = true,
                "T" => {
                    if pending_lead {
                        text.push('\u{e9}');
                        pending_lead = false;
                    }
                }
                _ => {}
            }
        }
        let off = r["off"].as_u64().unwrap_or(0) as usize;
        let expect = r["line"].as_i64().unwrap_or(-1);
        if text.len() != classes.len() || !text.is_char_boundary(off) {
            out.tool_error(format!("cannot materialise text {:?}", classes));
            continue;
        }
        out.evaluations += 1;
        let has_lf = classes.iter().any(|c| c == "LF");
        let has_mb = classes.iter().any(|c| c == "H");
        if has_lf || has_mb {
            out.nontrivial += 1;
        }
        let t2 = text.clone();
        match guarded(move || get_line_number(off, &t2)) {
            Ok(got) => {
                if got as i64 != expect {
                    let after: bool = text.as_bytes()[off..].contains(&b'\n');
                    let sig = if !after { "line-of:last-line-unterminated" } else if classes.iter().any(|c| c == "CR") { "line-of:cr" } else if has_mb { "line-of:multibyte" } else { "line-of:other" };
                    out.violate(
                        sig,
                        format!("get_line_number({}, {:?}) = {} but the construct starts on line {}", off, text, got, expect),
                        json!({"call": "get_line_number", "text": text, "offset": off, "observed": got, "expected": expect}),
                    );
                }
            }
            Err(m) => out.violate("line-of:panic", format!("get_line_number({}, {:?}) panicked: {}", off, text, m), json!({"text": text, "offset": off})),
        }
        if idx % 4001 == 11 {
            out.sample(json!({"text": classes, "off": off, "line": expect}));
        }
    }
}
