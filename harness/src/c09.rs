//! C09 -- version gates: replay of TLC-generated headers; recording of corpus programs
//! under sampled versions for trace validation.
use crate::common::*;
use crate::detectors::{by_name, Det};
use serde_json::{json, Value};
use solang_parser::pt;
use solstat::analyzer::utils::get_solidity_version_from_source_unit;
use std::collections::BTreeSet;

pub fn render_pragma(p: &Value) -> String {
    render_pragma_gap(p, " ")
}

/// `gap` = what stands between the keyword `pragma` and the identifier `solidity` (any white space or comment will do)
pub fn render_pragma_gap(p: &Value, gap: &str) -> String {
    match p["kind"].as_str().unwrap_or("") {
        "solidity" => {
            let v = as_i64s(&p["ver"]);
            format!("pragma{}solidity {}{}.{}.{};", gap, p["op"].as_str().unwrap_or(""), v[0], v[1], v[2])
        }
        "experimental" => {
            // an experimental pragma may name its feature by a string that looks like a version (`"v0.5.0"`)
            let v = as_i64s(&p["ver"]);
            if v.iter().any(|x| *x != 0) {
                format!("pragma experimental \"v{}.{}.{}\";", v[0], v[1], v[2])
            } else {
                "pragma experimental ABIEncoderV2;".to_string()
            }
        }
        // a top-level item before the (remaining) pragmas, on one line
        "item" => "interface IPrelude { function ping() external; }".to_string(),
        _ => "pragma abicoder v2;".to_string(),
    }
}

/// Body with known flag lines. Returns (text, safemath lines, string-require lines, long-string lines),
/// line numbers relative to the first line of the body (1-based).
fn body(file_level_using: bool) -> (String, Vec<i32>, Vec<i32>, Vec<i32>) {
    let s31 = "a".repeat(31);
    let s32 = "b".repeat(32);
    let s33 = "c".repeat(33);
    let m32 = "é".repeat(16); // 16 characters, 32 bytes
    let m31 = format!("{}z", "é".repeat(15)); // 16 characters, 31 bytes
    // the `using` directive either inside the contract or at file level (line count kept equal)
    let lines: Vec<(String, &str)> = vec![
        ((if file_level_using { "using SafeMath for uint256;" } else { "library Unrelated {}" }).into(), ""),
        ("contract Gated {".into(), ""),
        ((if file_level_using { "    uint256 filler;" } else { "    using SafeMath for uint256;" }).into(), ""),
        ("    uint256 total = uint256(7).add(1);".into(), "S"),
        ("    function f(uint256 a, uint256 b) public {".into(), ""),
        ("        total = a.add(b);".into(), "S"),
        ("        total = a.sub(b);".into(), "S"),
        ("        total = a.mul(b).div(2);".into(), "S"),
        ("        total = a.sub(b, \"underflow\");".into(), "S"),
        ("        total = SafeMath.mul(a, b);".into(), "S"),
        ("        total = 10 ** a.sub(b);".into(), "S"),
        ("        total %= a.div(b);".into(), "S"),
        ("        total = b > 0 ? a.mul(b) : (b << a.add(1));".into(), "S"),
        ("        total = a.mod(b);".into(), ""),
        ("        total = add(a, b);".into(), ""),
        ("        require(a > b);".into(), ""),
        ("        require(a > b, \"x\");".into(), "R"),
        (format!("        require(a > b, \"{}\");", s31), "R"),
        (format!("        require(a > b, \"{}\");", s32), "RL"),
        (format!("        require(a > b, '{}');", s33), "RL"),
        (format!("        require(a > b, unicode\"{}\");", m32), "RL"),
        (format!("        require(a > b, unicode\"{}\");", m31), "R"),
        // call sites and requires in every kind of statement position (one line each: a tag covers both patterns)
        ("        try this.g(a) { total = a.add(1); require(a > 1, \"in try\"); } catch { total = a.sub(1); require(b > 1, \"in bare catch\"); }".into(), "SR"),
        ("        try this.g(b) returns (uint256 r) { total = r.mul(2); } catch Error(string memory why) { total = a.div(3); require(bytes(why).length > 0, \"in named catch\"); } catch (bytes memory) { total = b.add(4); }".into(), "SR"),
        ("        do { total = total.add(1); } while (total < a.sub(b));".into(), "S"),
        ("        for (uint256 i = a.add(0); i < b.mul(2); i = i.add(1)) { require(i > 0, \"in for\"); }".into(), "SR"),
        ("        unchecked { total = a.sub(b); require(total > 0, \"in unchecked\"); }".into(), "SR"),
        ("        if (a.add(b) > 3) { require(a > 3, \"in if\"); } else if (a.mul(b) > 4) require(b > 4, \"in else\");".into(), "SR"),
        ("        while (total > a.div(2)) { total = total.sub(1); }".into(), "S"),
        ("        { uint256 inner = a.add(b); require(inner > 0, \"in block\"); }".into(), "SR"),
        ("        emit Done(a.mul(b)); return;".into(), "S"),
        ("        require(a > b, \"\");".into(), "R"),
        ("        require(a > b, '');".into(), "R"),
        ("        require(a > b, \" \");".into(), "R"),
        ("        assert(a > b);".into(), ""),
        ("        revert(\"plain revert with a string that is quite long indeed\");".into(), ""),
        ("    }".into(), ""),
        ("    function add(uint256 x, uint256 y) internal pure returns (uint256) { return x; }".into(), ""),
        ("    function g(uint256 x) external pure returns (uint256) { return x; }".into(), ""),
        ("    event Done(uint256 v);".into(), ""),
        ("}".into(), ""),
        // the file attaches SafeMath: call sites outside the attaching contract count too
        ("contract Sibling { function g(uint256 a, uint256 b) public pure returns (uint256) { return a.add(b); } }".into(), "S"),
        ("function freeDiv(uint256 a, uint256 b) pure returns (uint256) { return a.div(b); }".into(), "S"),
    ];
    let mut text = String::new();
    let (mut s, mut r, mut l) = (vec![], vec![], vec![]);
    for (i, (t, tag)) in lines.iter().enumerate() {
        text.push_str(t);
        text.push('\n');
        let n = (i + 1) as i32;
        if tag.contains('S') {
            s.push(n);
        }
        if tag.contains('R') {
            r.push(n);
        }
        if tag.contains('L') {
            l.push(n);
        }
    }
    (text, s, r, l)
}

fn four() -> Option<[Det; 4]> {
    Some([
        by_name("safe_math_pre_080")?,
        by_name("safe_math_post_080")?,
        by_name("string_errors")?,
        by_name("short_revert_string")?,
    ])
}

fn real_version(src: &str) -> Result<Option<(i32, i32, i32)>, String> {
    let s = src.to_string();
    guarded(move || {
        let su = solang_parser::parse(&s, 0).unwrap().0;
        get_solidity_version_from_source_unit(su)
    })
}

pub fn replay(behaviours: &str, out: &mut Outcome) {
    let recs = read_ndjson(behaviours);
    let dets = match four() {
        Some(d) => d,
        None => {
            out.tool_error("version-gated detectors not found".into());
            return;
        }
    };
    let bodies = [body(false), body(true)];
    for (idx, rec) in recs.iter().enumerate() {
        let (body_text, s, r, l) = &bodies[if rec["usingAt"] == "file" { 1 } else { 0 }];
        let header = rec["header"].as_array().cloned().unwrap_or_default();
        let mut src = String::from("// SPDX-License-Identifier: MIT\n");
        let gap = [" ", "  ", "\t", " /* v */ ", " "][idx % 5];
        for p in header.iter() {
            src.push_str(&render_pragma_gap(p, gap));
            src.push('\n');
        }
        let off = 1 + header.len() as i32;
        src.push_str(body_text);
        let ver = as_i64s(&rec["ver"]);
        out.evaluations += 1;
        if header.len() > 1 || header.iter().any(|p| p["op"] != "") {
            out.nontrivial += 1;
        }
        let shape: Vec<String> = header.iter().map(|p| p["kind"].as_str().unwrap_or("").to_string()).collect();
        let op = header.iter().find(|p| p["kind"] == "solidity").map(|p| p["op"].as_str().unwrap_or("").to_string()).unwrap_or_default();
        let case = json!({"source": src, "header": rec["header"], "version": ver});
        // direct observation of the extracted version
        match real_version(&src) {
            Ok(Some((a, b, c))) => {
                if vec![a as i64, b as i64, c as i64] != ver {
                    out.violate(
                        &format!("version-extract:{}", shape.join("+")),
                        format!("get_solidity_version_from_source_unit returns {}.{}.{} for a file whose pragma solidity is {}{:?}", a, b, c, op, ver),
                        case.clone(),
                    );
                }
            }
            Ok(None) => out.violate("version-extract:none", "no version extracted although a pragma solidity is present".into(), case.clone()),
            Err(m) => out.violate("version-extract:panic", format!("version extraction panicked: {}", m), case.clone()),
        }
        let names = ["safe_math_pre_080", "safe_math_post_080", "string_errors", "short_revert_string"];
        let flagged = [s, s, r, l];
        for k in 0..4 {
            let gate = rec["gates"][names[k]].as_bool().unwrap_or(false);
            let expect: BTreeSet<i32> = if gate { flagged[k].iter().map(|x| x + off).collect() } else { BTreeSet::new() };
            match dets[k].run(&src) {
                Ok(got) => {
                    if got != expect {
                        let side = if gate { "on" } else { "off" };
                        // signature: detector, expected gate state, how the version compares component-wise
                        let cls = format!(
                            "{}{}{}",
                            if ver[0] == 0 { "M0" } else { "M+" },
                            if ver[1] < 8 { "m<8" } else if ver[1] == 8 { "m=8" } else { "m>8" },
                            if ver[2] < 4 { "p<4" } else { "p>=4" }
                        );
                        let place = if rec["usingAt"] == "file" { ":file-level-using" } else { "" };
                        out.violate(
                            &format!("gate:{}:{}:{}:{}{}", names[k], side, cls, if shape.len() > 1 && shape[0] != "solidity" { "other-pragma-first" } else { "solidity-first" }, place),
                            format!("{} on version {}{:?} (header {:?}) reports {:?}, expected {:?}", names[k], op, ver, shape, got, expect),
                            json!({"source": src, "detector": names[k], "observed": got, "expected": expect, "version": ver}),
                        );
                    }
                }
                Err(m) => out.violate(
                    &format!("gate-panic:{}", names[k]),
                    format!("{} panicked on version {:?}: {}", names[k], ver, m),
                    json!({"source": src, "detector": names[k], "panic": m}),
                ),
            }
        }
        if idx % 3001 == 7 {
            out.sample(json!({"header": rec["header"], "gates": rec["gates"]}));
        }
    }
}

/// Replace (or prepend) the solidity pragma of a corpus program.
fn with_version(src: &str, spans: &[(usize, usize)], v: (i64, i64, i64), op: &str) -> String {
    let pragma = format!("pragma solidity {}{}.{}.{};", op, v.0, v.1, v.2);
    if spans.is_empty() {
        return format!("{}\n{}", pragma, src);
    }
    let mut out = String::new();
    let mut last = 0;
    for (i, (a, b)) in spans.iter().enumerate() {
        out.push_str(&src[last..*a]);
        if i == 0 {
            out.push_str(&pragma);
        }
        // `;` is not part of the directive's span: keep what follows, blank further solidity pragmas
        last = *b;
        if i > 0 {
            out.push_str("pragma abicoder v2");
        } else if src[*b..].starts_with(';') {
            last = *b + 1;
        }
    }
    out.push_str(&src[last..]);
    out
}

pub fn record(corpus_dir: &str, trace: &mut NdjsonWriter, out: &mut Outcome) {
    let dets = match four() {
        Some(d) => d,
        None => return,
    };
    let mut files: Vec<_> = std::fs::read_dir(corpus_dir).map(|rd| rd.filter_map(|e| e.ok()).map(|e| e.path()).collect()).unwrap_or_default();
    files.sort();
    let versions: Vec<(i64, i64, i64)> = vec![
        (0, 4, 26), (0, 7, 6), (0, 7, 40), (0, 8, 0), (0, 8, 3), (0, 8, 4), (0, 8, 17), (0, 9, 0), (0, 9, 5), (1, 0, 0), (1, 2, 3), (0, 0, 0), (0, 12, 0),
    ];
    let ops = ["", "^", ">=", "~", "=", ">"];
    let mut rng = Rng::from_env(9);
    for f in files {
        let src = match std::fs::read_to_string(&f) {
            Ok(s) => s,
            Err(_) => continue,
        };
        let su = match solang_parser::parse(&src, 0) {
            Ok((su, _)) => su,
            Err(_) => continue,
        };
        let spans: Vec<(usize, usize)> = su
            .0
            .iter()
            .filter_map(|p| match p {
                pt::SourceUnitPart::PragmaDirective(loc, id, _) if id.name == "solidity" => Some((loc.start(), loc.end())),
                _ => None,
            })
            .collect();
        let mut samples = vec![];
        let mut ok = true;
        for v in versions.iter() {
            let op = ops[rng.below(ops.len())];
            let text = with_version(&src, &spans, *v, op);
            if !crate::detectors::parses(&text) {
                ok = false;
                break;
            }
            let mut sets: Vec<Value> = vec![];
            for d in dets.iter() {
                match d.run(&text) {
                    Ok(s) => sets.push(json!(s)),
                    Err(_) => {
                        // totality is C04's subject; a panic here is not a C09 datum
                        ok = false;
                        break;
                    }
                }
            }
            if !ok {
                break;
            }
            samples.push(json!({"ver": [v.0, v.1, v.2], "op": op, "pre": sets[0], "post": sets[1], "se": sets[2], "srs": sets[3]}));
        }
        if !ok || samples.is_empty() {
            continue;
        }
        let any = samples.iter().any(|s| ["pre", "post", "se", "srs"].iter().any(|k| !s[*k].as_array().unwrap().is_empty()));
        // the same thirteen texts side by side in ONE directory, through analyze_dir: what is reported for a file is
        // a matter of that file's version alone, whatever the versions of its neighbours
        let mut dir_samples: Vec<Value> = vec![];
        {
            let base = std::env::var("VERIF_SCRATCH").map(std::path::PathBuf::from).unwrap_or_else(|_| std::env::temp_dir());
            let dir = base.join(format!("solstat-verif-c09-{}-{}", std::process::id(), out.evaluations));
            let _ = std::fs::remove_dir_all(&dir);
            if std::fs::create_dir_all(&dir).is_ok() {
                for (i, v) in versions.iter().enumerate() {
                    let op = samples[i]["op"].as_str().unwrap_or("");
                    let _ = std::fs::write(dir.join(format!("V{:02}.sol", i)), with_version(&src, &spans, *v, op));
                }
                let names: Vec<String> = dets.iter().map(|d| d.name()).collect();
                if let Ok(res) = crate::dirs::real_analyze_dir("optimizations", &dir, &names) {
                    for (i, v) in versions.iter().enumerate() {
                        let file = format!("V{:02}.sol", i);
                        let lines_of = |d: &str| -> Value {
                            let mut ls: Vec<i64> = vec![];
                            if let Some(rows) = res[d].as_array() {
                                for row in rows {
                                    if row[0].as_str() == Some(file.as_str()) {
                                        ls.extend(as_i64s(&row[1]));
                                    }
                                }
                            }
                            ls.sort();
                            json!(ls)
                        };
                        dir_samples.push(json!({"ver": [v.0, v.1, v.2], "op": samples[i]["op"], "pre": lines_of(&names[0]), "post": lines_of(&names[1]),
                                                "se": lines_of(&names[2]), "srs": lines_of(&names[3])}));
                    }
                }
                let _ = std::fs::remove_dir_all(&dir);
            }
        }
        // the projected tree of the program as written; its lines are those of every sample when no replaced
        // directive spans a line break (a pragma line put in front of a file without one shifts them by one)
        let tree_ok = spans.iter().all(|(a, b)| !src[*a..*b].contains('\n'));
        let shift = if spans.is_empty() { 1 } else { 0 };
        let tree = if tree_ok { crate::project::project_source(&src).map(|t| t.to_json_with_lines(&src)) } else { None };
        trace.push(&json!({"k": "program", "src": f.file_name().unwrap().to_string_lossy(), "samples": samples, "dir_samples": dir_samples,
                           "tree_ok": tree.is_some(), "shift": shift, "tree": tree.unwrap_or(json!([]))}));
        out.evaluations += 1;
        if any {
            out.nontrivial += 1;
        }
    }
}
