//! C10 -- storage-slot model: replay of TLC-generated size sequences and recording of
//! corpus containers for trace validation.
use crate::common::*;
use crate::detectors::{by_name, Det};
use serde_json::{json, Value};
use solang_parser::pt;
use solstat::analyzer::utils::{get_type_size, storage_slots_used};

/// (spelling, class, n) for every elementary type name and a few non-elementary ones.
pub fn type_spellings() -> Vec<(String, &'static str, u32)> {
    let mut v: Vec<(String, &'static str, u32)> = vec![
        ("bool".into(), "bool", 0),
        ("address".into(), "address", 0),
        ("address payable".into(), "payable", 0),
        ("uint".into(), "uint", 256),
        ("int".into(), "int", 256),
        ("byte".into(), "bytesN", 1),
        ("string".into(), "string", 0),
        ("bytes".into(), "bytes", 0),
        ("uint8[]".into(), "array", 0),
        ("uint8[4]".into(), "array", 0),
        ("bool[]".into(), "array", 0),
        ("mapping(address => uint8)".into(), "mapping", 0),
        ("mapping(uint8 => mapping(uint8 => bool))".into(), "mapping", 0),
        ("Foo".into(), "user", 0),
        ("Foo.Bar".into(), "user", 0),
        ("function() external".into(), "function", 0),
        ("function(uint8) internal returns (bool)".into(), "function", 0),
    ];
    for k in 1..=32u32 {
        v.push((format!("uint{}", 8 * k), "uint", 8 * k));
        v.push((format!("int{}", 8 * k), "int", 8 * k));
        v.push((format!("bytes{}", k), "bytesN", k));
    }
    v
}

fn spellings_for_size(size: u32) -> Vec<String> {
    let mut v = vec![];
    if size % 8 == 0 && size >= 8 && size <= 256 {
        v.push(format!("uint{}", size));
        v.push(format!("int{}", size));
        v.push(format!("bytes{}", size / 8));
    }
    if size == 8 {
        v.push("bool".into());
        v.push("byte".into());
    }
    if size == 160 {
        v.push("address".into());
        v.push("address payable".into());
    }
    if size == 256 {
        for s in ["uint", "string", "bytes", "uint8[]", "mapping(address => uint8)", "Foo", "bool[3]"] {
            v.push(s.to_string());
        }
    }
    v
}

pub fn type_class(e: &pt::Expression) -> Value {
    match e {
        pt::Expression::Type(_, ty) => match ty {
            pt::Type::Bool => json!({"t": "bool", "n": 0}),
            pt::Type::Address => json!({"t": "address", "n": 0}),
            pt::Type::AddressPayable => json!({"t": "payable", "n": 0}),
            pt::Type::Payable => json!({"t": "payablecast", "n": 0}),
            pt::Type::String => json!({"t": "string", "n": 0}),
            pt::Type::DynamicBytes => json!({"t": "bytes", "n": 0}),
            pt::Type::Rational => json!({"t": "rational", "n": 0}),
            pt::Type::Int(n) => json!({"t": "int", "n": *n}),
            pt::Type::Uint(n) => json!({"t": "uint", "n": *n}),
            pt::Type::Bytes(n) => json!({"t": "bytesN", "n": *n}),
            pt::Type::Mapping(..) => json!({"t": "mapping", "n": 0}),
            pt::Type::Function { .. } => json!({"t": "function", "n": 0}),
        },
        pt::Expression::ArraySubscript(..) => json!({"t": "array", "n": 0}),
        pt::Expression::Variable(_) | pt::Expression::MemberAccess(..) => json!({"t": "user", "n": 0}),
        _ => json!({"t": "other", "n": 0}),
    }
}

fn real_slots(sizes: &[u16]) -> Result<u32, String> {
    let v = sizes.to_vec();
    guarded(move || storage_slots_used(v))
}

fn render_container(kind: &str, types: &[String]) -> String {
    let mut members = String::new();
    for (i, t) in types.iter().enumerate() {
        members.push_str(&format!("    {} m{};\n", t, i));
    }
    // other kinds of member between the state variables: the variables are the members that count, wherever they stand
    let fillers = [
        "    event Moved(uint256 amount);\n",
        "    function touch() public {}\n",
        "    modifier gated() { _; }\n",
        "    error Refused(address who);\n",
        "    enum Phase { A, B }\n",
    ];
    let mut mixed = String::from("    using Lib for uint256;\n");
    for (i, t) in types.iter().enumerate() {
        mixed.push_str(&format!("    {} m{};\n", t, i));
        mixed.push_str(fillers[i % fillers.len()]);
    }
    match kind {
        "contractmixed" => format!("pragma solidity 0.8.17;\nlibrary Lib {{}}\ncontract Holder {{\n{}}}\n", mixed),
        "contract" => format!("pragma solidity 0.8.17;\n\ncontract Holder {{\n{}}}\n", members),
        // other containers before and after it in the same file (one member each: nothing to pack there): every
        // container is judged by its own members only
        "contractbetween" => {
            let pre = ["uint8", "uint128", "address", "bool", "bytes4", "uint256"][types.len() * 5 % 6];
            let post = ["bool", "uint64", "uint256", "address"][types.len() % 4];
            format!("pragma solidity 0.8.17;\ncontract Pre {{ {} only; }} contract Bare {{ }}\ncontract Holder {{\n{}}}\ncontract Post {{ {} last; }}\n", pre, members, post)
        }
        // containers of a contract that inherits (bases without and with arguments): the members count as they do anywhere
        "derivedcontract" => format!("pragma solidity 0.8.17;\nabstract contract Base {{ }} abstract contract Arg {{ constructor(uint256 a) {{ }} }}\ncontract Holder is Base, Arg(1) {{\n{}}}\n", members),
        "derivedstruct" => format!("pragma solidity 0.8.17;\nabstract contract Base {{ }} interface IBase {{ }}\ncontract Outer is Base, IBase {{\n  struct Rec {{\n{}  }}\n}}\n", members),
        "structbetween" => {
            let pre = ["uint8", "uint128", "address", "bool", "bytes4", "uint256"][types.len() * 5 % 6];
            format!("pragma solidity 0.8.17;\nstruct Pre {{ {} only; }} contract Has {{ {} v; }}\nstruct Rec {{\n{}}}\nstruct Post {{ {} last; }}\n", pre, pre, members, pre)
        }
        "abstractcontract" => format!("pragma solidity 0.8.17;\n\nabstract contract Base {{\n{}}}\n", members),
        // (any white space may follow the keyword)
        "filestruct" => format!("pragma solidity 0.8.17;\n\nstruct{}Rec {{\n{}}}\n", ["\t", " ", "  "][types.len() % 3], members),
        _ => format!("pragma solidity 0.8.17;\n\ncontract Outer {{\n  struct{}Rec {{\n{}  }}\n}}\n", [" ", "\t", " /**/ "][types.len() % 3], members),
    }
}

/// line on which the container begins in the rendering above
fn container_line(kind: &str) -> i32 {
    match kind {
        "contract" | "abstractcontract" | "contractmixed" | "filestruct" | "contractbetween" | "structbetween" | "derivedcontract" => 3,
        _ => 4,
    }
}

pub fn replay(behaviours: &str, out: &mut Outcome) {
    let recs = read_ndjson(behaviours);
    let pack_storage = by_name("pack_storage_variables");
    let pack_struct = by_name("pack_struct_variables");
    if pack_storage.is_none() || pack_struct.is_none() {
        out.tool_error("packing detectors not found in get_all_optimizations()".into());
        return;
    }
    let (pack_storage, pack_struct) = (pack_storage.unwrap(), pack_struct.unwrap());
    for (idx, r) in recs.iter().enumerate() {
        let sizes: Vec<u16> = as_i64s(&r["sizes"]).iter().map(|x| *x as u16).collect();
        let expect = r["slots"].as_i64().unwrap_or(-1);
        let verdict = r["verdict"].as_str().unwrap_or("free").to_string();
        out.evaluations += 1;
        if verdict != "mustnot" || sizes.len() >= 2 {
            out.nontrivial += 1;
        }
        // (i) the slot counter itself
        match real_slots(&sizes) {
            Ok(got) => {
                if got as i64 != expect {
                    out.violate(
                        "slots-count",
                        format!("storage_slots_used({:?}) = {} but the layout rule gives {}", sizes, got, expect),
                        json!({"call": "storage_slots_used", "sizes": sizes, "observed": got, "expected": expect}),
                    );
                }
            }
            Err(m) => out.violate(
                "slots-panic",
                format!("storage_slots_used({:?}) panicked: {}", sizes, m),
                json!({"call": "storage_slots_used", "sizes": sizes, "panic": m}),
            ),
        }
        // (iii) the verdict of the two detectors on a rendered container
        if sizes.is_empty() {
            continue;
        }
        let types: Vec<String> = sizes
            .iter()
            .enumerate()
            .map(|(i, s)| {
                let sp = spellings_for_size(*s as u32);
                sp[(idx + i * 7) % sp.len()].clone()
            })
            .collect();
        for (kind, det) in [("contract", pack_storage), ("abstractcontract", pack_storage), ("contractmixed", pack_storage), ("filestruct", pack_struct), ("innerstruct", pack_struct),
                            ("contractbetween", pack_storage), ("structbetween", pack_struct),
                            ("derivedcontract", pack_storage), ("derivedstruct", pack_struct)] {
            let src = render_container(kind, &types);
            check_verdict(out, &src, kind, det, &sizes, &verdict, container_line(kind));
        }
        // two structs of the same NAME in different scopes (file level and inside a contract): each is judged on its own
        if sizes.len() >= 2 && idx % 3 == 0 {
            let mut members = String::new();
            for (i, t) in types.iter().enumerate() {
                members.push_str(&format!("    {} m{};\n", t, i));
            }
            let src = format!("pragma solidity 0.8.17;\n\nstruct Rec {{\n{}}}\ncontract Outer {{\n  struct Rec {{\n{}  }}\n}}\n", members, members);
            let (l1, l2) = (3, 3 + types.len() as i32 + 3);
            match pack_struct.run(&src) {
                Ok(lines) => {
                    let stray: Vec<i32> = lines.iter().cloned().filter(|l| *l != l1 && *l != l2).collect();
                    let both = lines.contains(&l1) && lines.contains(&l2);
                    let none = !lines.contains(&l1) && !lines.contains(&l2);
                    if !stray.is_empty() || (verdict == "must" && !both) || (verdict == "mustnot" && !none) || (!both && !none) {
                        out.violate(
                            "pack-same-name-structs",
                            format!("pack_struct_variables reports {:?} for two structs named Rec (lines {} and {}) with member sizes {:?}, verdict {}", lines, l1, l2, sizes, verdict),
                            json!({"call": "pack-same-name", "source": src, "detector": "pack_struct_variables", "observed": lines, "lines": [l1, l2], "verdict": verdict, "sizes": sizes}),
                        );
                    }
                }
                Err(m) => out.violate("pack-panic:samename", m, json!({"source": src, "detector": "pack_struct_variables"})),
            }
        }
        if idx % 997 == 0 {
            out.sample(json!({"sizes": sizes, "slots": expect, "verdict": verdict, "types": types}));
        }
    }
}

fn check_verdict(out: &mut Outcome, src: &str, kind: &str, det: Det, sizes: &[u16], verdict: &str, line: i32) {
    match det.run(src) {
        Ok(lines) => {
            let reported = lines.contains(&line);
            let stray: Vec<i32> = lines.iter().cloned().filter(|l| *l != line).collect();
            if !stray.is_empty() {
                out.violate(
                    &format!("pack-stray-line:{}", kind),
                    format!("{} reports lines {:?} where no container begins", det.name(), stray),
                    json!({"call": "pack-verdict", "source": src, "detector": det.name(), "observed": lines, "line": line, "verdict": verdict}),
                );
            }
            if verdict == "must" && !reported {
                out.violate(
                    &format!("pack-missed:{}", kind),
                    format!("{} does not report a {} with member sizes {:?} although both sort directions save a slot", det.name(), kind, sizes),
                    json!({"call": "pack-verdict", "source": src, "detector": det.name(), "observed": lines, "line": line, "verdict": verdict, "sizes": sizes}),
                );
            }
            if verdict == "mustnot" && reported {
                out.violate(
                    &format!("pack-false:{}", kind),
                    format!("{} reports a {} with member sizes {:?} whose declared order is already optimal", det.name(), kind, sizes),
                    json!({"call": "pack-verdict", "source": src, "detector": det.name(), "observed": lines, "line": line, "verdict": verdict, "sizes": sizes}),
                );
            }
        }
        Err(m) => out.violate(
            &format!("pack-panic:{}", kind),
            format!("{} panicked on a {}: {}", det.name(), kind, m),
            json!({"source": src, "detector": det.name(), "panic": m}),
        ),
    }
}

/// Recorded trace for TV_C10: the size of every type spelling, and every container of the corpus.
pub fn record(corpus_dir: &str, trace: &mut NdjsonWriter, out: &mut Outcome) {
    // type table
    for (spelling, class, n) in type_spellings() {
        let src = format!("contract C {{ {} x; }}", spelling);
        let parsed = solang_parser::parse(&src, 0);
        let su = match parsed {
            Ok((su, _)) => su,
            Err(_) => {
                out.tool_error(format!("type spelling does not parse: {}", spelling));
                continue;
            }
        };
        let mut ty = None;
        if let Some(pt::SourceUnitPart::ContractDefinition(c)) = su.0.get(0) {
            if let Some(pt::ContractPart::VariableDefinition(v)) = c.parts.get(0) {
                ty = Some(v.ty.clone());
            }
        }
        let ty = match ty {
            Some(t) => t,
            None => {
                out.tool_error(format!("no variable in {}", src));
                continue;
            }
        };
        let cls = type_class(&ty);
        if cls["t"] != class {
            out.tool_error(format!("type class mismatch for {}: {} vs {}", spelling, cls, class));
        }
        let t2 = ty.clone();
        match guarded(move || get_type_size(t2)) {
            Ok(sz) => trace.push(&json!({"k": "type", "spelling": spelling, "ty": {"t": class, "n": n}, "size": sz})),
            Err(m) => out.violate("type-size-panic", format!("get_type_size({}) panicked: {}", spelling, m), json!({"spelling": spelling})),
        }
        out.evaluations += 1;
    }
    // corpus containers
    let mut files: Vec<_> = std::fs::read_dir(corpus_dir)
        .map(|rd| rd.filter_map(|e| e.ok()).map(|e| e.path()).collect())
        .unwrap_or_default();
    files.sort();
    let pack_storage = by_name("pack_storage_variables");
    let pack_struct = by_name("pack_struct_variables");
    for f in files {
        let src = match std::fs::read_to_string(&f) {
            Ok(s) => s,
            Err(_) => continue,
        };
        let su = match solang_parser::parse(&src, 0) {
            Ok((su, _)) => su,
            Err(_) => continue,
        };
        let storage_lines = pack_storage.and_then(|d| d.run(&src).ok());
        let struct_lines = pack_struct.and_then(|d| d.run(&src).ok());
        let line_of = |off: usize| 1 + src.as_bytes()[..off.min(src.len())].iter().filter(|b| **b == b'\n').count() as i32;
        let name = f.file_name().unwrap().to_string_lossy().to_string();
        let mut emit = |what: &str, loc: &pt::Loc, tys: Vec<pt::Expression>, lines: &Option<std::collections::BTreeSet<i32>>,
                        trace: &mut NdjsonWriter, out: &mut Outcome| {
            let classes: Vec<Value> = tys.iter().map(type_class).collect();
            let mut sizes = vec![];
            for t in tys.iter() {
                let t2 = t.clone();
                match guarded(move || get_type_size(t2)) {
                    Ok(s) => sizes.push(s),
                    Err(_) => return,
                }
            }
            let slots = match real_slots(&sizes) {
                Ok(s) => s,
                Err(_) => return,
            };
            if let Some(ls) = lines {
                let line = line_of(loc.start());
                // another container beginning on the same line would blur the verdict: skip those
                trace.push(&json!({"k": "container", "src": name, "what": what, "line": line, "types": classes,
                                   "sizes": sizes, "slots": slots, "reported": ls.contains(&line)}));
                out.evaluations += 1;
                if sizes.len() >= 2 {
                    out.nontrivial += 1;
                }
            }
        };
        let mut seen_lines = std::collections::BTreeSet::new();
        for part in su.0.iter() {
            match part {
                pt::SourceUnitPart::ContractDefinition(c) => {
                    let tys: Vec<pt::Expression> = c
                        .parts
                        .iter()
                        .filter_map(|p| if let pt::ContractPart::VariableDefinition(v) = p { Some(v.ty.clone()) } else { None })
                        .collect();
                    if seen_lines.insert(("c", line_of(c.loc.start()))) {
                        emit("contract", &c.loc, tys, &storage_lines, trace, out);
                    }
                    for p in c.parts.iter() {
                        if let pt::ContractPart::StructDefinition(s) = p {
                            let tys: Vec<pt::Expression> = s.fields.iter().map(|f| f.ty.clone()).collect();
                            if seen_lines.insert(("s", line_of(s.loc.start()))) {
                                emit("struct", &s.loc, tys, &struct_lines, trace, out);
                            }
                        }
                    }
                }
                pt::SourceUnitPart::StructDefinition(s) => {
                    let tys: Vec<pt::Expression> = s.fields.iter().map(|f| f.ty.clone()).collect();
                    if seen_lines.insert(("s", line_of(s.loc.start()))) {
                        emit("struct", &s.loc, tys, &struct_lines, trace, out);
                    }
                }
                _ => {}
            }
        }
    }
}
