//! Binding 1 (DESIGN.md 3.3): abstract (nested) tree -> Solidity text, one token per line,
//! so that line = token index.  Node ids are pre-order indexes of the nested tree (children in
//! slot order), the same numbering SolAst.tla's Flatten and the projector use.
use serde_json::{json, Value};

pub struct Rendered {
    pub tokens: Vec<String>,
    /// per node id (1-based): index (1-based) of the first token of its text
    pub start: Vec<usize>,
    /// per node id: named anchors (token indexes): "name", "memory0".., "kw"
    pub anchors: Vec<serde_json::Map<String, Value>>,
    pub errors: Vec<String>,
}

impl Rendered {
    pub fn text(&self) -> String {
        let mut s = self.tokens.join("\n");
        s.push('\n');
        s
    }
}

struct R {
    out: Rendered,
    next_id: usize,
}

fn a_str<'a>(n: &'a Value, key: &str) -> Option<&'a str> {
    n["a"].get(key).and_then(|v| v.as_str()).filter(|s| !s.is_empty())
}
fn a_bool(n: &Value, key: &str) -> bool {
    n["a"].get(key).and_then(|v| v.as_bool()).unwrap_or(false)
}
fn a_arr<'a>(n: &'a Value, key: &str) -> Vec<Value> {
    n["a"].get(key).and_then(|v| v.as_array()).cloned().unwrap_or_default()
}
fn slot<'a>(n: &'a Value, i: usize) -> Vec<Value> {
    n["c"].get(i).and_then(|v| v.as_array()).cloned().unwrap_or_default()
}
fn s_or<'a>(v: &'a Value, key: &str, d: &'a str) -> String {
    v.get(key).and_then(|x| x.as_str()).filter(|s| !s.is_empty()).unwrap_or(d).to_string()
}

impl R {
    fn tok(&mut self, t: &str) {
        self.out.tokens.push(t.to_string());
    }
    fn toks(&mut self, ts: &[&str]) {
        for t in ts {
            self.tok(t);
        }
    }
    fn here(&self) -> usize {
        self.out.tokens.len() + 1
    }
    fn enter(&mut self) -> usize {
        self.next_id += 1;
        let id = self.next_id;
        self.out.start.push(self.here());
        self.out.anchors.push(serde_json::Map::new());
        id
    }
    fn anchor(&mut self, id: usize, key: &str) {
        let h = self.here();
        self.out.anchors[id - 1].insert(key.to_string(), json!(h));
    }
    fn err(&mut self, m: String) {
        self.out.errors.push(m);
    }

    fn comma_list(&mut self, items: &[Value]) {
        for (i, x) in items.iter().enumerate() {
            if i > 0 {
                self.tok(",");
            }
            self.node(x);
        }
    }

    /// parameter list from descriptors (present/storage/name) and the type children
    fn param_list(&mut self, id: usize, descr: &[Value], tys: &[Value], anchor_prefix: &str) {
        self.tok("(");
        let mut k = 0;
        // without descriptors: one parameter per type child, unnamed
        if descr.is_empty() {
            for (i, t) in tys.iter().enumerate() {
                if i > 0 {
                    self.tok(",");
                }
                self.node(t);
            }
            self.tok(")");
            return;
        }
        for (i, d) in descr.iter().enumerate() {
            if i > 0 {
                self.tok(",");
            }
            if d.get("present").and_then(|v| v.as_bool()).unwrap_or(true) {
                if let Some(t) = tys.get(k) {
                    self.node(t);
                } else {
                    self.err(format!("parameter {} of node {} has no type child", i, id));
                }
                let st = s_or(d, "storage", "");
                if !st.is_empty() {
                    if st == "memory" {
                        self.anchor(id, &format!("{}memory{}", anchor_prefix, k));
                    }
                    self.tok(&st);
                }
                let nm = s_or(d, "name", "");
                if !nm.is_empty() {
                    self.tok(&nm);
                }
                k += 1;
            }
        }
        self.tok(")");
    }

    fn fn_attributes(&mut self, descr: &[Value], kids: &[Value]) {
        let mut k = 0;
        for d in descr {
            match d["kind"].as_str().unwrap_or("") {
                "visibility" | "mutability" => self.tok(d["value"].as_str().unwrap_or("public")),
                "virtual" => self.tok("virtual"),
                "immutable" => self.tok("immutable"),
                "override" => {
                    self.tok("override");
                    let list = d["list"].as_array().cloned().unwrap_or_default();
                    if !list.is_empty() {
                        self.tok("(");
                        for (i, p) in list.iter().enumerate() {
                            if i > 0 {
                                self.tok(",");
                            }
                            self.tok(p.as_str().unwrap_or("B"));
                        }
                        self.tok(")");
                    }
                }
                "modifier" => {
                    self.tok(d["name"].as_str().unwrap_or("mod"));
                    if let Some(n) = d["args"].as_u64() {
                        self.tok("(");
                        for i in 0..(n as usize) {
                            if i > 0 {
                                self.tok(",");
                            }
                            if let Some(x) = kids.get(k) {
                                self.node(x);
                            }
                            k += 1;
                        }
                        self.tok(")");
                    }
                }
                "namevalue" => {
                    self.tok(d["name"].as_str().unwrap_or("nv"));
                    self.tok("=");
                    if let Some(x) = kids.get(k) {
                        self.node(x);
                    }
                    k += 1;
                }
                _ => {}
            }
        }
        if k != kids.len() {
            self.err(format!("function attributes consume {} of {} children", k, kids.len()));
        }
    }

    fn string_pieces(&mut self, n: &Value) {
        let pieces = a_arr(n, "pieces");
        if pieces.is_empty() {
            self.tok("\"s\"");
        }
        for p in pieces {
            let s = p["string"].as_str().unwrap_or("s");
            if p["unicode"].as_bool().unwrap_or(false) {
                self.tok(&format!("unicode\"{}\"", s));
            } else {
                self.tok(&format!("\"{}\"", s));
            }
        }
    }

    fn function_def(&mut self, id: usize, n: &Value) {
        let fty = a_str(n, "fty").unwrap_or("function").to_string();
        let name = a_str(n, "name").map(|s| s.to_string());
        match fty.as_str() {
            "function" => {
                self.tok("function");
                // an explicit null name is the legacy unnamed function `function () ...`
                let nameless = n["a"].get("name").map(|v| v.is_null()).unwrap_or(false) || a_bool(n, "nameless");
                if !nameless {
                    self.anchor(id, "name");
                    self.tok(&name.unwrap_or_else(|| format!("f{}", id)));
                }
            }
            "modifier" => {
                self.tok("modifier");
                self.anchor(id, "name");
                self.tok(&name.unwrap_or_else(|| format!("m{}", id)));
            }
            other => self.tok(other),
        }
        let (ps, at, rs, body) = (slot(n, 0), slot(n, 1), slot(n, 2), slot(n, 3));
        self.param_list(id, &a_arr(n, "params"), &ps, "");
        let mut descr = a_arr(n, "attributes");
        if descr.is_empty() {
            // shorthand attributes: vis / mut / modifiers (+ one modifier per child of the attrs slot)
            for v in a_arr(n, "vis") {
                descr.push(json!({"kind": "visibility", "value": v}));
            }
            for v in a_arr(n, "mut") {
                descr.push(json!({"kind": "mutability", "value": v}));
            }
            let mods = a_arr(n, "modifiers");
            if !mods.is_empty() {
                let per = if mods.len() == 1 { at.len() } else { 0 };
                for (i, m) in mods.iter().enumerate() {
                    if i == 0 && per > 0 {
                        descr.push(json!({"kind": "modifier", "name": m, "args": per}));
                    } else {
                        descr.push(json!({"kind": "modifier", "name": m, "args": null}));
                    }
                }
            } else if !at.is_empty() {
                descr.push(json!({"kind": "modifier", "name": "guard", "args": at.len()}));
            }
        }
        self.fn_attributes(&descr, &at);
        let rd = a_arr(n, "returns");
        if !rs.is_empty() || !rd.is_empty() {
            self.tok("returns");
            self.param_list(id, &rd, &rs, "r");
        }
        match body.get(0) {
            Some(b) => self.node(b),
            None => self.tok(";"),
        }
    }

    fn variable_def(&mut self, id: usize, n: &Value) {
        let (ty, init) = (slot(n, 0), slot(n, 1));
        if let Some(t) = ty.get(0) {
            self.node(t);
        } else {
            self.tok("uint256");
        }
        let mut order: Vec<String> = a_arr(n, "vattrs").iter().filter_map(|v| v.as_str().map(|s| s.to_string())).collect();
        if order.is_empty() {
            for v in a_arr(n, "vis") {
                order.push(v.as_str().unwrap_or("public").to_string());
            }
            if a_bool(n, "constant") {
                order.push("constant".into());
            }
            if a_bool(n, "immutable") {
                order.push("immutable".into());
            }
        }
        for o in order {
            self.tok(&o);
        }
        self.anchor(id, "name");
        let name = a_str(n, "name").map(|s| s.to_string()).unwrap_or_else(|| format!("v{}", id));
        self.tok(&name);
        if let Some(e) = init.get(0) {
            self.tok("=");
            self.node(e);
        }
        self.tok(";");
    }

    fn fields(&mut self, descr: &[Value], tys: &[Value], id: usize, struct_like: bool) {
        for (i, t) in tys.iter().enumerate() {
            if !struct_like && i > 0 {
                self.tok(",");
            }
            self.node(t);
            let d = descr.get(i).cloned().unwrap_or(json!({}));
            if struct_like {
                let st = s_or(&d, "storage", "");
                if !st.is_empty() {
                    self.tok(&st);
                }
                self.tok(&s_or(&d, "name", &format!("fld{}_{}", id, i)));
                self.tok(";");
            } else {
                if d["indexed"].as_bool().unwrap_or(false) {
                    self.tok("indexed");
                }
                let nm = s_or(&d, "name", "");
                if !nm.is_empty() {
                    self.tok(&nm);
                }
            }
        }
    }

    fn using(&mut self, n: &Value) {
        self.tok("using");
        let funcs = a_arr(n, "functions");
        if !funcs.is_empty() {
            self.tok("{");
            for (i, f) in funcs.iter().enumerate() {
                if i > 0 {
                    self.tok(",");
                }
                self.tok(f.as_str().unwrap_or("fn"));
            }
            self.tok("}");
        } else {
            self.tok(a_str(n, "library").unwrap_or("Lib"));
        }
        self.tok("for");
        match slot(n, 0).get(0) {
            Some(t) => self.node(t),
            None => self.tok("*"),
        }
        if let Some(g) = a_str(n, "global") {
            self.tok(g);
        }
        self.tok(";");
    }

    fn binary(&mut self, n: &Value, op: &str) {
        let (l, r) = (slot(n, 0), slot(n, 1));
        if let Some(x) = l.get(0) {
            self.node(x);
        }
        self.tok(op);
        if let Some(x) = r.get(0) {
            self.node(x);
        }
    }

    fn named_args(&mut self, names: &[Value], kids: &[Value], id: usize) {
        for (i, k) in kids.iter().enumerate() {
            if i > 0 {
                self.tok(",");
            }
            let nm = names.get(i).and_then(|v| v.as_str()).map(|s| s.to_string()).unwrap_or_else(|| format!("arg{}_{}", id, i));
            self.tok(&nm);
            self.tok(":");
            self.node(k);
        }
    }

    fn node(&mut self, n: &Value) {
        let id = self.enter();
        let kind = n["k"].as_str().unwrap_or("?").to_string();
        match kind.as_str() {
            "SU.SourceUnit" => {
                for p in slot(n, 0) {
                    self.node(&p);
                }
            }
            "SUP.ContractDefinition" => {
                match a_str(n, "cty").unwrap_or("contract") {
                    "abstract" => self.toks(&["abstract", "contract"]),
                    o => self.tok(o),
                }
                let name = a_str(n, "name").map(|s| s.to_string()).unwrap_or_else(|| format!("C{}", id));
                self.tok(&name);
                let args = slot(n, 0);
                let mut bases = a_arr(n, "bases");
                if bases.is_empty() && !args.is_empty() {
                    bases.push(json!({"name": "Parent", "args": args.len()}));
                }
                let mut k = 0;
                for (i, b) in bases.iter().enumerate() {
                    self.tok(if i == 0 { "is" } else { "," });
                    self.tok(b["name"].as_str().unwrap_or("Parent"));
                    if let Some(cnt) = b["args"].as_u64() {
                        self.tok("(");
                        for j in 0..(cnt as usize) {
                            if j > 0 {
                                self.tok(",");
                            }
                            if let Some(x) = args.get(k) {
                                self.node(x);
                            }
                            k += 1;
                        }
                        self.tok(")");
                    }
                }
                self.tok("{");
                for p in slot(n, 1) {
                    self.node(&p);
                }
                self.tok("}");
            }
            "SUP.PragmaDirective" => {
                self.tok("pragma");
                self.tok(a_str(n, "pragmaId").unwrap_or("solidity"));
                self.tok(a_str(n, "value").unwrap_or("0.8.17"));
                self.tok(";");
            }
            "SUP.ImportDirective" => {
                let path = n["a"].get("path").and_then(|p| p.get("string")).and_then(|v| v.as_str()).unwrap_or("./x.sol").to_string();
                let lit = format!("\"{}\"", path);
                match a_str(n, "form").unwrap_or("plain") {
                    "global" => {
                        self.toks(&["import", &lit, "as"]);
                        self.tok(a_str(n, "as").unwrap_or("X"));
                    }
                    "rename" => {
                        self.toks(&["import", "{"]);
                        for (i, pair) in a_arr(n, "names").iter().enumerate() {
                            if i > 0 {
                                self.tok(",");
                            }
                            self.tok(pair[0].as_str().unwrap_or("A"));
                            if let Some(to) = pair[1].as_str() {
                                self.tok("as");
                                self.tok(to);
                            }
                        }
                        self.toks(&["}", "from", &lit]);
                    }
                    _ => self.toks(&["import", &lit]),
                }
                self.tok(";");
            }
            "SUP.EnumDefinition" | "CP.EnumDefinition" => {
                self.tok("enum");
                let name = a_str(n, "name").map(|s| s.to_string()).unwrap_or_else(|| format!("En{}", id));
                self.tok(&name);
                self.tok("{");
                let vals = a_arr(n, "values");
                if vals.is_empty() {
                    self.toks(&["One", ",", "Two"]);
                }
                for (i, v) in vals.iter().enumerate() {
                    if i > 0 {
                        self.tok(",");
                    }
                    self.tok(v.as_str().unwrap_or("V"));
                }
                self.tok("}");
            }
            "SUP.StructDefinition" | "CP.StructDefinition" => {
                self.tok("struct");
                let name = a_str(n, "name").map(|s| s.to_string()).unwrap_or_else(|| format!("St{}", id));
                self.tok(&name);
                self.tok("{");
                self.fields(&a_arr(n, "fields"), &slot(n, 0), id, true);
                self.tok("}");
            }
            "SUP.EventDefinition" | "CP.EventDefinition" => {
                self.tok("event");
                let name = a_str(n, "name").map(|s| s.to_string()).unwrap_or_else(|| format!("Ev{}", id));
                self.tok(&name);
                self.tok("(");
                self.fields(&a_arr(n, "fields"), &slot(n, 0), id, false);
                self.tok(")");
                if a_bool(n, "anonymous") {
                    self.tok("anonymous");
                }
                self.tok(";");
            }
            "SUP.ErrorDefinition" | "CP.ErrorDefinition" => {
                self.tok("error");
                let name = a_str(n, "name").map(|s| s.to_string()).unwrap_or_else(|| format!("Er{}", id));
                self.tok(&name);
                self.tok("(");
                self.fields(&a_arr(n, "fields"), &slot(n, 0), id, false);
                self.tok(")");
                self.tok(";");
            }
            "SUP.FunctionDefinition" | "CP.FunctionDefinition" => self.function_def(id, n),
            "SUP.VariableDefinition" | "CP.VariableDefinition" => self.variable_def(id, n),
            "SUP.TypeDefinition" | "CP.TypeDefinition" => {
                self.tok("type");
                let name = a_str(n, "name").map(|s| s.to_string()).unwrap_or_else(|| format!("Ty{}", id));
                self.tok(&name);
                self.tok("is");
                if let Some(t) = slot(n, 0).get(0) {
                    self.node(t);
                }
                self.tok(";");
            }
            "SUP.Using" | "CP.Using" => self.using(n),
            "SUP.StraySemicolon" | "CP.StraySemicolon" => self.tok(";"),

            "S.Block" => {
                if a_bool(n, "unchecked") {
                    self.tok("unchecked");
                }
                self.tok("{");
                for s in slot(n, 0) {
                    self.node(&s);
                }
                self.tok("}");
            }
            "S.Assembly" => {
                // fixed Yul body with code-like text: nothing in here may ever be reported
                self.toks(&["assembly", "{", "let", "c", ":=", "add", "(", "a", ",", "div", "(", "b", ",", "2", ")", ")",
                            "pop", "(", "keccak256", "(", "0", ",", "64", ")", ")", "selfdestruct", "(", "caller", "(", ")", ")", "}"]);
            }
            "S.Continue" => self.toks(&["continue", ";"]),
            "S.Break" => self.toks(&["break", ";"]),
            "S.Args" => {
                self.tok("{");
                self.named_args(&a_arr(n, "names"), &slot(n, 0), id);
                self.tok("}");
            }
            "S.If" => {
                self.toks(&["if", "("]);
                if let Some(c) = slot(n, 0).get(0) {
                    self.node(c);
                }
                self.tok(")");
                if let Some(t) = slot(n, 1).get(0) {
                    self.node(t);
                }
                if let Some(e) = slot(n, 2).get(0) {
                    self.tok("else");
                    self.node(e);
                }
            }
            "S.While" => {
                self.toks(&["while", "("]);
                if let Some(c) = slot(n, 0).get(0) {
                    self.node(c);
                }
                self.tok(")");
                if let Some(b) = slot(n, 1).get(0) {
                    self.node(b);
                }
            }
            "S.DoWhile" => {
                self.tok("do");
                if let Some(b) = slot(n, 0).get(0) {
                    self.node(b);
                }
                self.toks(&["while", "("]);
                if let Some(c) = slot(n, 1).get(0) {
                    self.node(c);
                }
                self.toks(&[")", ";"]);
            }
            "S.For" => {
                self.toks(&["for", "("]);
                if let Some(i) = slot(n, 0).get(0) {
                    self.simple_statement(i);
                }
                self.tok(";");
                if let Some(c) = slot(n, 1).get(0) {
                    self.node(c);
                }
                self.tok(";");
                if let Some(x) = slot(n, 2).get(0) {
                    self.simple_statement(x);
                }
                self.tok(")");
                match slot(n, 3).get(0) {
                    Some(b) => self.node(b),
                    None => self.tok(";"),
                }
            }
            "S.Expression" | "S.VariableDefinition" => {
                // re-dispatch without entering twice
                self.next_id -= 1;
                self.out.start.pop();
                self.out.anchors.pop();
                self.simple_statement(n);
                self.tok(";");
            }
            "S.Return" => {
                self.tok("return");
                if let Some(e) = slot(n, 0).get(0) {
                    self.node(e);
                }
                self.tok(";");
            }
            "S.Revert" => {
                self.tok("revert");
                if let Some(e) = a_str(n, "error") {
                    self.tok(e);
                }
                self.tok("(");
                self.comma_list(&slot(n, 0));
                self.toks(&[")", ";"]);
            }
            "S.RevertNamedArgs" => {
                self.tok("revert");
                self.tok(a_str(n, "error").unwrap_or("Failure"));
                self.toks(&["(", "{"]);
                self.named_args(&a_arr(n, "names"), &slot(n, 0), id);
                self.toks(&["}", ")", ";"]);
            }
            "S.Emit" => {
                self.tok("emit");
                if let Some(c) = slot(n, 0).get(0) {
                    self.node(c);
                }
                self.tok(";");
            }
            "S.Try" => {
                self.tok("try");
                if let Some(e) = slot(n, 0).get(0) {
                    self.node(e);
                }
                let (rp, rb, ck) = (slot(n, 1), slot(n, 2), slot(n, 3));
                if let Some(b) = rb.get(0) {
                    self.tok("returns");
                    let descr = n["a"].get("returns").and_then(|v| v.as_array()).cloned().unwrap_or_default();
                    self.param_list(id, &descr, &rp, "t");
                    self.node(b);
                }
                let mut catches = a_arr(n, "catches");
                if catches.is_empty() {
                    // derive clauses from the children: an E child is the parameter type of the clause whose body follows
                    let mut i = 0;
                    while i < ck.len() {
                        if ck[i]["k"].as_str().unwrap_or("").starts_with("E.") {
                            catches.push(json!({"kind": "simple", "param": {"storage": "memory", "name": format!("cp{}", i)}}));
                            i += 2;
                        } else {
                            catches.push(json!({"kind": "simple", "param": {"present": false}}));
                            i += 1;
                        }
                    }
                }
                let mut k = 0;
                for c in catches {
                    self.tok("catch");
                    if c["kind"] == "named" {
                        self.tok(c["id"].as_str().unwrap_or("Error"));
                    }
                    if c["param"].is_object() && c["param"].get("present").and_then(|v| v.as_bool()).unwrap_or(true) {
                        self.tok("(");
                        if let Some(t) = ck.get(k) {
                            self.node(t);
                        }
                        k += 1;
                        let st = s_or(&c["param"], "storage", "");
                        if !st.is_empty() {
                            self.tok(&st);
                        }
                        let nm = s_or(&c["param"], "name", "");
                        if !nm.is_empty() {
                            self.tok(&nm);
                        }
                        self.tok(")");
                    }
                    if let Some(b) = ck.get(k) {
                        self.node(b);
                    }
                    k += 1;
                }
                if k != ck.len() {
                    self.err(format!("try node {} consumes {} of {} catch children", id, k, ck.len()));
                }
            }

            "E.PostIncrement" => {
                if let Some(e) = slot(n, 0).get(0) {
                    self.node(e);
                }
                self.tok("++");
            }
            "E.PostDecrement" => {
                if let Some(e) = slot(n, 0).get(0) {
                    self.node(e);
                }
                self.tok("--");
            }
            "E.New" => self.prefix(n, "new"),
            "E.Not" => self.prefix(n, "!"),
            "E.Complement" => self.prefix(n, "~"),
            "E.Delete" => self.prefix(n, "delete"),
            "E.PreIncrement" => self.prefix(n, "++"),
            "E.PreDecrement" => self.prefix(n, "--"),
            "E.UnaryPlus" => self.prefix(n, "+"),
            "E.UnaryMinus" => self.prefix(n, "-"),
            "E.Parenthesis" => {
                self.tok("(");
                if let Some(e) = slot(n, 0).get(0) {
                    self.node(e);
                }
                self.tok(")");
            }
            "E.Unit" => {
                if let Some(e) = slot(n, 0).get(0) {
                    self.node(e);
                }
                self.tok(a_str(n, "unit").unwrap_or("wei"));
            }
            "E.MemberAccess" => {
                if let Some(e) = slot(n, 0).get(0) {
                    self.node(e);
                }
                self.tok(".");
                self.anchor(id, "member");
                self.tok(a_str(n, "member").unwrap_or("field"));
            }
            "E.ArraySubscript" => {
                if let Some(e) = slot(n, 0).get(0) {
                    self.node(e);
                }
                self.tok("[");
                if let Some(i) = slot(n, 1).get(0) {
                    self.node(i);
                }
                self.tok("]");
            }
            "E.ArraySlice" => {
                if let Some(e) = slot(n, 0).get(0) {
                    self.node(e);
                }
                self.tok("[");
                if let Some(i) = slot(n, 1).get(0) {
                    self.node(i);
                }
                self.tok(":");
                if let Some(i) = slot(n, 2).get(0) {
                    self.node(i);
                }
                self.tok("]");
            }
            "E.FunctionCall" => {
                if let Some(c) = slot(n, 0).get(0) {
                    self.node(c);
                }
                self.tok("(");
                self.comma_list(&slot(n, 1));
                self.tok(")");
            }
            "E.FunctionCallBlock" => {
                if let Some(c) = slot(n, 0).get(0) {
                    self.node(c);
                }
                if let Some(b) = slot(n, 1).get(0) {
                    self.node(b);
                }
            }
            "E.NamedFunctionCall" => {
                if let Some(c) = slot(n, 0).get(0) {
                    self.node(c);
                }
                self.toks(&["(", "{"]);
                self.named_args(&a_arr(n, "names"), &slot(n, 1), id);
                self.toks(&["}", ")"]);
            }
            "E.Ternary" => {
                let (c, t, e) = (slot(n, 0), slot(n, 1), slot(n, 2));
                if let Some(x) = c.get(0) {
                    self.node(x);
                }
                self.tok("?");
                if let Some(x) = t.get(0) {
                    self.node(x);
                }
                self.tok(":");
                if let Some(x) = e.get(0) {
                    self.node(x);
                }
            }
            "E.BoolLiteral" => self.tok(if a_bool(n, "value") { "true" } else { "false" }),
            "E.NumberLiteral" => {
                let v = a_str(n, "value").unwrap_or("1").to_string();
                match a_str(n, "exp") {
                    Some(e) => self.tok(&format!("{}e{}", v, e)),
                    None => self.tok(&v),
                }
            }
            "E.RationalNumberLiteral" => {
                let t = format!("{}.{}", a_str(n, "int").unwrap_or("1"), a_str(n, "frac").unwrap_or("5"));
                match a_str(n, "exp") {
                    Some(e) => self.tok(&format!("{}e{}", t, e)),
                    None => self.tok(&t),
                }
            }
            "E.HexNumberLiteral" => self.tok(a_str(n, "value").unwrap_or("0x10")),
            "E.StringLiteral" => self.string_pieces(n),
            "E.HexLiteral" => {
                let pieces = a_arr(n, "pieces");
                if pieces.is_empty() {
                    self.tok("hex\"00ff\"");
                }
                for p in pieces {
                    self.tok(&format!("hex\"{}\"", p.as_str().unwrap_or("00")));
                }
            }
            "E.AddressLiteral" => self.tok(&format!("address\"{}\"", a_str(n, "value").unwrap_or("0x0000000000000000000000000000000000000001"))),
            "E.Variable" => {
                let nm = a_str(n, "name").map(|s| s.to_string()).unwrap_or_else(|| format!("x{}", id));
                self.tok(&nm);
            }
            "E.This" => self.tok("this"),
            "E.ArrayLiteral" => {
                self.tok("[");
                self.comma_list(&slot(n, 0));
                self.tok("]");
            }
            "E.List" => {
                let entries = a_arr(n, "entries");
                let tys = slot(n, 0);
                if entries.is_empty() && tys.len() < 2 {
                    self.err(format!("E.List node {} needs entries or at least two children", id));
                }
                self.param_list(id, &entries, &tys, "l");
            }
            "E.Type" => {
                match a_str(n, "ty").unwrap_or("uint") {
                    "mapping" => {
                        self.toks(&["mapping", "("]);
                        if let Some(k) = slot(n, 0).get(0) {
                            self.node(k);
                        }
                        self.tok("=>");
                        if let Some(v) = slot(n, 1).get(0) {
                            self.node(v);
                        }
                        self.tok(")");
                    }
                    "function" => {
                        self.tok("function");
                        self.param_list(id, &a_arr(n, "params"), &slot(n, 0), "");
                        self.fn_attributes(&a_arr(n, "attributes"), &slot(n, 1));
                        let rs = slot(n, 2);
                        if !rs.is_empty() || a_bool(n, "hasReturns") {
                            self.tok("returns");
                            self.param_list(id, &a_arr(n, "returns"), &rs, "r");
                            self.fn_attributes(&a_arr(n, "retattributes"), &slot(n, 3));
                        }
                    }
                    "uint" | "int" => {
                        let w = n["a"].get("n").and_then(|v| v.as_u64()).unwrap_or(256);
                        self.tok(&format!("{}{}", a_str(n, "ty").unwrap_or("uint"), w));
                    }
                    "bytesN" => {
                        let w = n["a"].get("n").and_then(|v| v.as_u64()).unwrap_or(32);
                        self.tok(&format!("bytes{}", w));
                    }
                    "address payable" => self.toks(&["address", "payable"]),
                    other => self.tok(other),
                }
            }
            k if k.starts_with("E.") => {
                let op = match &k[2..] {
                    "Power" => "**", "Multiply" => "*", "Divide" => "/", "Modulo" => "%", "Add" => "+", "Subtract" => "-",
                    "ShiftLeft" => "<<", "ShiftRight" => ">>", "BitwiseAnd" => "&", "BitwiseXor" => "^", "BitwiseOr" => "|",
                    "Less" => "<", "More" => ">", "LessEqual" => "<=", "MoreEqual" => ">=", "Equal" => "==", "NotEqual" => "!=",
                    "And" => "&&", "Or" => "||", "Assign" => "=", "AssignOr" => "|=", "AssignAnd" => "&=", "AssignXor" => "^=",
                    "AssignShiftLeft" => "<<=", "AssignShiftRight" => ">>=", "AssignAdd" => "+=", "AssignSubtract" => "-=",
                    "AssignMultiply" => "*=", "AssignDivide" => "/=", "AssignModulo" => "%=",
                    _ => "",
                };
                if op.is_empty() {
                    self.err(format!("unknown kind {}", k));
                } else {
                    self.binary(n, op);
                }
            }
            other => self.err(format!("unknown kind {}", other)),
        }
    }

    fn prefix(&mut self, n: &Value, op: &str) {
        self.tok(op);
        if let Some(e) = slot(n, 0).get(0) {
            self.node(e);
        }
    }

    /// S.Expression / S.VariableDefinition without the trailing `;` (for-loop headers)
    fn simple_statement(&mut self, n: &Value) {
        let id = self.enter();
        match n["k"].as_str().unwrap_or("") {
            "S.Expression" => {
                if let Some(e) = slot(n, 0).get(0) {
                    self.node(e);
                }
            }
            "S.VariableDefinition" => {
                if let Some(t) = slot(n, 0).get(0) {
                    self.node(t);
                }
                if let Some(st) = a_str(n, "storage") {
                    self.tok(st);
                }
                let nm = a_str(n, "name").map(|s| s.to_string()).unwrap_or_else(|| format!("loc{}", id));
                self.tok(&nm);
                if let Some(e) = slot(n, 1).get(0) {
                    self.tok("=");
                    self.node(e);
                }
            }
            other => self.err(format!("{} cannot stand in a for header", other)),
        }
    }
}

pub fn render(tree: &Value) -> Rendered {
    let mut r = R { out: Rendered { tokens: vec![], start: vec![], anchors: vec![], errors: vec![] }, next_id: 0 };
    r.node(tree);
    r.out
}
