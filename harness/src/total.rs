//! C04 -- every detector on every file, under catch_unwind and a watchdog; the build (with or
//! without overflow checks) is whatever profile this binary was compiled with.
use crate::common::*;
use crate::detectors::{all as all_detectors, parses};
use serde_json::{json, Value};
use std::sync::mpsc;
use std::time::Duration;

fn outcomes(text: &str) -> Value {
    let (tx, rx) = mpsc::channel();
    let t = text.to_string();
    std::thread::spawn(move || {
        let mut m = serde_json::Map::new();
        for d in all_detectors() {
            let r = match d.run(&t) {
                Ok(s) => json!({"set": s}),
                Err(e) => json!({"panic": e.chars().take(120).collect::<String>()}),
            };
            m.insert(d.name(), r);
        }
        let _ = tx.send(Value::Object(m));
    });
    match rx.recv_timeout(Duration::from_secs(30)) {
        Ok(v) => v,
        Err(_) => json!({"*": {"timeout": 30}}),
    }
}

fn classify(msg: &str) -> String {
    // a short, stable class of the panic message for the violation's signature
    let m = msg.to_lowercase();
    for (needle, class) in [
        ("index out of bounds", "index-out-of-bounds"), ("option::unwrap", "unwrap-none"), ("could not extract solidity version", "no-version"),
        ("parseinterror", "int-parse"), ("could not parse", "int-parse"), ("overflow", "arithmetic-overflow"), ("result::unwrap", "unwrap-err"),
        ("location dont recognized", "unknown-qa"),
    ] {
        if m.contains(needle) {
            return class.to_string();
        }
    }
    m.chars().filter(|c| c.is_ascii_alphanumeric() || *c == ' ').take(40).collect::<String>().trim().replace(' ', "-")
}

pub fn run(build: &str, corpus_dir: &str, behaviour_files: &[String], trace: &mut NdjsonWriter, out: &mut Outcome) {
    let mut inputs: Vec<(String, String)> = vec![];
    let mut failed = 0;
    for bf in behaviour_files {
        for (i, rec) in read_ndjson(bf).iter().enumerate() {
            match crate::gen::concretise(&rec["tree"]) {
                Ok(c) => inputs.push((format!("{}#{}:{}", bf.rsplit('/').nth(1).unwrap_or("gen"), i, rec["label"].as_str().unwrap_or("")), c.text)),
                Err(m) => {
                    failed += 1;
                    out.tool_error(format!("{} tree {} ({}): {}", bf, i, rec["label"], m));
                }
            }
        }
    }
    if corpus_dir != "-" {
        let mut files: Vec<_> = std::fs::read_dir(corpus_dir).map(|rd| rd.filter_map(|e| e.ok()).map(|e| e.path()).collect()).unwrap_or_default();
        files.sort();
        for f in files {
            if let Ok(s) = std::fs::read_to_string(&f) {
                if parses(&s) {
                    inputs.push((f.file_name().unwrap().to_string_lossy().to_string(), s));
                }
            }
        }
    }
    for (i, (name, text)) in inputs.iter().enumerate() {
        let o = outcomes(text);
        let mut bad = vec![];
        let mut sets = serde_json::Map::new();
        if let Some(m) = o.as_object() {
            for (d, r) in m {
                if let Some(p) = r.get("panic") {
                    bad.push(json!({"d": d, "why": format!("panic:{}", classify(p.as_str().unwrap_or("")))}));
                } else if r.get("timeout").is_some() {
                    bad.push(json!({"d": d, "why": "timeout"}));
                } else {
                    sets.insert(d.clone(), r["set"].clone());
                }
            }
        }
        out.evaluations += 1;
        if text.len() > 200 {
            out.nontrivial += 1;
        }
        let mut rec = json!({"k": "total", "build": build, "src": name, "bad": bad, "detectors": sets.len(), "results": Value::Object(sets)});
        if !bad_is_empty(&rec) {
            rec["text"] = json!(text);
        }
        if i % 997 == 1 {
            out.sample(json!({"src": name, "build": build, "detectors_returning_a_set": rec["detectors"]}));
        }
        trace.push(&rec);
    }
    // the directory entry points on files of every kind of NAME (eligible or not, short and long, multi-byte characters at
    // every distance from either end): a name is never a reason to abort
    let mut names: Vec<String> = vec![];
    for ext in [".sol", ".t.sol", ".txt", ".s.sol", ""] {
        for stem in ["A", "\u{e9}", "\u{8a9e}", "\u{1f600}", "\u{5408}\u{7ea6}", "\u{f6}A", "A\u{f6}", "a\u{8a9e}", "ab\u{8a9e}", "abc\u{1f600}", "\u{8a9e}\u{8a9e}\u{8a9e}", "x.y", ".", ".."] {
            let n = format!("{}{}", stem, ext);
            if n != "." && n != ".." && !n.is_empty() {
                names.push(n);
            }
        }
    }
    for pad in [40usize, 44, 45, 46, 47, 48, 60, 120, 200] {
        for tail in ["\u{e9}.sol", "\u{8a9e}.txt", "\u{1f600}.t.sol"] {
            names.push(format!("{}{}", "n".repeat(pad), tail));
        }
    }
    for name in names {
        let m = crate::detectors::run_all_via_dir_named(crate::dirs::C1, &name);
        let mut bad = vec![];
        let mut n_ok = 0;
        for (d, r) in m.iter() {
            match r {
                Ok(_) => n_ok += 1,
                Err(e) => bad.push(json!({"d": d, "why": format!("panic:{}", classify(e))})),
            }
        }
        out.evaluations += 1;
        trace.push(&json!({"k": "total", "build": build, "src": format!("file-name:{}", name), "bad": bad, "detectors": n_ok, "results": {}}));
    }
    out.set("generated_trees_failed", json!(failed));
}

fn bad_is_empty(rec: &Value) -> bool {
    rec["bad"].as_array().map(|a| a.is_empty()).unwrap_or(true)
}
