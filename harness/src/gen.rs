//! Concretising TLC-generated abstract trees: render, parse, project, check the round trip.
use crate::common::*;
use crate::project::{project_source, Tree};
use crate::render::{render, Rendered};
use serde_json::{json, Value};

const CHECKED_KEYS: [&str; 13] = ["name", "member", "value", "unchecked", "fty", "cty", "ty", "unit", "storage", "pragmaId", "error", "names", "exp"];

fn same_attr(a: &Value, b: &Value) -> bool {
    let empty = |v: &Value| v.is_null() || v.as_str() == Some("");
    if empty(a) && empty(b) {
        return true;
    }
    // the parser drops digit separators
    if let (Some(x), Some(y)) = (a.as_str(), b.as_str()) {
        return x.replace('_', "") == y.replace('_', "");
    }
    a == b
}

/// Does the projection of the rendered text reproduce the generated tree (kinds, slot shapes,
/// and the attributes the generator set)?  Returns a description of the first difference.
pub fn same_shape(gen: &Value, proj: &Value, path: &str) -> Option<String> {
    if gen["k"] != proj["k"] {
        return Some(format!("{}: generated {} but parsed {}", path, gen["k"], proj["k"]));
    }
    let (gc, pc) = (gen["c"].as_array().cloned().unwrap_or_default(), proj["c"].as_array().cloned().unwrap_or_default());
    if gc.len() != pc.len() {
        return Some(format!("{} ({}): {} slots generated, {} parsed", path, gen["k"], gc.len(), pc.len()));
    }
    for key in CHECKED_KEYS {
        if let (Some(x), Some(y)) = (gen["a"].get(key), proj["a"].get(key)) {
            // constructors / fallback / receive have no name; name lists may be longer than the arguments present
            if key == "name" && proj["a"].get("fty").map(|f| f != "function" && f != "modifier").unwrap_or(false) {
                continue;
            }
            if key == "names" {
                let (xa, ya) = (x.as_array().cloned().unwrap_or_default(), y.as_array().cloned().unwrap_or_default());
                if ya.len() <= xa.len() && xa[..ya.len()] == ya[..] {
                    continue;
                }
            }
            if !same_attr(x, y) {
                return Some(format!("{} ({}): attribute {} generated {} parsed {}", path, gen["k"], key, x, y));
            }
        }
    }
    for (i, (gs, ps)) in gc.iter().zip(pc.iter()).enumerate() {
        let (gs, ps) = (gs.as_array().cloned().unwrap_or_default(), ps.as_array().cloned().unwrap_or_default());
        if gs.len() != ps.len() {
            return Some(format!("{} ({}): slot {} has {} children generated, {} parsed", path, gen["k"], i + 1, gs.len(), ps.len()));
        }
        for (j, (g, p)) in gs.iter().zip(ps.iter()).enumerate() {
            if let Some(d) = same_shape(g, p, &format!("{}/{}.{}", path, i + 1, j + 1)) {
                return Some(d);
            }
        }
    }
    None
}

pub struct Concrete {
    pub rendered: Rendered,
    pub text: String,
    pub tree: Tree,
}

/// Render + parse + project + round-trip check.  Err = tool error (my generator / renderer is wrong).
pub fn concretise(gen: &Value) -> Result<Concrete, String> {
    let rendered = render(gen);
    if !rendered.errors.is_empty() {
        return Err(format!("render errors: {:?}", rendered.errors));
    }
    let text = rendered.text();
    let tree = match project_source(&text) {
        Some(t) => t,
        None => return Err(format!("rendered text does not parse: {}", text.replace('\n', " "))),
    };
    if let Some(d) = same_shape(gen, &tree.to_nested(1), "") {
        return Err(format!("round trip differs at {} -- text: {}", d, text.replace('\n', " ")));
    }
    if tree.nodes.len() != rendered.start.len() {
        return Err("node count mismatch between renderer and projector".into());
    }
    Ok(Concrete { rendered, text, tree })
}

/// C01 on generated trees: real search recorded for trace validation.
pub fn walk(behaviours: &str, full: bool, trace: &mut NdjsonWriter, out: &mut Outcome) {
    let mut rng = Rng::from_env(101);
    let mut failed = 0;
    for (i, rec) in read_ndjson(behaviours).iter().enumerate() {
        match concretise(&rec["tree"]) {
            Ok(c) => {
                crate::walk::record_program(&format!("gen{}", i), &c.text, full, &mut rng, trace, out);
                if i % 53 == 0 {
                    out.sample(json!({"generated_tree_text": c.text.replace('\n', " ")}));
                }
            }
            Err(m) => {
                failed += 1;
                out.tool_error(format!("tree {}: {}", i, m));
            }
        }
    }
    out.set("generated_trees_failed", json!(failed));
}
