//! C19 -- a file analysed whole and with all but one top-level item blanked out (line feeds kept).
use crate::common::*;
use crate::detectors::{all as all_detectors, parses};
use crate::project::{project_source, Tree};
use serde_json::json;

/// byte extent of an item: its loc, its descendants' locs, and a directly following `;`
fn extent(tree: &Tree, id: usize, src: &str) -> (usize, usize) {
    let n = &tree.nodes[id - 1];
    let mut a = n.start;
    let mut b = n.end;
    for k in id..=n.last {
        let m = &tree.nodes[k - 1];
        if m.end > 0 {
            a = a.min(m.start);
            b = b.max(m.end);
        }
    }
    let bytes = src.as_bytes();
    // closing brace of a body / declaration terminator that the loc does not include
    let mut j = b;
    while j < bytes.len() && (bytes[j] as char).is_whitespace() {
        j += 1;
    }
    if j < bytes.len() && bytes[j] == b';' {
        b = j + 1;
    }
    (a, b)
}

fn blank(src: &str, spans: &[(usize, usize)]) -> String {
    let mut bytes = src.as_bytes().to_vec();
    for (a, b) in spans {
        for i in *a..(*b).min(bytes.len()) {
            if bytes[i] != b'\n' {
                bytes[i] = b' ';
            }
        }
    }
    String::from_utf8_lossy(&bytes).to_string()
}

pub fn record_program(name: &str, src: &str, trace: &mut NdjsonWriter, out: &mut Outcome) -> bool {
    let tree = match project_source(src) {
        Some(t) => t,
        None => return false,
    };
    let top = tree.children(1);
    let items: Vec<usize> = top
        .iter()
        .cloned()
        .filter(|id| {
            let k = &tree.nodes[id - 1].kind;
            k != "SUP.PragmaDirective" && k != "SUP.ImportDirective"
        })
        .collect();
    if items.len() < 2 {
        return false;
    }
    let spans: Vec<(usize, usize)> = items.iter().map(|id| extent(&tree, *id, src)).collect();
    // the extents must be disjoint and ordered (function bodies are outside a definition's own loc, hence the subtree scan)
    for w in spans.windows(2) {
        if w[0].1 > w[1].0 {
            return false;
        }
    }
    let mut parts = vec![];
    for i in 0..items.len() {
        let others: Vec<(usize, usize)> = spans.iter().enumerate().filter(|(j, _)| *j != i).map(|(_, s)| *s).collect();
        let t = blank(src, &others);
        if !parses(&t) {
            out.set("blanked_variant_unparseable", json!(name));
            return false;
        }
        parts.push(t);
    }
    trace.push(&json!({"k": "ctree", "src": name, "items": items.len(), "tree": tree.to_json_with_lines(src)}));
    for d in all_detectors() {
        let whole = match d.run(src) {
            Ok(s) => s,
            Err(_) => continue, // totality is C04's subject
        };
        let mut ps = vec![];
        let mut ok = true;
        for t in parts.iter() {
            match d.run(t) {
                Ok(s) => ps.push(json!(s)),
                Err(_) => {
                    ok = false;
                    break;
                }
            }
        }
        if !ok {
            continue;
        }
        out.evaluations += 1;
        if !whole.is_empty() {
            out.nontrivial += 1;
        }
        trace.push(&json!({"k": "compose", "src": name, "detector": d.name(), "whole": whole, "parts": ps}));
    }
    true
}

pub fn record(corpus_dir: &str, behaviours: &str, random_concat: usize, trace: &mut NdjsonWriter, texts: &mut NdjsonWriter, out: &mut Outcome) {
    let mut failed = 0;
    if behaviours != "-" {
        for (i, rec) in read_ndjson(behaviours).iter().enumerate() {
            match crate::gen::concretise(&rec["tree"]) {
                Ok(c) => {
                    let name = format!("gen{}:{}", i, rec["label"].as_str().unwrap_or(""));
                    let before = trace.count;
                    if record_program(&name, &c.text, trace, out) {
                        for _ in before..trace.count {
                            texts.push(&json!({"src": name, "text": c.text}));
                        }
                        if i % 97 == 0 {
                            out.sample(json!({"label": rec["label"], "text": c.text.replace('\n', " ")}));
                        }
                    }
                }
                Err(m) => {
                    failed += 1;
                    out.tool_error(format!("generated file {} ({}): {}", i, rec["label"], m));
                }
            }
        }
    }
    let mut corpus: Vec<(String, String)> = vec![];
    if corpus_dir != "-" {
        let mut files: Vec<_> = std::fs::read_dir(corpus_dir).map(|rd| rd.filter_map(|e| e.ok()).map(|e| e.path()).collect()).unwrap_or_default();
        files.sort();
        for f in files {
            if let Ok(s) = std::fs::read_to_string(&f) {
                if parses(&s) {
                    corpus.push((f.file_name().unwrap().to_string_lossy().to_string(), s));
                }
            }
        }
    }
    for (name, src) in corpus.iter() {
        let before = trace.count;
        if record_program(name, src, trace, out) {
            for _ in before..trace.count {
                texts.push(&json!({"src": name, "text": src}));
            }
        }
    }
    // random concatenations of corpus files (the trace specification discards those whose items mention each other's state variables)
    let mut rng = Rng::from_env(19);
    for k in 0..random_concat {
        if corpus.len() < 2 {
            break;
        }
        let a = &corpus[rng.below(corpus.len())];
        let b = &corpus[rng.below(corpus.len())];
        let text = format!("{}\n{}", a.1, b.1);
        if !parses(&text) {
            continue;
        }
        let name = format!("concat{}:{}+{}", k, a.0, b.0);
        let before = trace.count;
        if record_program(&name, &text, trace, out) {
            for _ in before..trace.count {
                texts.push(&json!({"src": name, "text": text}));
            }
        }
    }
    out.set("generated_trees_failed", json!(failed));
}
