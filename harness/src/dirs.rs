//! C03 / C16 / C15(iii) -- materialising directory trees, running the real analyze_dir,
//! recording tree (in observed listing order), per-file results and directory result.
use crate::common::*;
use crate::detectors::{all as all_detectors, by_name, parses, Det};
use serde_json::{json, Value};
use solstat::analyzer::{optimizations, qa, vulnerabilities};
use std::collections::BTreeMap;
use std::fs;
use std::path::{Path, PathBuf};

pub const C1: &str = include_str!("../../corpus/dirwalk/c1.sol");
pub const C2: &str = include_str!("../../corpus/dirwalk/c2.sol");
pub const C3: &str = include_str!("../../corpus/dirwalk/c3.sol");
// a "barrel" file: only a (floating) pragma and imports -- still an eligible file with a finding
pub const C4: &str = include_str!("../../corpus/dirwalk/c4.sol");
// twins: the same byte length, one line feed moved, hence other lines reported
pub const C5: &str = include_str!("../../corpus/dirwalk/c5.sol");
pub const C6: &str = include_str!("../../corpus/dirwalk/c6.sol");
// witness files on which every detector fires (SafeMath below / above 0.8.0, ...): used for directed sibling pairs
pub const W_OLD: &str = include_str!("../../corpus/witness/Old.sol");
pub const W_NEW: &str = include_str!("../../corpus/witness/New.sol");

pub fn abstract_patterns(cat: &str) -> [&'static str; 3] {
    match cat {
        "optimizations" => ["solidity_math", "increment_decrement", "optimal_comparison"],
        "vulnerabilities" => ["unsafe_erc20_operation", "divide_before_multiply", "floating_pragma"],
        _ => ["private_vars_leading_underscore", "constructor_order", "private_func_leading_underscore"],
    }
}

fn hostile(kind: usize) -> Vec<u8> {
    match kind % 5 {
        0 => b"contract Broken { function (".to_vec(),
        1 => vec![0u8, 159, 146, 150, 0, 255, 254, 10, 0],
        2 => b"\xff\xfe\x00garbage\x80\x81".to_vec(),
        3 => vec![],
        _ => b"pragma solidity ^0.4.0; contract T { function f() public { x++; selfdestruct(msg.sender); } ".to_vec(),
    }
}

pub fn name_flags(text: &str) -> Value {
    json!({"text": text, "sol": text.ends_with(".sol"), "tsol": text.to_lowercase().ends_with(".t.sol")})
}

/// A concrete tree: entries in DESIRED listing order.
#[derive(Clone, Debug)]
pub enum Node {
    File { name: String, content_id: String, bytes: Vec<u8> },
    Dir { name: String, entries: Vec<Node> },
}

/// Create `entries` under `dir` so that tmpfs lists them in the given order (it lists in reverse
/// creation order); other file systems list however they like -- the order is observed afterwards.
pub fn materialise(dir: &Path, entries: &[Node]) {
    for e in entries.iter().rev() {
        match e {
            Node::File { name, bytes, .. } => {
                fs::write(dir.join(name), bytes).expect("write file");
            }
            Node::Dir { name, entries } => {
                let d = dir.join(name);
                fs::create_dir(&d).expect("mkdir");
                materialise(&d, entries);
            }
        }
    }
}

/// The tree as TLC sees it, in OBSERVED listing order.
pub fn observe(dir: &Path, entries: &[Node]) -> Value {
    let mut by_name: BTreeMap<String, &Node> = BTreeMap::new();
    for e in entries {
        match e {
            Node::File { name, .. } | Node::Dir { name, .. } => {
                by_name.insert(name.clone(), e);
            }
        }
    }
    let mut out = vec![];
    if let Ok(rd) = fs::read_dir(dir) {
        for ent in rd.flatten() {
            let n = ent.file_name().to_string_lossy().to_string();
            match by_name.get(&n) {
                Some(Node::File { name, content_id, .. }) => out.push(json!({"kind": "file", "name": name_flags(name), "content": content_id})),
                Some(Node::Dir { name, entries }) => out.push(json!({"kind": "dir", "name": name_flags(name), "tree": observe(&dir.join(name), entries)})),
                None => {}
            }
        }
    }
    json!({"entries": out})
}

fn desired(entries: &[Node]) -> Value {
    let v: Vec<Value> = entries
        .iter()
        .map(|e| match e {
            Node::File { name, content_id, .. } => json!({"kind": "file", "name": name_flags(name), "content": content_id}),
            Node::Dir { name, entries } => json!({"kind": "dir", "name": name_flags(name), "tree": desired(entries)}),
        })
        .collect();
    json!({"entries": v})
}

pub fn prune(entries: &[Node]) -> Vec<Node> {
    entries
        .iter()
        .filter_map(|e| match e {
            Node::File { name, .. } => {
                if name.ends_with(".sol") && !name.to_lowercase().ends_with(".t.sol") {
                    Some(e.clone())
                } else {
                    None
                }
            }
            Node::Dir { name, entries } => Some(Node::Dir { name: name.clone(), entries: prune(entries) }),
        })
        .collect()
}

/// Real analyze_dir of one category on `dir`; the result as JSON {pattern: [[file, [lines]], ...]}.
pub fn real_analyze_dir(cat: &str, dir: &Path, pats: &[String]) -> Result<Value, String> {
    let d = dir.to_string_lossy().to_string();
    let dets: Vec<Det> = pats.iter().filter_map(|p| by_name(p)).collect();
    let cat = cat.to_string();
    guarded(move || {
        let mut m = serde_json::Map::new();
        match cat.as_str() {
            "optimizations" => {
                let sel = dets.iter().filter_map(|d| if let Det::Opt(o) = d { Some(*o) } else { None }).collect();
                for (k, v) in optimizations::analyze_dir(&d, sel) {
                    m.insert(Det::Opt(k).name(), json!(v.iter().map(|(f, l)| json!([f, l])).collect::<Vec<_>>()));
                }
            }
            "vulnerabilities" => {
                let sel = dets.iter().filter_map(|d| if let Det::Vul(o) = d { Some(*o) } else { None }).collect();
                for (k, v) in vulnerabilities::analyze_dir(&d, sel) {
                    m.insert(Det::Vul(k).name(), json!(v.iter().map(|(f, l)| json!([f, l])).collect::<Vec<_>>()));
                }
            }
            _ => {
                let sel = dets.iter().filter_map(|d| if let Det::Qa(o) = d { Some(*o) } else { None }).collect();
                for (k, v) in qa::analyze_dir(&d, sel) {
                    m.insert(Det::Qa(k).name(), json!(v.iter().map(|(f, l)| json!([f, l])).collect::<Vec<_>>()));
                }
            }
        }
        Value::Object(m)
    })
}

/// Per-file results of the same build: content id -> pattern -> lines (None if some detector panics).
pub fn measure(contents: &BTreeMap<String, String>, pats: &[String]) -> Option<Value> {
    let mut res = serde_json::Map::new();
    for (cid, text) in contents {
        let mut m = serde_json::Map::new();
        for p in pats {
            let d = by_name(p)?;
            match d.run(text) {
                Ok(lines) => {
                    m.insert(p.clone(), json!(lines));
                }
                Err(_) => return None,
            }
        }
        res.insert(cid.clone(), Value::Object(m));
    }
    Some(Value::Object(res))
}

fn build(v: &Value, contents: &BTreeMap<String, String>, salt: &mut usize) -> Vec<Node> {
    let mut out = vec![];
    for e in v["entries"].as_array().cloned().unwrap_or_default() {
        let name = e["name"]["text"].as_str().unwrap_or("x").to_string();
        if e["kind"] == "dir" {
            out.push(Node::Dir { name, entries: build(&e["tree"], contents, salt) });
        } else {
            let cid = e["content"].as_str().unwrap_or("c3").to_string();
            let eligible = name.ends_with(".sol") && !name.to_lowercase().ends_with(".t.sol");
            *salt += 1;
            // ineligible files get hostile bytes: they must never be read
            let (cid, bytes) = if eligible { (cid.clone(), contents[&cid].as_bytes().to_vec()) } else { (format!("hostile{}", *salt % 5), hostile(*salt)) };
            out.push(Node::File { name, content_id: cid, bytes });
        }
    }
    out
}

fn count_files(entries: &[Node]) -> (usize, usize) {
    let mut f = 0;
    let mut d = 0;
    for e in entries {
        match e {
            Node::File { .. } => f += 1,
            Node::Dir { entries, .. } => {
                d += 1;
                let (a, b) = count_files(entries);
                f += a;
                d += b;
            }
        }
    }
    (f, d)
}

pub struct Runner {
    pub scratch: PathBuf,
    pub counter: usize,
}

impl Runner {
    /// Materialise, run, record. `with_pruned`: additionally run on a copy without the ineligible files (C16).
    pub fn run(&mut self, cat: &str, pats: &[String], entries: &[Node], res: &Value, with_pruned: bool, tag: &str,
               trace: &mut NdjsonWriter, out: &mut Outcome) {
        self.counter += 1;
        let root = self.scratch.join(format!("t{}", self.counter));
        let _ = fs::remove_dir_all(&root);
        fs::create_dir_all(&root).expect("mkdir root");
        materialise(&root, entries);
        let observed = observe(&root, entries);
        let respected = observed == desired(entries);
        let result = real_analyze_dir(cat, &root, pats);
        let mut pruned_result = Value::Null;
        if with_pruned {
            let proot = self.scratch.join(format!("p{}", self.counter));
            let _ = fs::remove_dir_all(&proot);
            fs::create_dir_all(&proot).expect("mkdir");
            materialise(&proot, &prune(entries));
            pruned_result = match real_analyze_dir(cat, &proot, pats) {
                Ok(v) => v,
                Err(m) => json!({"panic": m}),
            };
            let _ = fs::remove_dir_all(&proot);
        }
        let _ = fs::remove_dir_all(&root);
        out.evaluations += 1;
        let (nf, nd) = count_files(entries);
        if nf >= 2 && nd >= 1 {
            out.nontrivial += 1;
        }
        match result {
            Ok(r) => {
                let mut rec = json!({"k": "walk", "tag": tag, "cat": cat, "pats": pats, "tree": observed, "res": res, "result": r,
                                     "order_respected": respected});
                if with_pruned {
                    rec["pruned_result"] = pruned_result;
                }
                trace.push(&rec);
                if self.counter % 1499 == 3 {
                    out.sample(rec);
                }
            }
            Err(m) => out.violate(
                &format!("dirwalk-panic:{}", cat),
                format!("analyze_dir ({}) panicked on a tree of {} files in {} sub-directories: {}", cat, nf, nd, m),
                json!({"cat": cat, "pats": pats, "tree": observed, "panic": m}),
            ),
        }
    }
}

fn base_contents() -> BTreeMap<String, String> {
    let mut m = BTreeMap::new();
    m.insert("c1".to_string(), C1.to_string());
    m.insert("c2".to_string(), C2.to_string());
    m.insert("c3".to_string(), C3.to_string());
    m.insert("c4".to_string(), C4.to_string());
    m.insert("c5".to_string(), C5.to_string());
    m.insert("c6".to_string(), C6.to_string());
    m
}

/// Replay TLC-generated trees (abstract patterns p1..p3 -> three real patterns of a rotating category).
pub fn replay(behaviours: &str, scratch: &str, with_pruned: bool, trace: &mut NdjsonWriter, out: &mut Outcome) {
    let contents = base_contents();
    let mut runner = Runner { scratch: PathBuf::from(scratch), counter: 0 };
    let cats = ["optimizations", "vulnerabilities", "qa"];
    let mut measured: BTreeMap<String, Value> = BTreeMap::new();
    let mut salt = 0usize;
    for (idx, rec) in read_ndjson(behaviours).iter().enumerate() {
        let cat = cats[idx % 3];
        let ap = abstract_patterns(cat);
        let pats: Vec<String> = as_strs(&rec["pats"])
            .iter()
            .map(|p| ap[(p.as_bytes()[1] - b'1') as usize].to_string())
            .collect();
        let key = format!("{}:{}", cat, pats.join(","));
        if !measured.contains_key(&key) {
            match measure(&contents, &pats) {
                Some(v) => {
                    measured.insert(key.clone(), v);
                }
                None => {
                    out.tool_error(format!("a detector panics on the base contents for {}", key));
                    return;
                }
            }
        }
        let entries = build(&rec["tree"], &contents, &mut salt);
        runner.run(cat, &pats, &entries, &measured[&key].clone(), with_pruned, "tlc", trace, out);
    }
}

/// Replay of one recorded directory case: the tree is materialised again (same names, same contents, same listing
/// order), the per-file results are measured again, the real analyze_dir runs again; the record goes to TV_DirWalk.
pub fn replay_case(case: &Value, corpus_dir: &str, scratch: &str, trace: &mut NdjsonWriter, out: &mut Outcome) {
    let rec = if case.get("trace_record").is_some() { &case["trace_record"] } else { case };
    let mut texts: BTreeMap<String, String> = base_contents();
    texts.insert("w_old".to_string(), W_OLD.to_string());
    texts.insert("w_new".to_string(), W_NEW.to_string());
    if let Ok(rd) = fs::read_dir(corpus_dir) {
        for e in rd.flatten() {
            if let Ok(t) = fs::read_to_string(e.path()) {
                texts.insert(e.file_name().to_string_lossy().to_string(), t);
            }
        }
    }
    // every eligible file must refer to a content we still have
    fn ids(v: &Value, acc: &mut Vec<String>) {
        for e in v["entries"].as_array().cloned().unwrap_or_default() {
            if e["kind"] == "dir" {
                ids(&e["tree"], acc);
            } else if let Some(c) = e["content"].as_str() {
                acc.push(c.to_string());
            }
        }
    }
    let mut used = vec![];
    ids(&rec["tree"], &mut used);
    let mut contents: BTreeMap<String, String> = BTreeMap::new();
    for c in used.iter().filter(|c| !c.starts_with("hostile")) {
        match texts.get(c) {
            Some(t) => {
                contents.insert(c.clone(), t.clone());
            }
            None => {
                out.tool_error(format!("replay: content {} of the recorded tree is no longer available", c));
                return;
            }
        }
    }
    let pats = as_strs(&rec["pats"]);
    let cat = rec["cat"].as_str().unwrap_or("optimizations").to_string();
    let res = match measure(&contents, &pats) {
        Some(v) => v,
        None => {
            out.violate("dirwalk-replay:file-panics", "a detector panics on a file of the recorded tree analysed alone".into(), case.clone());
            return;
        }
    };
    let mut salt = 0usize;
    // ineligible names keep hostile bytes; eligible ones their recorded content
    let mut all = contents.clone();
    for c in used.iter().filter(|c| c.starts_with("hostile")) {
        all.insert(c.clone(), String::new());
    }
    let entries = build(&rec["tree"], &all, &mut salt);
    let mut runner = Runner { scratch: PathBuf::from(scratch), counter: 900000 };
    runner.run(&cat, &pats, &entries, &res, rec.get("pruned_result").is_some(), "replay", trace, out);
}

const C16_NAMES: [&str; 42] = [
    // long names with a multi-byte character at byte 46 .. 48 and further on (whatever a tool cuts names to)
    "aaaaaaaaaaaaaaaaaaaaaaaaaaaaaaaaaaaaaaaaaaaaaaa\u{e9}.txt", "bbbbbbbbbbbbbbbbbbbbbbbbbbbbbbbbbbbbbbbbbbbbbb\u{8a9e}.sol", "ccccccccccccccccccccccccccccccccccccccccccccc\u{1f600}.json", "dddddddddddddddddddddddddddddddddddddddddddddddddddddddddddddddddddddddddddddddddddddddddddddddddddd\u{e9}\u{e9}\u{e9}.t.sol", "\u{8a9e}\u{8a9e}\u{8a9e}\u{8a9e}\u{8a9e}\u{8a9e}\u{8a9e}\u{8a9e}\u{8a9e}\u{8a9e}\u{8a9e}\u{8a9e}\u{8a9e}\u{8a9e}\u{8a9e}\u{8a9e}\u{8a9e}.sol",
    "\u{5408}\u{7ea6}.sol",
    // eligible names that merely look special (a forge script, a mock, a name with several dots), configuration files
    "Deploy.s.sol", "Mock.m.sol", "v1.2.3.sol", "Test.sol", "test.sol", "Solstat.toml", ".gitignore", "solstat_report.md.old",
    "na\u{ef}ve.md", "\u{65e5}\u{672c}\u{8a9e}.txt", "caf\u{e9}s.txt", "X\u{e9}a.sol", "\u{8a9e}.sol", "\u{e9}t\u{e9}.t.sol",
    "A.sol", "a.SOL", "A.Sol", "A.sol.txt", "A.solx", ".sol", "sol", "A.t.sol", "A.T.SOL", "A.T.sol", "A.t.Sol", "t.sol", "At.sol",
    "A.tsol", "A.sol~", "A sol", "\u{c4}.sol", "README.md", "A.json", "B.sol", "Mock.t.sol", "x.T.Sol",
];
const DIR_NAMES: [&str; 12] = ["src", "lib.sol", "test.t.sol", "deep", ".hidden", "a b", "na\u{ef}ve", "Mocks.T.SOL", "script", "v0.8", "out", "node_modules"];

fn random_tree(rng: &mut Rng, depth: usize, budget: &mut usize, contents: &Vec<String>, c16: bool) -> Vec<Node> {
    let mut names: Vec<&str> = C16_NAMES.to_vec();
    rng.shuffle(&mut names);
    let n = 1 + rng.below(5);
    let mut out = vec![];
    let mut salt = rng.below(1000);
    for name in names.into_iter().take(n) {
        if *budget == 0 {
            break;
        }
        *budget -= 1;
        let eligible = name.ends_with(".sol") && !name.to_lowercase().ends_with(".t.sol");
        if !eligible && !c16 && rng.chance(2, 3) {
            continue;
        }
        salt += 1;
        if eligible {
            let cid = contents[rng.below(contents.len())].clone();
            out.push(Node::File { name: name.to_string(), content_id: cid, bytes: vec![] });
        } else {
            out.push(Node::File { name: name.to_string(), content_id: format!("hostile{}", salt % 5), bytes: hostile(salt) });
        }
    }
    if depth > 0 {
        let mut dn: Vec<&str> = DIR_NAMES.to_vec();
        rng.shuffle(&mut dn);
        for name in dn.into_iter().take(rng.below(3)) {
            let sub = random_tree(rng, depth - 1, budget, contents, c16);
            out.push(Node::Dir { name: name.to_string(), entries: sub });
        }
    }
    rng.shuffle(&mut out);
    out
}

fn fill_bytes(entries: &mut Vec<Node>, texts: &BTreeMap<String, String>) {
    for e in entries.iter_mut() {
        match e {
            Node::File { content_id, bytes, .. } => {
                if let Some(t) = texts.get(content_id) {
                    *bytes = t.as_bytes().to_vec();
                }
            }
            Node::Dir { entries, .. } => fill_bytes(entries, texts),
        }
    }
}

/// Random trees over corpus contents with all patterns of a category selected in random order.
pub fn random(corpus_dir: &str, scratch: &str, count: usize, c16: bool, trace: &mut NdjsonWriter, out: &mut Outcome) {
    let mut rng = Rng::from_env(if c16 { 16 } else { 3 });
    let mut texts: BTreeMap<String, String> = base_contents();
    texts.insert("w_old".to_string(), W_OLD.to_string());
    texts.insert("w_new".to_string(), W_NEW.to_string());
    let mut files: Vec<_> = fs::read_dir(corpus_dir).map(|rd| rd.filter_map(|e| e.ok()).map(|e| e.path()).collect()).unwrap_or_default();
    files.sort();
    for f in files {
        if let Ok(s) = fs::read_to_string(&f) {
            if parses(&s) {
                texts.insert(f.file_name().unwrap().to_string_lossy().to_string(), s);
            }
        }
    }
    let mut runner = Runner { scratch: PathBuf::from(scratch), counter: 100000 };
    let cats = ["optimizations", "vulnerabilities", "qa"];
    // per category: contents on which no detector of the category panics, and their results
    let mut usable: BTreeMap<&str, (Vec<String>, Vec<String>, Value)> = BTreeMap::new();
    for cat in cats {
        let pats: Vec<String> = all_detectors().iter().filter(|d| d.category() == cat).map(|d| d.name()).collect();
        let mut ok_ids = vec![];
        let mut res = serde_json::Map::new();
        for (cid, text) in texts.iter() {
            let mut one = BTreeMap::new();
            one.insert(cid.clone(), text.clone());
            if let Some(v) = measure(&one, &pats) {
                ok_ids.push(cid.clone());
                res.insert(cid.clone(), v[cid].clone());
            }
        }
        usable.insert(cat, (pats, ok_ids, Value::Object(res)));
    }
    // directed: every ordered pair of witness contents as siblings (flat, and the second one level down), with all
    // patterns of the category co-selected in both orders -- a verdict must not depend on the sibling, on its
    // position in the listing or on the co-selected patterns (C15 iii; also an instance of the union, C03)
    // "at every directory depth": an eligible file forty directories down, some on the way, one at the top
    for cat in cats {
        let (pats, ids, res) = &usable[cat];
        if !ids.iter().any(|i| i == "c1") || !ids.iter().any(|i| i == "c2") {
            continue;
        }
        let mut inner = vec![Node::File { name: "Bottom.sol".to_string(), content_id: "c1".to_string(), bytes: vec![] }];
        for level in (1..=40).rev() {
            let mut here = vec![Node::Dir { name: format!("d{}", level), entries: inner }];
            if level == 6 || level == 17 || level == 33 {
                here.push(Node::File { name: format!("Midway{}.sol", level), content_id: "c2".to_string(), bytes: vec![] });
            }
            inner = here;
        }
        let mut entries = inner;
        entries.push(Node::File { name: "Top.sol".to_string(), content_id: "c1".to_string(), bytes: vec![] });
        fill_bytes(&mut entries, &texts);
        let sel = pats.clone();
        let mut used = serde_json::Map::new();
        collect_ids(&entries, res, &sel, &mut used);
        runner.run(cat, &sel, &entries, &Value::Object(used), c16, "deep", trace, out);
    }
    let mut pair_no = 0usize;
    for cat in cats {
        let (pats, ids, res) = &usable[cat];
        let wit: Vec<&str> = ["w_old", "w_new", "c1", "c2", "c3", "c4", "c5", "c6", "h_try_shapes.sol", "d_blank.sol", "d_empty.sol", "d_wide0.sol", "d_wide1.sol"].into_iter().filter(|w| ids.iter().any(|i| i == w)).collect();
        for x in wit.iter() {
            for y in wit.iter() {
                if x == y {
                    continue;
                }
                for nested in [false, true] {
                    for rev in [false, true] {
                        pair_no += 1;
                        let mut sel = pats.clone();
                        if rev {
                            sel.reverse();
                        }
                        let fy = Node::File { name: "B.sol".to_string(), content_id: y.to_string(), bytes: vec![] };
                        let mut entries = vec![
                            Node::File { name: "A.sol".to_string(), content_id: x.to_string(), bytes: vec![] },
                            // (a directory is a directory whatever it is called: like a source, like a test file, hidden)
                            if nested { Node::Dir { name: ["sub", "lib.sol", "mocks.t.sol", ".hidden", "Fuzz.T.Sol"][pair_no % 5].to_string(), entries: vec![fy] } } else { fy },
                        ];
                        fill_bytes(&mut entries, &texts);
                        let mut used = serde_json::Map::new();
                        collect_ids(&entries, res, &sel, &mut used);
                        runner.run(cat, &sel, &entries, &Value::Object(used), c16, "pairs", trace, out);
                    }
                }
            }
        }
    }
    for i in 0..count {
        let cat = cats[i % 3];
        let (pats, ids, res) = &usable[cat];
        if ids.is_empty() {
            continue;
        }
        let mut sel = pats.clone();
        rng.shuffle(&mut sel);
        let keep = 1 + rng.below(sel.len());
        sel.truncate(keep);
        let mut budget = 25;
        let mut entries = random_tree(&mut rng, 3, &mut budget, ids, c16);
        fill_bytes(&mut entries, &texts);
        // only the results of the contents used, to keep records small
        let mut used = serde_json::Map::new();
        collect_ids(&entries, res, &sel, &mut used);
        runner.run(cat, &sel, &entries, &Value::Object(used), c16, "random", trace, out);
    }
}

fn collect_ids(entries: &[Node], res: &Value, sel: &[String], used: &mut serde_json::Map<String, Value>) {
    for e in entries {
        match e {
            Node::File { content_id, .. } => {
                if let Some(r) = res.get(content_id) {
                    let mut m = serde_json::Map::new();
                    for p in sel {
                        m.insert(p.clone(), r[p].clone());
                    }
                    used.insert(content_id.clone(), Value::Object(m));
                }
            }
            Node::Dir { entries, .. } => collect_ids(entries, res, sel, used),
        }
    }
}
