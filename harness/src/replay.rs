//! bin/check <ID> --replay <file>: re-execute one recorded case against the real code.
use crate::common::*;
use crate::detectors::by_name;
use serde_json::{json, Value};

/// Cases that carry a source text: produce fresh trace records for the property's trace specification.
pub fn source(pid: &str, src: &str, trace: &mut NdjsonWriter, out: &mut Outcome) {
    match pid {
        "C01" => {
            let mut rng = Rng::new(1);
            crate::walk::record_program("replay", src, true, &mut rng, trace, out);
        }
        "C04" => {
            // all detectors, this build
            let mut m = vec![];
            for d in crate::detectors::all() {
                if let Err(e) = d.run(src) {
                    m.push(json!({"d": d.name(), "why": format!("panic:{}", e.chars().take(60).collect::<String>())}));
                }
            }
            let n = 30 - m.len();
            trace.push(&json!({"k": "total", "build": "replay", "src": "replay", "bad": m, "detectors": n}));
            out.evaluations += 1;
        }
        "C19" => {
            crate::compose::record_program("replay", src, trace, out);
        }
        _ => {
            crate::detect::record_program("replay", src, None, trace, out);
        }
    }
}

/// Cases that record a direct call with its expected result.
pub fn call(case: &Value, out: &mut Outcome) {
    out.evaluations += 1;
    match case["call"].as_str().unwrap_or("") {
        "storage_slots_used" => {
            let sizes: Vec<u16> = as_i64s(&case["sizes"]).iter().map(|x| *x as u16).collect();
            let expect = case["expected"].as_i64().unwrap_or(-1);
            let s2 = sizes.clone();
            match guarded(move || solstat::analyzer::utils::storage_slots_used(s2)) {
                Ok(got) if got as i64 == expect => {}
                Ok(got) => out.violate("slots-count", format!("storage_slots_used({:?}) = {} expected {}", sizes, got, expect), case.clone()),
                Err(m) => out.violate("slots-panic", m, case.clone()),
            }
        }
        "pack-same-name" => {
            let src = case["source"].as_str().unwrap_or("");
            let ls = as_i64s(&case["lines"]);
            let (l1, l2) = (ls[0] as i32, ls[1] as i32);
            let verdict = case["verdict"].as_str().unwrap_or("free");
            match by_name("pack_struct_variables").map(|d| d.run(src)) {
                Some(Ok(lines)) => {
                    let stray = lines.iter().any(|l| *l != l1 && *l != l2);
                    let both = lines.contains(&l1) && lines.contains(&l2);
                    let none = !lines.contains(&l1) && !lines.contains(&l2);
                    if stray || (verdict == "must" && !both) || (verdict == "mustnot" && !none) || (!both && !none) {
                        out.violate("pack-same-name-structs", format!("reports {:?}", lines), case.clone());
                    }
                }
                Some(Err(m)) => out.violate("pack-panic", m, case.clone()),
                None => out.tool_error("replay: unknown detector".into()),
            }
        }
        "pack-verdict" => {
            // a packing detector on a rendered container: must / must not report the container's line, nothing else
            let (src, det) = (case["source"].as_str().unwrap_or(""), case["detector"].as_str().unwrap_or(""));
            let line = case["line"].as_i64().unwrap_or(-1) as i32;
            let verdict = case["verdict"].as_str().unwrap_or("free");
            match by_name(det).map(|d| d.run(src)) {
                Some(Ok(got)) => {
                    let reported = got.contains(&line);
                    let stray = got.iter().any(|l| *l != line);
                    if stray || (verdict == "must" && !reported) || (verdict == "mustnot" && reported) {
                        out.violate("pack-verdict", format!("{} reports {:?}; container on line {}, verdict {}", det, got, line, verdict), case.clone());
                    }
                }
                Some(Err(m)) => out.violate("pack-panic", m, case.clone()),
                None => out.tool_error("replay: unknown detector".into()),
            }
        }
        "get_line_number" => {
            let text = case["text"].as_str().unwrap_or("").to_string();
            let off = case["offset"].as_u64().unwrap_or(0) as usize;
            let expect = case["expected"].as_i64().unwrap_or(-1);
            let t2 = text.clone();
            match guarded(move || solstat::analyzer::utils::get_line_number(off, &t2)) {
                Ok(got) if got as i64 == expect => {}
                Ok(got) => out.violate("line-of", format!("get_line_number({}, {:?}) = {} expected {}", off, text, got, expect), case.clone()),
                Err(m) => out.violate("line-of:panic", m, case.clone()),
            }
        }
        _ => {
            // a detector on a source with the expected line set
            if let (Some(src), Some(det), Some(exp)) = (case["source"].as_str(), case["detector"].as_str(), case.get("expected")) {
                if let Some(d) = by_name(det) {
                    let want: std::collections::BTreeSet<i32> = as_i64s(exp).iter().map(|x| *x as i32).collect();
                    match d.run(src) {
                        Ok(got) if got == want => {}
                        Ok(got) => out.violate("detector-result", format!("{} reports {:?}, expected {:?}", det, got, want), case.clone()),
                        Err(m) => out.violate("detector-panic", m, case.clone()),
                    }
                    return;
                }
            }
            out.tool_error("replay: unknown kind of case".into());
        }
    }
}
