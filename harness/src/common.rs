//! Shared helpers: JSON I/O, result accumulation, panic capture.
use serde_json::{json, Value};
use std::collections::BTreeSet;
use std::fs;
use std::io::{BufRead, BufReader, Write};
use std::panic;
use std::sync::atomic::{AtomicBool, Ordering};

pub fn read_ndjson(path: &str) -> Vec<Value> {
    let f = fs::File::open(path).unwrap_or_else(|e| panic!("cannot open {}: {}", path, e));
    let mut out = vec![];
    for line in BufReader::new(f).lines() {
        let line = line.expect("read line");
        let t = line.trim();
        if t.is_empty() {
            continue;
        }
        // generated trees nest 64 frames deep (Gen!DeepTrees): lift serde_json's 128-level limit
        let mut de = serde_json::Deserializer::from_str(t);
        de.disable_recursion_limit();
        let v: Value = serde::Deserialize::deserialize(&mut de).unwrap_or_else(|e| panic!("bad json in {}: {}", path, e));
        out.push(v);
    }
    out
}

pub struct NdjsonWriter {
    f: Option<std::io::BufWriter<fs::File>>,
    pub count: usize,
}

impl NdjsonWriter {
    pub fn new(path: &str) -> Self {
        if path == "-" || path.is_empty() {
            return NdjsonWriter { f: None, count: 0 };
        }
        let f = fs::File::create(path).unwrap_or_else(|e| panic!("cannot create {}: {}", path, e));
        NdjsonWriter { f: Some(std::io::BufWriter::new(f)), count: 0 }
    }
    pub fn push(&mut self, v: &Value) {
        if let Some(f) = self.f.as_mut() {
            serde_json::to_writer(&mut *f, v).unwrap();
            f.write_all(b"\n").unwrap();
        }
        self.count += 1;
    }
    pub fn finish(&mut self) {
        if let Some(f) = self.f.as_mut() {
            f.flush().unwrap();
        }
    }
}

/// What one harness command reports back to bin/check (printed as one JSON document).
#[derive(Default)]
pub struct Outcome {
    pub evaluations: u64,
    pub nontrivial: u64,
    pub violations: Vec<Value>,
    pub samples: Vec<Value>,
    pub tool_errors: Vec<String>,
    pub extra: serde_json::Map<String, Value>,
    sigs: BTreeSet<String>,
    pub distinct: BTreeSet<String>,
}

impl Outcome {
    pub fn new() -> Self {
        Default::default()
    }
    /// Record a violation; at most 3 replays are kept per signature.
    pub fn violate(&mut self, sig: &str, desc: String, replay: Value) {
        let n = self.violations.iter().filter(|v| v["sig"] == sig).count();
        self.sigs.insert(sig.to_string());
        if n < 3 && self.violations.len() < 400 {
            self.violations.push(json!({"sig": sig, "desc": desc, "replay": replay}));
        }
    }
    pub fn sample(&mut self, v: Value) {
        if self.samples.len() < 4 {
            self.samples.push(v);
        }
    }
    pub fn tool_error(&mut self, s: String) {
        if self.tool_errors.len() < 20 {
            self.tool_errors.push(s);
        }
    }
    pub fn set(&mut self, k: &str, v: Value) {
        self.extra.insert(k.to_string(), v);
    }
    pub fn print(self) {
        let doc = json!({
            "evaluations": self.evaluations,
            "nontrivial": self.nontrivial,
            "violations": self.violations,
            "violation_signatures": self.sigs.iter().collect::<Vec<_>>(),
            "samples": self.samples,
            "tool_errors": self.tool_errors,
            "extra": Value::Object(self.extra),
        });
        println!("{}", doc);
    }
}

static QUIET: AtomicBool = AtomicBool::new(false);

/// Panics of the code under test are data (C04); keep stderr clean.
pub fn install_quiet_panic_hook() {
    if QUIET.swap(true, Ordering::SeqCst) {
        return;
    }
    if std::env::var_os("HARNESS_LOUD").is_some() {
        return;
    }
    // silent inside `guarded` (code under test), one line for a panic of the harness itself (a tool error)
    panic::set_hook(Box::new(|info| {
        if GUARD_DEPTH.with(|d| d.get()) == 0 {
            eprintln!("harness panic: {}", info);
        }
    }));
}

thread_local! {
    static GUARD_DEPTH: std::cell::Cell<u32> = std::cell::Cell::new(0);
}

/// Run `f`, returning Err(message) if it panics.
pub fn guarded<T, F: FnOnce() -> T + panic::UnwindSafe>(f: F) -> Result<T, String> {
    GUARD_DEPTH.with(|d| d.set(d.get() + 1));
    let r = panic::catch_unwind(f);
    GUARD_DEPTH.with(|d| d.set(d.get().saturating_sub(1)));
    match r {
        Ok(v) => Ok(v),
        Err(e) => {
            let msg = if let Some(s) = e.downcast_ref::<&str>() {
                s.to_string()
            } else if let Some(s) = e.downcast_ref::<String>() {
                s.clone()
            } else {
                "panic".to_string()
            };
            Err(msg)
        }
    }
}

pub fn as_i64s(v: &Value) -> Vec<i64> {
    v.as_array().map(|a| a.iter().map(|x| x.as_i64().unwrap_or(-1)).collect()).unwrap_or_default()
}

pub fn as_strs(v: &Value) -> Vec<String> {
    v.as_array()
        .map(|a| a.iter().map(|x| x.as_str().unwrap_or("").to_string()).collect())
        .unwrap_or_default()
}

/// Small deterministic PRNG (xorshift*), seeded from VERIF_SEED.
pub struct Rng(u64);
impl Rng {
    pub fn new(seed: u64) -> Self {
        Rng(seed.wrapping_mul(0x9E3779B97F4A7C15) ^ 0xD1B54A32D192ED03)
    }
    pub fn from_env(salt: u64) -> Self {
        let s: u64 = std::env::var("VERIF_SEED").ok().and_then(|s| s.parse().ok()).unwrap_or(1);
        Rng::new(s.wrapping_add(salt.wrapping_mul(0x100000001B3)))
    }
    pub fn next(&mut self) -> u64 {
        let mut x = self.0;
        x ^= x >> 12;
        x ^= x << 25;
        x ^= x >> 27;
        self.0 = x;
        x.wrapping_mul(0x2545F4914F6CDD1D)
    }
    pub fn below(&mut self, n: usize) -> usize {
        if n == 0 {
            0
        } else {
            (self.next() % (n as u64)) as usize
        }
    }
    pub fn chance(&mut self, num: u64, den: u64) -> bool {
        self.next() % den < num
    }
    pub fn shuffle<T>(&mut self, v: &mut Vec<T>) {
        for i in (1..v.len()).rev() {
            let j = self.below(i + 1);
            v.swap(i, j);
        }
    }
}
