mod c10;
mod common;
mod detectors;

use common::*;

fn usage() -> ! {
    eprintln!("usage: harness <command> [args]");
    std::process::exit(2)
}

fn main() {
    let args: Vec<String> = std::env::args().collect();
    if args.len() < 2 {
        usage();
    }
    install_quiet_panic_hook();
    let mut out = Outcome::new();
    let a = |i: usize| -> String { args.get(i).cloned().unwrap_or_else(|| usage()) };
    match args[1].as_str() {
        "c10-replay" => c10::replay(&a(2), &mut out),
        "c10-record" => {
            let mut w = NdjsonWriter::new(&a(3));
            c10::record(&a(2), &mut w, &mut out);
            w.finish();
        }
        _ => usage(),
    }
    out.print();
}
