mod c09;
mod c10;
mod calls;
mod common;
mod compose;
mod config;
mod detect;
mod detectors;
mod gen;
mod dirs;
mod layout;
mod project;
mod render;
mod replay;
mod report;
mod total;
mod walk;

use common::*;

fn usage() -> ! {
    eprintln!("usage: harness <command> [args]");
    std::process::exit(2)
}

fn main() {
    let args: Vec<String> = std::env::args().collect();
    if args.len() < 2 {
        usage();
    }
    install_quiet_panic_hook();
    let mut out = Outcome::new();
    let a = |i: usize| -> String { args.get(i).cloned().unwrap_or_else(|| usage()) };
    match args[1].as_str() {
        "c10-replay" => c10::replay(&a(2), &mut out),
        "c10-record" => {
            let mut w = NdjsonWriter::new(&a(3));
            c10::record(&a(2), &mut w, &mut out);
            w.finish();
        }
        "c09-replay" => c09::replay(&a(2), &mut out),
        "c09-record" => {
            let mut w = NdjsonWriter::new(&a(3));
            c09::record(&a(2), &mut w, &mut out);
            w.finish();
        }
        "scan-replay" => layout::replay_scan(&a(2), &mut out),
        "layout-record" => {
            // layout-record <corpus> <patterns.ndjson> <c02|c17> <per-program> <trace> <texts> <detect trace>
            let mut w = NdjsonWriter::new(&a(6));
            let mut t = NdjsonWriter::new(&a(7));
            let mut d = NdjsonWriter::new(&args.get(8).cloned().unwrap_or_else(|| "-".to_string()));
            layout::record(&a(2), &a(3), &a(4), a(5).parse().unwrap_or(8), &mut w, &mut t, &mut d, &mut out);
            w.finish();
            t.finish();
            d.finish();
        }
        "report-replay" => {
            // report-replay <behaviours> <k renderings> <random maps> <trace>
            let mut w = NdjsonWriter::new(&a(5));
            report::replay(&a(2), a(3).parse().unwrap_or(8), a(4).parse().unwrap_or(0), &mut w, &mut out);
            w.finish();
        }
        "dir-replay" => {
            // dir-replay <behaviours> <scratch> <with_pruned 0|1> <corpus> <random count> <trace>
            let mut w = NdjsonWriter::new(&a(7));
            let pruned = a(4) == "1";
            if a(2) != "-" {
                dirs::replay(&a(2), &a(3), pruned, &mut w, &mut out);
            }
            dirs::random(&a(5), &a(3), a(6).parse().unwrap_or(0), pruned, &mut w, &mut out);
            w.finish();
        }
        "c15-baseline" => calls::baseline(&a(2), a(3).parse().unwrap_or(12), &a(4), &mut out),
        "c15-run" => {
            // c15-run <schedules> <corpus> <max files> <baseline.json> <seq rounds> <trace>
            let mut w = NdjsonWriter::new(&a(7));
            calls::run(&a(2), &a(3), a(4).parse().unwrap_or(12), &a(5), a(6).parse().unwrap_or(1), &mut w, &mut out);
            w.finish();
        }
        "analyze" => {
            // analyze <file>: every detector on one file
            let text = std::fs::read_to_string(a(2)).expect("read");
            let mut m = serde_json::Map::new();
            for d in detectors::all() {
                m.insert(d.name(), match d.run(&text) {
                    Ok(s) => serde_json::json!(s),
                    Err(e) => serde_json::json!({"panic": e}),
                });
            }
            out.set("results", serde_json::Value::Object(m));
        }
        "names-check" => config::names_check(&a(2), &mut out),
        "report-parse-batch" => config::report_parse_batch(&a(2), &mut out),
        "report-parse" => config::report_parse(&a(2), &mut out),
        "project" => {
            let text = std::fs::read_to_string(a(2)).expect("read");
            match project::project_source(&text) {
                Some(t) => out.set("tree", t.to_json()),
                None => out.tool_error("does not parse".into()),
            }
        }
        "walk-record" => {
            // walk-record <corpus> <full 0|1> <trace>
            let mut w = NdjsonWriter::new(&a(4));
            walk::record(&a(2), a(3) == "1", &mut w, &mut out);
            w.finish();
        }
        "roundtrip" => {
            // roundtrip <file>: parse, project, render one token per line, parse again, project again, compare
            let text = std::fs::read_to_string(a(2)).expect("read");
            match project::project_source(&text) {
                Some(t) => {
                    let r = render::render(&t.to_nested(1));
                    let again = project::project_source(&r.text());
                    let same = again.as_ref().map(|u| u.to_nested(1) == t.to_nested(1)).unwrap_or(false);
                    out.set("roundtrip", serde_json::json!({"render_errors": r.errors, "reparsed": again.is_some(), "same": same, "tokens": r.tokens.len()}));
                    if !same {
                        out.set("text", serde_json::json!(r.text()));
                        if let Some(u) = again {
                            let (a, b) = (t.to_json(), u.to_json());
                            let (a, b) = (a.as_array().unwrap(), b.as_array().unwrap());
                            for i in 0..a.len().min(b.len()) {
                                if a[i] != b[i] {
                                    out.set("first_diff", serde_json::json!({"id": i + 1, "orig": a[i], "again": b[i]}));
                                    break;
                                }
                            }
                        }
                    }
                }
                None => out.tool_error("does not parse".into()),
            }
        }
        "gen-walk" => {
            let mut w = NdjsonWriter::new(&a(3));
            gen::walk(&a(2), args.get(4).map(|s| s != "0").unwrap_or(true), &mut w, &mut out);
            w.finish();
        }
        "detect-record" => {
            // detect-record <corpus|-> <behaviours|-> <trace> <texts>
            let mut w = NdjsonWriter::new(&a(4));
            let mut t = NdjsonWriter::new(&a(5));
            if a(3) != "-" {
                detect::record_generated(&a(3), &mut w, &mut t, &mut out);
            }
            if a(2) != "-" {
                detect::record_corpus(&a(2), &mut w, &mut t, &mut out);
            }
            w.finish();
            t.finish();
        }
        "total-run" => {
            // total-run <build tag> <corpus|-> <trace> <behaviour files...>
            let mut w = NdjsonWriter::new(&a(4));
            total::run(&a(2), &a(3), &args[5..].to_vec(), &mut w, &mut out);
            w.finish();
        }
        "compose-record" => {
            // compose-record <corpus|-> <behaviours|-> <random concatenations> <trace> <texts>
            let mut w = NdjsonWriter::new(&a(5));
            let mut t = NdjsonWriter::new(&a(6));
            compose::record(&a(2), &a(3), a(4).parse().unwrap_or(0), &mut w, &mut t, &mut out);
            w.finish();
            t.finish();
        }
        "replay-source" => {
            // replay-source <pid> <source file> <trace out>
            let text = std::fs::read_to_string(a(3)).expect("read");
            let mut w = NdjsonWriter::new(&a(4));
            replay::source(&a(2), &text, &mut w, &mut out);
            w.finish();
        }
        "replay-report" => {
            // replay-report <case.json> <k> <trace>
            let case: serde_json::Value = serde_json::from_str(&std::fs::read_to_string(a(2)).expect("read")).expect("json");
            let mut w = NdjsonWriter::new(&a(4));
            report::replay_case(&case, a(3).parse().unwrap_or(8), &mut w, &mut out);
            w.finish();
        }
        "replay-dir" => {
            // replay-dir <case.json> <corpus> <scratch> <trace>
            let case: serde_json::Value = serde_json::from_str(&std::fs::read_to_string(a(2)).expect("read")).expect("json");
            let mut w = NdjsonWriter::new(&a(5));
            dirs::replay_case(&case, &a(3), &a(4), &mut w, &mut out);
            w.finish();
        }
        "replay-layout" => {
            // replay-layout <case.json> <trace>
            let case: serde_json::Value = serde_json::from_str(&std::fs::read_to_string(a(2)).expect("read")).expect("json");
            let mut w = NdjsonWriter::new(&a(3));
            layout::replay_case(&case, &mut w, &mut out);
            w.finish();
        }
        "replay-call" => {
            let case: serde_json::Value = serde_json::from_str(&std::fs::read_to_string(a(2)).expect("read")).expect("json");
            replay::call(&case, &mut out);
        }
        _ => usage(),
    }
    out.print();
}
