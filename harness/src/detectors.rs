//! The 30 detectors of solstat behind one uniform interface.
use crate::common::guarded;
use solstat::analyzer::optimizations::{self, Optimization};
use solstat::analyzer::qa::{self, QualityAssurance};
use solstat::analyzer::vulnerabilities::{self, Vulnerability};
use std::collections::BTreeSet;

#[derive(Clone, Copy, Debug, PartialEq, Eq)]
pub enum Det {
    Opt(Optimization),
    Vul(Vulnerability),
    Qa(QualityAssurance),
}

fn snake(debug_name: &str) -> String {
    // Debug names of the enums -> documented snake_case names
    match debug_name {
        "ImmutableVarialbes" => return "immutable_variables".into(),
        "UnsafeERC20Operation" => return "unsafe_erc20_operation".into(),
        "SafeMathPre080" => return "safe_math_pre_080".into(),
        "SafeMathPost080" => return "safe_math_post_080".into(),
        "SolidityKeccak256" => return "solidity_keccak256".into(),
        _ => {}
    }
    let mut out = String::new();
    for (i, c) in debug_name.chars().enumerate() {
        if c.is_ascii_uppercase() {
            if i > 0 {
                out.push('_');
            }
            out.push(c.to_ascii_lowercase());
        } else {
            out.push(c);
        }
    }
    out
}

impl Det {
    pub fn name(&self) -> String {
        match self {
            Det::Opt(o) => snake(&format!("{:?}", o)),
            Det::Vul(v) => snake(&format!("{:?}", v)),
            Det::Qa(q) => snake(&format!("{:?}", q)),
        }
    }
    pub fn category(&self) -> &'static str {
        match self {
            Det::Opt(_) => "optimizations",
            Det::Vul(_) => "vulnerabilities",
            Det::Qa(_) => "qa",
        }
    }
    /// Run the real per-file entry point. Err = the analysis panicked.
    pub fn run(&self, src: &str) -> Result<BTreeSet<i32>, String> {
        self.run_as(src, 0)
    }
    /// The same with another file number (the position of the file in its directory: it only tags locations).
    pub fn run_as(&self, src: &str, file_number: usize) -> Result<BTreeSet<i32>, String> {
        let d = *self;
        let s = src.to_string();
        guarded(move || match d {
            Det::Opt(o) => optimizations::analyze_for_optimization(&s, file_number, o),
            Det::Vul(v) => vulnerabilities::analyze_for_vulnerability(&s, file_number, v),
            Det::Qa(q) => qa::analyze_for_qa(&s, file_number, q),
        })
    }
}

impl Det {
    /// The same program through the entry point a user runs: the text is written as the only file of a fresh
    /// directory and the category's real `analyze_dir` is asked for this one pattern.  Err = panicked / not listed once.
    pub fn run_via_dir(&self, src: &str) -> Result<BTreeSet<i32>, String> {
        // every pattern of the category is active in the run, as in a default run of the binary; the runs of the three
        // categories over one text are kept until another text comes (the detectors of a text are asked one after another)
        thread_local! {
            static LAST: std::cell::RefCell<Option<(String, std::collections::BTreeMap<String, Result<BTreeSet<i32>, String>>)>> = std::cell::RefCell::new(None);
        }
        let name = self.name();
        let hit = LAST.with(|l| match &*l.borrow() {
            Some((text, map)) if text == src => map.get(&name).cloned(),
            _ => None,
        });
        if let Some(r) = hit {
            return r;
        }
        let map = run_all_via_dir(src);
        let r = map.get(&name).cloned().unwrap_or_else(|| Err("pattern not run".to_string()));
        LAST.with(|l| *l.borrow_mut() = Some((src.to_string(), map)));
        r
    }
    pub fn run_entry(&self, src: &str, via_dir: bool) -> Result<BTreeSet<i32>, String> {
        if via_dir { self.run_via_dir(src) } else { self.run(src) }
    }
}

/// The text as the only file of a fresh directory, analysed by the three real `analyze_dir` with ALL patterns of the
/// category selected; per pattern the lines listed for that file (Err = that category's walk panicked).
pub fn run_all_via_dir(src: &str) -> std::collections::BTreeMap<String, Result<BTreeSet<i32>, String>> {
    run_all_via_dir_named(src, "Only.sol")
}

/// The same with the file called `file_name` (any name: what the analysis does with it is the subject).
pub fn run_all_via_dir_named(src: &str, file_name: &str) -> std::collections::BTreeMap<String, Result<BTreeSet<i32>, String>> {
    use std::sync::atomic::{AtomicUsize, Ordering};
    static N: AtomicUsize = AtomicUsize::new(0);
    let mut out = std::collections::BTreeMap::new();
    let base = std::env::var("VERIF_SCRATCH").map(std::path::PathBuf::from).unwrap_or_else(|_| std::env::temp_dir());
    let dir = base.join(format!("solstat-verif-entry-{}-{}", std::process::id(), N.fetch_add(1, Ordering::SeqCst)));
    let _ = std::fs::remove_dir_all(&dir);
    if std::fs::create_dir_all(&dir).is_err() || std::fs::write(dir.join(file_name), src).is_err() {
        for d in all() {
            out.insert(d.name(), Err("scratch directory".to_string()));
        }
        return out;
    }
    let path = dir.to_string_lossy().to_string();
    let collect = |v: Vec<(String, BTreeSet<i32>)>| -> BTreeSet<i32> {
        let mut lines = BTreeSet::new();
        for (_file, ls) in v {
            lines.extend(ls);
        }
        lines
    };
    let (p1, p2, p3) = (path.clone(), path.clone(), path.clone());
    let opts = optimizations::get_all_optimizations();
    match guarded(move || optimizations::analyze_dir(&p1, optimizations::get_all_optimizations())) {
        Ok(m) => {
            for o in opts {
                out.insert(Det::Opt(o).name(), Ok(m.get(&o).cloned().map(&collect).unwrap_or_default()));
            }
        }
        Err(e) => {
            for o in opts {
                out.insert(Det::Opt(o).name(), Err(e.clone()));
            }
        }
    }
    let vuls = vulnerabilities::get_all_vulnerabilities();
    match guarded(move || vulnerabilities::analyze_dir(&p2, vulnerabilities::get_all_vulnerabilities())) {
        Ok(m) => {
            for o in vuls {
                out.insert(Det::Vul(o).name(), Ok(m.get(&o).cloned().map(&collect).unwrap_or_default()));
            }
        }
        Err(e) => {
            for o in vuls {
                out.insert(Det::Vul(o).name(), Err(e.clone()));
            }
        }
    }
    let qas = qa::get_all_qa();
    match guarded(move || qa::analyze_dir(&p3, qa::get_all_qa())) {
        Ok(m) => {
            for o in qas {
                out.insert(Det::Qa(o).name(), Ok(m.get(&o).cloned().map(&collect).unwrap_or_default()));
            }
        }
        Err(e) => {
            for o in qas {
                out.insert(Det::Qa(o).name(), Err(e.clone()));
            }
        }
    }
    let _ = std::fs::remove_dir_all(&dir);
    out
}

pub fn all() -> Vec<Det> {
    let mut v = vec![];
    for o in optimizations::get_all_optimizations() {
        v.push(Det::Opt(o));
    }
    for x in vulnerabilities::get_all_vulnerabilities() {
        v.push(Det::Vul(x));
    }
    for q in qa::get_all_qa() {
        v.push(Det::Qa(q));
    }
    v
}

pub fn by_name(name: &str) -> Option<Det> {
    all().into_iter().find(|d| d.name() == name)
}

pub fn parses(src: &str) -> bool {
    let s = src.to_string();
    matches!(guarded(move || solang_parser::parse(&s, 0).is_ok()), Ok(true))
}
