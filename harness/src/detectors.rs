//! The 30 detectors of solstat behind one uniform interface.
use crate::common::guarded;
use solstat::analyzer::optimizations::{self, Optimization};
use solstat::analyzer::qa::{self, QualityAssurance};
use solstat::analyzer::vulnerabilities::{self, Vulnerability};
use std::collections::BTreeSet;

#[derive(Clone, Copy, Debug, PartialEq, Eq)]
pub enum Det {
    Opt(Optimization),
    Vul(Vulnerability),
    Qa(QualityAssurance),
}

fn snake(debug_name: &str) -> String {
    // Debug names of the enums -> documented snake_case names
    match debug_name {
        "ImmutableVarialbes" => return "immutable_variables".into(),
        "UnsafeERC20Operation" => return "unsafe_erc20_operation".into(),
        "SafeMathPre080" => return "safe_math_pre_080".into(),
        "SafeMathPost080" => return "safe_math_post_080".into(),
        "SolidityKeccak256" => return "solidity_keccak256".into(),
        _ => {}
    }
    let mut out = String::new();
    for (i, c) in debug_name.chars().enumerate() {
        if c.is_ascii_uppercase() {
            if i > 0 {
                out.push('_');
            }
            out.push(c.to_ascii_lowercase());
        } else {
            out.push(c);
        }
    }
    out
}

impl Det {
    pub fn name(&self) -> String {
        match self {
            Det::Opt(o) => snake(&format!("{:?}", o)),
            Det::Vul(v) => snake(&format!("{:?}", v)),
            Det::Qa(q) => snake(&format!("{:?}", q)),
        }
    }
    pub fn category(&self) -> &'static str {
        match self {
            Det::Opt(_) => "optimizations",
            Det::Vul(_) => "vulnerabilities",
            Det::Qa(_) => "qa",
        }
    }
    /// Run the real per-file entry point. Err = the analysis panicked.
    pub fn run(&self, src: &str) -> Result<BTreeSet<i32>, String> {
        self.run_as(src, 0)
    }
    /// The same with another file number (the position of the file in its directory: it only tags locations).
    pub fn run_as(&self, src: &str, file_number: usize) -> Result<BTreeSet<i32>, String> {
        let d = *self;
        let s = src.to_string();
        guarded(move || match d {
            Det::Opt(o) => optimizations::analyze_for_optimization(&s, file_number, o),
            Det::Vul(v) => vulnerabilities::analyze_for_vulnerability(&s, file_number, v),
            Det::Qa(q) => qa::analyze_for_qa(&s, file_number, q),
        })
    }
}

impl Det {
    /// The same program through the entry point a user runs: the text is written as the only file of a fresh
    /// directory and the category's real `analyze_dir` is asked for this one pattern.  Err = panicked / not listed once.
    pub fn run_via_dir(&self, src: &str) -> Result<BTreeSet<i32>, String> {
        use std::sync::atomic::{AtomicUsize, Ordering};
        static N: AtomicUsize = AtomicUsize::new(0);
        let base = std::env::var("VERIF_SCRATCH").map(std::path::PathBuf::from).unwrap_or_else(|_| std::env::temp_dir());
        let dir = base.join(format!("solstat-verif-entry-{}-{}", std::process::id(), N.fetch_add(1, Ordering::SeqCst)));
        let _ = std::fs::remove_dir_all(&dir);
        std::fs::create_dir_all(&dir).map_err(|e| e.to_string())?;
        std::fs::write(dir.join("Only.sol"), src).map_err(|e| e.to_string())?;
        let d = *self;
        let path = dir.to_string_lossy().to_string();
        let res = guarded(move || {
            let found: Vec<(String, BTreeSet<i32>)> = match d {
                Det::Opt(o) => optimizations::analyze_dir(&path, vec![o]).into_iter().filter(|(k, _)| *k == o).flat_map(|(_, v)| v).collect(),
                Det::Vul(o) => vulnerabilities::analyze_dir(&path, vec![o]).into_iter().filter(|(k, _)| *k == o).flat_map(|(_, v)| v).collect(),
                Det::Qa(o) => qa::analyze_dir(&path, vec![o]).into_iter().filter(|(k, _)| *k == o).flat_map(|(_, v)| v).collect(),
            };
            let mut lines = BTreeSet::new();
            for (_file, ls) in found {
                lines.extend(ls);
            }
            lines
        });
        let _ = std::fs::remove_dir_all(&dir);
        res
    }
    pub fn run_entry(&self, src: &str, via_dir: bool) -> Result<BTreeSet<i32>, String> {
        if via_dir { self.run_via_dir(src) } else { self.run(src) }
    }
}

pub fn all() -> Vec<Det> {
    let mut v = vec![];
    for o in optimizations::get_all_optimizations() {
        v.push(Det::Opt(o));
    }
    for x in vulnerabilities::get_all_vulnerabilities() {
        v.push(Det::Vul(x));
    }
    for q in qa::get_all_qa() {
        v.push(Det::Qa(q));
    }
    v
}

pub fn by_name(name: &str) -> Option<Det> {
    all().into_iter().find(|d| d.name() == name)
}

pub fn parses(src: &str) -> bool {
    let s = src.to_string();
    matches!(guarded(move || solang_parser::parse(&s, 0).is_ok()), Ok(true))
}
