//! C05 - C08: running the real detectors on programs (corpus and TLC-generated) and recording
//! the projected tree with line numbers together with every detector's reported lines.
use crate::common::*;
use crate::detectors::all as all_detectors;
use crate::project::project_source;
use serde_json::{json, Value};

pub const PATTERN_DETECTORS: [&str; 30] = [
    "string_errors", "short_revert_string", "safe_math_pre_080", "safe_math_post_080", "pack_storage_variables", "pack_struct_variables",
    "address_balance", "address_zero", "bool_equals_bool", "assign_update_array_value", "cache_array_length",
    "increment_decrement", "multiple_require", "optimal_comparison", "shift_math", "solidity_keccak256", "solidity_math",
    "payable_function", "private_constant", "private_vars_leading_underscore", "private_func_leading_underscore", "constructor_order",
    "unsafe_erc20_operation", "divide_before_multiply", "floating_pragma", "unprotected_selfdestruct",
    "constant_variables", "immutable_variables", "memory_to_calldata", "sstore",
];

/// One record: {"k":"detect","src","tree":[...],"results":{detector:[lines]}}; detectors that panic are left out
/// (totality is C04's subject) and counted.
pub fn record_program(name: &str, src: &str, only: Option<&[String]>, trace: &mut NdjsonWriter, out: &mut Outcome) -> bool {
    let tree = match project_source(src) {
        Some(t) => t,
        None => return false,
    };
    let mut results = serde_json::Map::new();
    let mut panicked = vec![];
    // a third of the programs (chosen by their text, so that a replay takes the same way) are analysed through the
    // entry point a user runs -- analyze_dir on a directory holding the file -- the others through analyze_for_*
    let via_dir = src.bytes().fold(0xcbf29ce484222325u64, |h, b| (h ^ b as u64).wrapping_mul(0x100000001b3)) % 3 == 0;
    for d in all_detectors() {
        let n = d.name();
        if !PATTERN_DETECTORS.contains(&n.as_str()) {
            continue;
        }
        if let Some(sel) = only {
            if !sel.iter().any(|s| *s == n) {
                continue;
            }
        }
        match d.run_entry(src, via_dir) {
            Ok(lines) => {
                results.insert(n, json!(lines));
            }
            Err(_) => panicked.push(n),
        }
    }
    out.evaluations += 1;
    let mut rec = json!({"k": "detect", "src": name, "tree": tree.to_json_with_lines(src), "results": Value::Object(results), "panicked": panicked,
                         "entry": if via_dir { "dir" } else { "file" }});
    if name.starts_with("relayout:") {
        // re-laid-out texts are not kept elsewhere: a replay needs them
        rec["text"] = json!(src);
    }
    trace.push(&rec);
    true
}

pub fn record_corpus(corpus_dir: &str, trace: &mut NdjsonWriter, texts: &mut NdjsonWriter, out: &mut Outcome) {
    let mut files: Vec<_> = std::fs::read_dir(corpus_dir).map(|rd| rd.filter_map(|e| e.ok()).map(|e| e.path()).collect()).unwrap_or_default();
    files.sort();
    for f in files {
        if let Ok(src) = std::fs::read_to_string(&f) {
            let name = f.file_name().unwrap().to_string_lossy().to_string();
            if record_program(&name, &src, None, trace, out) {
                texts.push(&json!({"src": name, "text": src}));
            }
        }
    }
}

/// TLC-generated trees: {"tree": nested, "detectors": [names]}
pub fn record_generated(behaviours: &str, trace: &mut NdjsonWriter, texts: &mut NdjsonWriter, out: &mut Outcome) {
    let mut failed = 0;
    for (i, rec) in read_ndjson(behaviours).iter().enumerate() {
        match crate::gen::concretise(&rec["tree"]) {
            Ok(c) => {
                let only = as_strs(&rec["detectors"]);
                let name = format!("gen{}:{}", i, rec["label"].as_str().unwrap_or(""));
                if record_program(&name, &c.text, if only.is_empty() { None } else { Some(&only) }, trace, out) {
                    texts.push(&json!({"src": name, "text": c.text}));
                    if i % 211 == 0 {
                        out.sample(json!({"label": rec["label"], "text": c.text.replace('\n', " ")}));
                    }
                }
            }
            Err(m) => {
                failed += 1;
                out.tool_error(format!("generated tree {} ({}): {}", i, rec["label"], m));
            }
        }
    }
    out.set("generated_trees_failed", json!(failed));
}
