//! C14 (library level) -- the three name tables against the documented catalogue;
//! and parsing of a solstat_report.md for the binary-level drivers.
use crate::common::*;
use crate::report::Reader;
use serde_json::{json, Value};
use solstat::analyzer::optimizations::{get_all_optimizations, str_to_optimization};
use solstat::analyzer::qa::{get_all_qa, str_to_qa};
use solstat::analyzer::vulnerabilities::{get_all_vulnerabilities, str_to_vulnerability};
use std::collections::BTreeMap;

fn spellings(name: &str) -> Vec<String> {
    let mut title = String::new();
    let mut up = true;
    for c in name.chars() {
        if up {
            title.extend(c.to_uppercase());
        } else {
            title.push(c);
        }
        up = c == '_';
    }
    let mixed: String = name.chars().enumerate().map(|(i, c)| if i % 2 == 0 { c.to_ascii_uppercase() } else { c }).collect();
    vec![name.to_string(), name.to_uppercase(), title, mixed]
}

fn resolve(cat: &str, name: &str) -> Result<String, String> {
    let n = name.to_string();
    let c = cat.to_string();
    guarded(move || match c.as_str() {
        "optimizations" => format!("{:?}", str_to_optimization(&n)),
        "vulnerabilities" => format!("{:?}", str_to_vulnerability(&n)),
        _ => format!("{:?}", str_to_qa(&n)),
    })
}

pub fn names_check(catalogue_file: &str, out: &mut Outcome) {
    let cat: Value = serde_json::from_str(&std::fs::read_to_string(catalogue_file).expect("catalogue")).expect("json");
    let mut unresolved = vec![];
    let mut collisions = vec![];
    let mut missing = vec![];
    let mut accepted_unknown = vec![];
    for c in crate::report::CATS {
        let names = as_strs(&cat[c]);
        let mut image: BTreeMap<String, String> = BTreeMap::new();
        for n in names.iter() {
            for s in spellings(n) {
                out.evaluations += 1;
                match resolve(c, &s) {
                    Ok(p) => {
                        if let Some(prev) = image.get(&p) {
                            if prev != n {
                                collisions.push(json!([c, prev, n, p]));
                            }
                        } else {
                            image.insert(p, n.clone());
                        }
                    }
                    Err(_) => unresolved.push(json!([c, s])),
                }
            }
        }
        // near misses: strings that are NOT a documented name of this category in any casing must not select anything
        let lower: Vec<String> = names.iter().map(|n| n.to_lowercase()).collect();
        let mut near: Vec<String> = vec!["".into(), "*".into(), "all".into(), "_".into()];
        for n in names.iter() {
            let chars: Vec<char> = n.chars().collect();
            near.push(format!("{}s", n));
            near.push(format!("{}_", n));
            near.push(format!("_{}", n));
            near.push(format!("{}_v2", n));
            near.push(format!("{}{}", n, n));
            near.push(format!("{}S", n.to_uppercase()));
            near.push(chars[..chars.len() - 1].iter().collect());
            near.push(chars[1..].iter().collect());
            near.push(n.replace('_', "-"));
            near.push(n.replace('_', ""));
            near.push(n.replace('_', "__"));
            near.push(format!("{}x", chars[..chars.len() - 1].iter().collect::<String>()));
            near.push(format!("{}{}", chars[0], n));
            near.push(format!("{}.", n));
            near.push(format!("{}\u{0}", n));
            near.push(format!("{}\u{e9}", n));
        }
        for other in crate::report::CATS {
            if other != c {
                near.extend(as_strs(&cat[other]));
            }
        }
        for s in near {
            if lower.contains(&s.to_lowercase()) {
                continue;
            }
            out.evaluations += 1;
            if let Ok(p) = resolve(c, &s) {
                accepted_unknown.push(json!([c, s, p]));
            }
        }
        let defaults: Vec<String> = match c {
            "optimizations" => get_all_optimizations().iter().map(|o| format!("{:?}", o)).collect(),
            "vulnerabilities" => get_all_vulnerabilities().iter().map(|o| format!("{:?}", o)).collect(),
            _ => get_all_qa().iter().map(|o| format!("{:?}", o)).collect(),
        };
        for d in defaults {
            if !image.contains_key(&d) {
                missing.push(json!([c, d]));
            }
        }
    }
    out.nontrivial = out.evaluations;
    out.set("names_record", json!({"k": "names", "unresolved": unresolved, "collisions": collisions, "defaults_without_name": missing,
                                   "accepted_unknown": accepted_unknown}));
}

/// report-parse <file>: {"exists", "parts": {cat: items}, "garbage"}
pub fn report_parse(path: &str, out: &mut Outcome) {
    let reader = Reader::load(out);
    match std::fs::read_to_string(path) {
        Ok(text) => {
            let parts = reader.parse_file(&text);
            let garbage = parts.contains_key("?") || parts.values().any(|it| it.iter().any(|i| i["t"] == "Garbage"));
            out.set("parsed", json!({"exists": true, "parts": parts, "garbage": garbage, "bytes": text.len()}));
        }
        Err(_) => out.set("parsed", json!({"exists": false, "parts": {}, "garbage": false, "bytes": 0})),
    }
}

/// report-parse-batch <dir>: every *.md file of a directory
pub fn report_parse_batch(dir: &str, out: &mut Outcome) {
    let reader = Reader::load(out);
    let mut m = serde_json::Map::new();
    if let Ok(rd) = std::fs::read_dir(dir) {
        for e in rd.flatten() {
            let name = e.file_name().to_string_lossy().to_string();
            if !name.ends_with(".md") {
                continue;
            }
            if let Ok(text) = std::fs::read_to_string(e.path()) {
                let parts = reader.parse_file(&text);
                let garbage = parts.contains_key("?") || parts.values().any(|it| it.iter().any(|i| i["t"] == "Garbage"));
                m.insert(name, json!({"exists": true, "parts": parts, "garbage": garbage, "bytes": text.len()}));
                out.evaluations += 1;
            }
        }
    }
    out.set("parsed", Value::Object(m));
}
