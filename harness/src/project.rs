//! Binding 2 (DESIGN.md 3.4): concrete parse tree -> abstract tree.
//! Written independently of solstat's ast.rs, from solang-parser's pt.rs, with exhaustive
//! destructuring of every pt struct / enum (no `..`, no `_` arms on pt types), so the compiler
//! checks that no field of the parse tree is forgotten.
use serde_json::{json, Map, Value};
use solang_parser::pt::*;
use solstat::analyzer::ast::Node as SNode;

#[derive(Clone)]
pub enum Any {
    SU(SourceUnit),
    SUP(SourceUnitPart),
    CP(ContractPart),
    S(Statement),
    E(Expression),
}

impl Any {
    pub fn to_snode(&self) -> SNode {
        match self {
            Any::SU(x) => SNode::SourceUnit(x.clone()),
            Any::SUP(x) => SNode::SourceUnitPart(x.clone()),
            Any::CP(x) => SNode::ContractPart(x.clone()),
            Any::S(x) => SNode::Statement(x.clone()),
            Any::E(x) => SNode::Expression(x.clone()),
        }
    }
}

pub struct PNode {
    pub kind: String,
    pub attrs: Value,
    /// (slot label, child ids)
    pub slots: Vec<(String, Vec<usize>)>,
    pub par: usize, // 0 = none
    pub slot_in_parent: String,
    pub last: usize,
    pub start: usize,
    pub end: usize,
    pub concrete: Any,
}

pub struct Tree {
    pub nodes: Vec<PNode>, // index 0 = id 1
}

fn line_of(lfs: &[usize], off: usize) -> usize {
    // 1 + number of line feeds before byte `off`
    1 + lfs.partition_point(|p| *p < off)
}

/// every numeric attribute "xStart" gets a sibling "lnX" = its line
fn add_lines(v: &Value, lfs: &[usize]) -> Value {
    match v {
        Value::Array(a) => Value::Array(a.iter().map(|x| add_lines(x, lfs)).collect()),
        Value::Object(m) => {
            let mut out = Map::new();
            for (k, x) in m.iter() {
                out.insert(k.clone(), add_lines(x, lfs));
                if k.ends_with("Start") {
                    let base = &k[..k.len() - 5];
                    let mut key = String::from("ln");
                    key.extend(base.chars().take(1).flat_map(|c| c.to_uppercase()));
                    key.push_str(&base[base.chars().next().map(|c| c.len_utf8()).unwrap_or(0)..]);
                    out.insert(key, match x.as_u64() {
                        Some(off) => json!(line_of(lfs, off as usize)),
                        None => json!(0),
                    });
                }
            }
            Value::Object(out)
        }
        x => x.clone(),
    }
}

/// TLC's Json module cannot read null: absent names become "", absent counts -1
pub fn no_nulls(v: &Value) -> Value {
    match v {
        Value::Null => json!(""),
        Value::Array(a) => Value::Array(a.iter().map(no_nulls).collect()),
        Value::Object(m) => Value::Object(m.iter().map(|(k, x)| (k.clone(), no_nulls(x))).collect()),
        x => x.clone(),
    }
}

impl Tree {
    pub fn children(&self, id: usize) -> Vec<usize> {
        self.nodes[id - 1].slots.iter().flat_map(|s| s.1.iter().cloned()).collect()
    }
    /// flat tree with line numbers (`ln` per node, `ln*` per anchor) computed from the source text
    pub fn to_json_with_lines(&self, src: &str) -> Value {
        let lfs: Vec<usize> = src.bytes().enumerate().filter(|(_, b)| *b == b'\n').map(|(i, _)| i).collect();
        let mut v = self.to_json();
        if let Some(arr) = v.as_array_mut() {
            for (i, n) in arr.iter_mut().enumerate() {
                let ln = line_of(&lfs, self.nodes[i].start);
                let a = no_nulls(&add_lines(&self.nodes[i].attrs, &lfs));
                n["ln"] = json!(ln);
                n["a"] = a;
            }
        }
        v
    }
    pub fn to_json(&self) -> Value {
        let v: Vec<Value> = self
            .nodes
            .iter()
            .map(|n| {
                let ch: Vec<usize> = n.slots.iter().flat_map(|s| s.1.iter().cloned()).collect();
                let sl: Vec<Value> = n.slots.iter().map(|s| json!({"lab": s.0, "ch": s.1})).collect();
                json!({"k": n.kind, "ch": ch, "sl": sl, "par": n.par, "slot": n.slot_in_parent, "last": n.last, "a": no_nulls(&n.attrs)})
            })
            .collect();
        Value::Array(v)
    }
    /// Nested form {"k","a","c":[[child,...] per slot]} as the renderer consumes it.
    pub fn to_nested(&self, id: usize) -> Value {
        let n = &self.nodes[id - 1];
        let c: Vec<Value> = n.slots.iter().map(|s| Value::Array(s.1.iter().map(|c| self.to_nested(*c)).collect())).collect();
        json!({"k": n.kind, "a": n.attrs, "c": c})
    }
}

type Slots = Vec<(&'static str, Vec<Any>)>;

fn loc_of(l: &Loc) -> (usize, usize) {
    match l {
        Loc::File(_, a, b) => (*a, *b),
        Loc::Builtin | Loc::CommandLine | Loc::Implicit | Loc::Codegen => (0, 0),
    }
}

fn ident(i: &Identifier) -> String {
    let Identifier { loc: _, name } = i;
    name.clone()
}

fn path(p: &IdentifierPath) -> String {
    let IdentifierPath { loc: _, identifiers } = p;
    identifiers.iter().map(ident).collect::<Vec<_>>().join(".")
}

fn storage(s: &Option<StorageLocation>) -> &'static str {
    match s {
        None => "",
        Some(StorageLocation::Memory(_)) => "memory",
        Some(StorageLocation::Storage(_)) => "storage",
        Some(StorageLocation::Calldata(_)) => "calldata",
    }
}

fn visibility(v: &Visibility) -> &'static str {
    match v {
        Visibility::External(_) => "external",
        Visibility::Public(_) => "public",
        Visibility::Internal(_) => "internal",
        Visibility::Private(_) => "private",
    }
}

fn mutability(m: &Mutability) -> &'static str {
    match m {
        Mutability::Pure(_) => "pure",
        Mutability::View(_) => "view",
        Mutability::Constant(_) => "constant",
        Mutability::Payable(_) => "payable",
    }
}

fn string_lit(s: &StringLiteral) -> Value {
    let StringLiteral { loc: _, unicode, string } = s;
    json!({"unicode": unicode, "string": string, "bytes": string.len()})
}

/// parameter list -> (descriptor list, type expressions)
fn params(list: &ParameterList) -> (Vec<Value>, Vec<Any>) {
    let mut d = vec![];
    let mut tys = vec![];
    for (_loc, p) in list.iter() {
        match p {
            None => d.push(json!({"present": false})),
            Some(Parameter { loc: _, ty, storage: st, name }) => {
                let st_start = st.as_ref().map(|x| loc_of(&x.loc()).0);
                d.push(json!({"present": true, "storage": storage(st), "name": name.as_ref().map(ident), "storageStart": st_start}));
                tys.push(Any::E(ty.clone()));
            }
        }
    }
    (d, tys)
}

fn base(b: &Base) -> (Value, Vec<Any>) {
    let Base { loc: _, name, args } = b;
    let kids: Vec<Any> = args.as_ref().map(|a| a.iter().map(|e| Any::E(e.clone())).collect()).unwrap_or_default();
    (json!({"name": path(name), "args": args.as_ref().map(|a| a.len())}), kids)
}

fn fn_attributes(attrs: &[FunctionAttribute]) -> (Vec<Value>, Vec<Any>) {
    let mut d = vec![];
    let mut kids = vec![];
    for a in attrs {
        match a {
            FunctionAttribute::Mutability(m) => d.push(json!({"kind": "mutability", "value": mutability(m)})),
            FunctionAttribute::Visibility(v) => d.push(json!({"kind": "visibility", "value": visibility(v)})),
            FunctionAttribute::Virtual(_) => d.push(json!({"kind": "virtual"})),
            FunctionAttribute::Immutable(_) => d.push(json!({"kind": "immutable"})),
            FunctionAttribute::Override(_, list) => d.push(json!({"kind": "override", "list": list.iter().map(path).collect::<Vec<_>>()})),
            FunctionAttribute::BaseOrModifier(_, b) => {
                let (bd, bk) = base(b);
                d.push(json!({"kind": "modifier", "name": bd["name"], "args": bd["args"]}));
                kids.extend(bk);
            }
            FunctionAttribute::NameValue(_, id, e) => {
                d.push(json!({"kind": "namevalue", "name": ident(id)}));
                kids.push(Any::E(e.clone()));
            }
        }
    }
    (d, kids)
}

fn function_def(f: &FunctionDefinition) -> (Value, Slots, (usize, usize)) {
    let FunctionDefinition { loc, ty, name, name_loc: _, params: ps, attributes, return_not_returns: _, returns, body } = f;
    let fty = match ty {
        FunctionTy::Constructor => "constructor",
        FunctionTy::Function => "function",
        FunctionTy::Fallback => "fallback",
        FunctionTy::Receive => "receive",
        FunctionTy::Modifier => "modifier",
    };
    let (pd, ptys) = params(ps);
    let (ad, akids) = fn_attributes(attributes);
    let (rd, rtys) = params(returns);
    let vis: Vec<&Value> = ad.iter().filter(|a| a["kind"] == "visibility").collect();
    let muts: Vec<&Value> = ad.iter().filter(|a| a["kind"] == "mutability").collect();
    let mods: Vec<Value> = ad.iter().filter(|a| a["kind"] == "modifier").map(|a| a["name"].clone()).collect();
    let attrs = json!({
        "fty": fty, "name": name.as_ref().map(ident), "params": pd, "attributes": ad, "returns": rd, "hasBody": body.is_some(),
        "vis": vis.iter().map(|v| v["value"].clone()).collect::<Vec<_>>(),
        "mut": muts.iter().map(|v| v["value"].clone()).collect::<Vec<_>>(),
        "modifiers": mods,
        "nameUnderscore": name.as_ref().map(|n| n.name.starts_with('_')).unwrap_or(false),
        "nameStart": name.as_ref().map(|n| loc_of(&n.loc).0),
        "onlyModifier": attributes.iter().any(|a| match a {
            FunctionAttribute::BaseOrModifier(_, Base { loc: _, name, args: _ }) => name.identifiers.iter().any(|i| i.name.contains("only")),
            FunctionAttribute::Mutability(_) | FunctionAttribute::Visibility(_) | FunctionAttribute::Virtual(_)
            | FunctionAttribute::Immutable(_) | FunctionAttribute::Override(_, _) | FunctionAttribute::NameValue(_, _, _) => false,
        }),
    });
    let slots: Slots = vec![
        ("params", ptys),
        ("attrs", akids),
        ("returns", rtys),
        ("body", body.iter().map(|b| Any::S(b.clone())).collect()),
    ];
    (attrs, slots, loc_of(loc))
}

fn variable_def(v: &VariableDefinition) -> (Value, Slots, (usize, usize)) {
    let VariableDefinition { loc, ty, attrs, name, initializer } = v;
    let mut vis = vec![];
    let (mut constant, mut immutable, mut overrides) = (false, false, false);
    let mut order = vec![];
    for a in attrs {
        match a {
            VariableAttribute::Visibility(x) => {
                vis.push(visibility(x));
                order.push(visibility(x).to_string());
            }
            VariableAttribute::Constant(_) => {
                constant = true;
                order.push("constant".into());
            }
            VariableAttribute::Immutable(_) => {
                immutable = true;
                order.push("immutable".into());
            }
            VariableAttribute::Override(_, _list) => {
                overrides = true;
                order.push("override".into());
            }
        }
    }
    let attrs = json!({"name": ident(name), "vis": vis, "constant": constant, "immutable": immutable, "override": overrides, "vattrs": order,
                       "nameUnderscore": name.name.starts_with('_')});
    let slots: Slots = vec![("ty", vec![Any::E(ty.clone())]), ("init", initializer.iter().map(|e| Any::E(e.clone())).collect())];
    (attrs, slots, loc_of(loc))
}

fn struct_def(s: &StructDefinition) -> (Value, Slots, (usize, usize)) {
    let StructDefinition { loc, name, fields } = s;
    let mut d = vec![];
    let mut tys = vec![];
    for VariableDeclaration { loc: _, ty, storage: st, name } in fields.iter() {
        d.push(json!({"name": ident(name), "storage": storage(st)}));
        tys.push(Any::E(ty.clone()));
    }
    (json!({"name": ident(name), "fields": d}), vec![("fields", tys)], loc_of(loc))
}

fn event_def(e: &EventDefinition) -> (Value, Slots, (usize, usize)) {
    let EventDefinition { loc, name, fields, anonymous } = e;
    let mut d = vec![];
    let mut tys = vec![];
    for EventParameter { ty, loc: _, indexed, name } in fields.iter() {
        d.push(json!({"indexed": indexed, "name": name.as_ref().map(ident)}));
        tys.push(Any::E(ty.clone()));
    }
    (json!({"name": ident(name), "anonymous": anonymous, "fields": d}), vec![("fields", tys)], loc_of(loc))
}

fn error_def(e: &ErrorDefinition) -> (Value, Slots, (usize, usize)) {
    let ErrorDefinition { loc, name, fields } = e;
    let mut d = vec![];
    let mut tys = vec![];
    for ErrorParameter { ty, loc: _, name } in fields.iter() {
        d.push(json!({"name": name.as_ref().map(ident)}));
        tys.push(Any::E(ty.clone()));
    }
    (json!({"name": ident(name), "fields": d}), vec![("fields", tys)], loc_of(loc))
}

fn enum_def(e: &EnumDefinition) -> (Value, Slots, (usize, usize)) {
    let EnumDefinition { loc, name, values } = e;
    (json!({"name": ident(name), "values": values.iter().map(ident).collect::<Vec<_>>()}), vec![], loc_of(loc))
}

fn type_def(t: &TypeDefinition) -> (Value, Slots, (usize, usize)) {
    let TypeDefinition { loc, name, ty } = t;
    (json!({"name": ident(name)}), vec![("ty", vec![Any::E(ty.clone())])], loc_of(loc))
}

fn using_def(u: &Using) -> (Value, Slots, (usize, usize)) {
    let Using { loc, list, ty, global } = u;
    let (lib, funcs) = match list {
        UsingList::Library(p) => (Some(path(p)), vec![]),
        UsingList::Functions(v) => (None, v.iter().map(path).collect()),
    };
    let safemath = match list {
        UsingList::Library(p) => p.identifiers.iter().any(|i| i.name == "SafeMath"),
        UsingList::Functions(_) => false,
    };
    (
        json!({"library": lib, "functions": funcs, "global": global.as_ref().map(ident), "star": ty.is_none(), "safemath": safemath}),
        vec![("ty", ty.iter().map(|e| Any::E(e.clone())).collect())],
        loc_of(loc),
    )
}

fn named_args(v: &[NamedArgument]) -> (Vec<String>, Vec<Any>) {
    let mut names = vec![];
    let mut kids = vec![];
    for NamedArgument { loc: _, name, expr } in v.iter() {
        names.push(ident(name));
        kids.push(Any::E(expr.clone()));
    }
    (names, kids)
}

fn decimal_class(s: &str) -> Value {
    // value of a decimal literal if it fits u64, else "big"
    let digits: String = s.chars().filter(|c| *c != '_').collect();
    match digits.parse::<u64>() {
        Ok(v) => {
            let pow2 = v != 0 && (v & (v - 1)) == 0;
            json!({"fits": true, "value": if v < (1u64 << 31) { json!(v) } else { json!(-1) }, "pow2": pow2, "log2": if pow2 { v.trailing_zeros() } else { 0 }})
        }
        Err(_) => {
            // longer than 64 bits: exact all the same (halve the decimal digit string until it is odd)
            let mut ds: Vec<u8> = digits.bytes().filter(|b| b.is_ascii_digit()).map(|b| b - b'0').collect();
            while ds.len() > 1 && ds[0] == 0 {
                ds.remove(0);
            }
            let mut log2 = 0u32;
            let all_digits = !digits.is_empty() && digits.bytes().all(|b| b.is_ascii_digit());
            if all_digits {
                while ds.len() > 1 || ds[0] > 1 {
                    if ds[ds.len() - 1] % 2 == 1 {
                        break;
                    }
                    let mut carry = 0u8;
                    for d in ds.iter_mut() {
                        let cur = carry * 10 + *d;
                        *d = cur / 2;
                        carry = cur % 2;
                    }
                    while ds.len() > 1 && ds[0] == 0 {
                        ds.remove(0);
                    }
                    log2 += 1;
                }
            }
            let pow2 = all_digits && ds == vec![1];
            json!({"fits": false, "value": -1, "pow2": pow2, "log2": if pow2 { log2 } else { 0 }})
        }
    }
}

fn describe(n: &Any) -> (String, Value, Slots, (usize, usize)) {
    let e1 = |e: &Expression| vec![Any::E(e.clone())];
    let bx = |e: &Box<Expression>| vec![Any::E((**e).clone())];
    let ob = |e: &Option<Box<Expression>>| e.iter().map(|x| Any::E((**x).clone())).collect::<Vec<_>>();
    let bs = |s: &Box<Statement>| vec![Any::S((**s).clone())];
    let obs = |s: &Option<Box<Statement>>| s.iter().map(|x| Any::S((**x).clone())).collect::<Vec<_>>();
    match n {
        Any::SU(SourceUnit(parts)) => {
            let end = parts.iter().map(|p| loc_of(p.loc()).1).max().unwrap_or(0);
            ("SU.SourceUnit".into(), json!({}), vec![("parts", parts.iter().map(|p| Any::SUP(p.clone())).collect())], (0, end))
        }
        Any::SUP(p) => match p {
            SourceUnitPart::ContractDefinition(c) => {
                let ContractDefinition { loc, ty, name, base: bases, parts } = &**c;
                let cty = match ty {
                    ContractTy::Abstract(_) => "abstract",
                    ContractTy::Contract(_) => "contract",
                    ContractTy::Interface(_) => "interface",
                    ContractTy::Library(_) => "library",
                };
                let mut bd = vec![];
                let mut bk = vec![];
                for b in bases.iter() {
                    let (d, k) = base(b);
                    bd.push(d);
                    bk.extend(k);
                }
                (
                    "SUP.ContractDefinition".into(),
                    json!({"cty": cty, "name": ident(name), "bases": bd}),
                    vec![("baseargs", bk), ("parts", parts.iter().map(|p| Any::CP(p.clone())).collect())],
                    loc_of(loc),
                )
            }
            SourceUnitPart::PragmaDirective(loc, id, lit) => {
                let StringLiteral { loc: _, unicode: _, string } = lit;
                (
                    "SUP.PragmaDirective".into(),
                    json!({"pragmaId": ident(id), "value": string, "caret": string.contains('^'), "startsCaret": string.trim_start().starts_with('^')}),
                    vec![],
                    loc_of(loc),
                )
            }
            SourceUnitPart::ImportDirective(imp) => {
                let (what, l) = match imp {
                    Import::Plain(s, l) => (json!({"form": "plain", "path": string_lit(s)}), l),
                    Import::GlobalSymbol(s, id, l) => (json!({"form": "global", "path": string_lit(s), "as": ident(id)}), l),
                    Import::Rename(s, v, l) => (
                        json!({"form": "rename", "path": string_lit(s),
                               "names": v.iter().map(|(a, b)| json!([ident(a), b.as_ref().map(ident)])).collect::<Vec<_>>()}),
                        l,
                    ),
                };
                ("SUP.ImportDirective".into(), what, vec![], loc_of(l))
            }
            SourceUnitPart::EnumDefinition(e) => {
                let (a, s, l) = enum_def(e);
                ("SUP.EnumDefinition".into(), a, s, l)
            }
            SourceUnitPart::StructDefinition(x) => {
                let (a, s, l) = struct_def(x);
                ("SUP.StructDefinition".into(), a, s, l)
            }
            SourceUnitPart::EventDefinition(x) => {
                let (a, s, l) = event_def(x);
                ("SUP.EventDefinition".into(), a, s, l)
            }
            SourceUnitPart::ErrorDefinition(x) => {
                let (a, s, l) = error_def(x);
                ("SUP.ErrorDefinition".into(), a, s, l)
            }
            SourceUnitPart::FunctionDefinition(x) => {
                let (a, s, l) = function_def(x);
                ("SUP.FunctionDefinition".into(), a, s, l)
            }
            SourceUnitPart::VariableDefinition(x) => {
                let (a, s, l) = variable_def(x);
                ("SUP.VariableDefinition".into(), a, s, l)
            }
            SourceUnitPart::TypeDefinition(x) => {
                let (a, s, l) = type_def(x);
                ("SUP.TypeDefinition".into(), a, s, l)
            }
            SourceUnitPart::Using(x) => {
                let (a, s, l) = using_def(x);
                ("SUP.Using".into(), a, s, l)
            }
            SourceUnitPart::StraySemicolon(l) => ("SUP.StraySemicolon".into(), json!({}), vec![], loc_of(l)),
        },
        Any::CP(p) => match p {
            ContractPart::StructDefinition(x) => {
                let (a, s, l) = struct_def(x);
                ("CP.StructDefinition".into(), a, s, l)
            }
            ContractPart::EventDefinition(x) => {
                let (a, s, l) = event_def(x);
                ("CP.EventDefinition".into(), a, s, l)
            }
            ContractPart::EnumDefinition(x) => {
                let (a, s, l) = enum_def(x);
                ("CP.EnumDefinition".into(), a, s, l)
            }
            ContractPart::ErrorDefinition(x) => {
                let (a, s, l) = error_def(x);
                ("CP.ErrorDefinition".into(), a, s, l)
            }
            ContractPart::VariableDefinition(x) => {
                let (a, s, l) = variable_def(x);
                ("CP.VariableDefinition".into(), a, s, l)
            }
            ContractPart::FunctionDefinition(x) => {
                let (a, s, l) = function_def(x);
                ("CP.FunctionDefinition".into(), a, s, l)
            }
            ContractPart::TypeDefinition(x) => {
                let (a, s, l) = type_def(x);
                ("CP.TypeDefinition".into(), a, s, l)
            }
            ContractPart::StraySemicolon(l) => ("CP.StraySemicolon".into(), json!({}), vec![], loc_of(l)),
            ContractPart::Using(x) => {
                let (a, s, l) = using_def(x);
                ("CP.Using".into(), a, s, l)
            }
        },
        Any::S(s) => match s {
            Statement::Block { loc, unchecked, statements } => (
                "S.Block".into(),
                json!({"unchecked": unchecked}),
                vec![("stmts", statements.iter().map(|x| Any::S(x.clone())).collect())],
                loc_of(loc),
            ),
            Statement::Assembly { loc, dialect: _, flags: _, block: _ } => ("S.Assembly".into(), json!({}), vec![], loc_of(loc)),
            Statement::Args(loc, v) => {
                let (names, kids) = named_args(v);
                ("S.Args".into(), json!({"names": names}), vec![("args", kids)], loc_of(loc))
            }
            Statement::If(loc, c, t, e) => ("S.If".into(), json!({}), vec![("cond", e1(c)), ("then", bs(t)), ("else", obs(e))], loc_of(loc)),
            Statement::While(loc, c, b) => ("S.While".into(), json!({}), vec![("cond", e1(c)), ("body", bs(b))], loc_of(loc)),
            Statement::Expression(loc, e) => ("S.Expression".into(), json!({}), vec![("expr", e1(e))], loc_of(loc)),
            Statement::VariableDefinition(loc, VariableDeclaration { loc: _, ty, storage: st, name }, init) => (
                "S.VariableDefinition".into(),
                json!({"name": ident(name), "storage": storage(st)}),
                vec![("ty", e1(ty)), ("init", init.iter().map(|e| Any::E(e.clone())).collect())],
                loc_of(loc),
            ),
            Statement::For(loc, i, c, nx, b) => (
                "S.For".into(),
                json!({}),
                vec![("init", obs(i)), ("cond", ob(c)), ("next", obs(nx)), ("body", obs(b))],
                loc_of(loc),
            ),
            Statement::DoWhile(loc, b, c) => ("S.DoWhile".into(), json!({}), vec![("body", bs(b)), ("cond", e1(c))], loc_of(loc)),
            Statement::Continue(loc) => ("S.Continue".into(), json!({}), vec![], loc_of(loc)),
            Statement::Break(loc) => ("S.Break".into(), json!({}), vec![], loc_of(loc)),
            Statement::Return(loc, e) => ("S.Return".into(), json!({}), vec![("expr", e.iter().map(|x| Any::E(x.clone())).collect())], loc_of(loc)),
            Statement::Revert(loc, p, args) => (
                "S.Revert".into(),
                json!({"error": p.as_ref().map(path)}),
                vec![("args", args.iter().map(|x| Any::E(x.clone())).collect())],
                loc_of(loc),
            ),
            Statement::RevertNamedArgs(loc, p, v) => {
                let (names, kids) = named_args(v);
                ("S.RevertNamedArgs".into(), json!({"error": p.as_ref().map(path), "names": names}), vec![("args", kids)], loc_of(loc))
            }
            Statement::Emit(loc, e) => ("S.Emit".into(), json!({}), vec![("call", e1(e))], loc_of(loc)),
            Statement::Try(loc, e, ret, clauses) => {
                let (rd, rtys, rbody) = match ret {
                    Some((pl, b)) => {
                        let (d, t) = params(pl);
                        (Some(d), t, vec![Any::S((**b).clone())])
                    }
                    None => (None, vec![], vec![]),
                };
                let mut cd = vec![];
                let mut ck = vec![];
                for c in clauses.iter() {
                    match c {
                        CatchClause::Simple(_, p, body) => {
                            match p {
                                Some(Parameter { loc: _, ty, storage: st, name }) => {
                                    cd.push(json!({"kind": "simple", "param": {"present": true, "storage": storage(st), "name": name.as_ref().map(ident)}}));
                                    ck.push(Any::E(ty.clone()));
                                }
                                None => cd.push(json!({"kind": "simple", "param": {"present": false}})),
                            }
                            ck.push(Any::S(body.clone()));
                        }
                        CatchClause::Named(_, id, Parameter { loc: _, ty, storage: st, name }, body) => {
                            cd.push(json!({"kind": "named", "id": ident(id), "param": {"present": true, "storage": storage(st), "name": name.as_ref().map(ident)}}));
                            ck.push(Any::E(ty.clone()));
                            ck.push(Any::S(body.clone()));
                        }
                    }
                }
                (
                    "S.Try".into(),
                    json!({"hasReturns": rd.is_some(), "returns": rd.unwrap_or_default(), "catches": cd}),
                    vec![("expr", e1(e)), ("retparams", rtys), ("retbody", rbody), ("catch", ck)],
                    loc_of(loc),
                )
            }
        },
        Any::E(e) => {
            let bin = |k: &str, l: &Loc, a: &Box<Expression>, b: &Box<Expression>| -> (String, Value, Slots, (usize, usize)) {
                (format!("E.{}", k), json!({}), vec![("l", bx(a)), ("r", bx(b))], loc_of(l))
            };
            let un = |k: &str, l: &Loc, a: &Box<Expression>| -> (String, Value, Slots, (usize, usize)) {
                (format!("E.{}", k), json!({}), vec![("e", bx(a))], loc_of(l))
            };
            match e {
                Expression::PostIncrement(l, a) => un("PostIncrement", l, a),
                Expression::PostDecrement(l, a) => un("PostDecrement", l, a),
                Expression::New(l, a) => un("New", l, a),
                Expression::ArraySubscript(l, a, i) => ("E.ArraySubscript".into(), json!({}), vec![("base", bx(a)), ("index", ob(i))], loc_of(l)),
                Expression::ArraySlice(l, a, f, t) => (
                    "E.ArraySlice".into(),
                    json!({}),
                    vec![("base", bx(a)), ("from", ob(f)), ("to", ob(t))],
                    loc_of(l),
                ),
                Expression::Parenthesis(l, a) => un("Parenthesis", l, a),
                Expression::MemberAccess(l, a, id) => ("E.MemberAccess".into(), json!({"member": ident(id)}), vec![("base", bx(a))], loc_of(l)),
                Expression::FunctionCall(l, c, args) => (
                    "E.FunctionCall".into(),
                    json!({}),
                    vec![("callee", bx(c)), ("args", args.iter().map(|x| Any::E(x.clone())).collect())],
                    loc_of(l),
                ),
                Expression::FunctionCallBlock(l, c, b) => ("E.FunctionCallBlock".into(), json!({}), vec![("callee", bx(c)), ("block", bs(b))], loc_of(l)),
                Expression::NamedFunctionCall(l, c, v) => {
                    let (names, kids) = named_args(v);
                    ("E.NamedFunctionCall".into(), json!({"names": names}), vec![("callee", bx(c)), ("args", kids)], loc_of(l))
                }
                Expression::Not(l, a) => un("Not", l, a),
                Expression::Complement(l, a) => un("Complement", l, a),
                Expression::Delete(l, a) => un("Delete", l, a),
                Expression::PreIncrement(l, a) => un("PreIncrement", l, a),
                Expression::PreDecrement(l, a) => un("PreDecrement", l, a),
                Expression::UnaryPlus(l, a) => un("UnaryPlus", l, a),
                Expression::UnaryMinus(l, a) => un("UnaryMinus", l, a),
                Expression::Power(l, a, b) => bin("Power", l, a, b),
                Expression::Multiply(l, a, b) => bin("Multiply", l, a, b),
                Expression::Divide(l, a, b) => bin("Divide", l, a, b),
                Expression::Modulo(l, a, b) => bin("Modulo", l, a, b),
                Expression::Add(l, a, b) => bin("Add", l, a, b),
                Expression::Subtract(l, a, b) => bin("Subtract", l, a, b),
                Expression::ShiftLeft(l, a, b) => bin("ShiftLeft", l, a, b),
                Expression::ShiftRight(l, a, b) => bin("ShiftRight", l, a, b),
                Expression::BitwiseAnd(l, a, b) => bin("BitwiseAnd", l, a, b),
                Expression::BitwiseXor(l, a, b) => bin("BitwiseXor", l, a, b),
                Expression::BitwiseOr(l, a, b) => bin("BitwiseOr", l, a, b),
                Expression::Less(l, a, b) => bin("Less", l, a, b),
                Expression::More(l, a, b) => bin("More", l, a, b),
                Expression::LessEqual(l, a, b) => bin("LessEqual", l, a, b),
                Expression::MoreEqual(l, a, b) => bin("MoreEqual", l, a, b),
                Expression::Equal(l, a, b) => bin("Equal", l, a, b),
                Expression::NotEqual(l, a, b) => bin("NotEqual", l, a, b),
                Expression::And(l, a, b) => bin("And", l, a, b),
                Expression::Or(l, a, b) => bin("Or", l, a, b),
                Expression::Ternary(l, c, a, b) => ("E.Ternary".into(), json!({}), vec![("cond", bx(c)), ("then", bx(a)), ("else", bx(b))], loc_of(l)),
                Expression::Assign(l, a, b) => bin("Assign", l, a, b),
                Expression::AssignOr(l, a, b) => bin("AssignOr", l, a, b),
                Expression::AssignAnd(l, a, b) => bin("AssignAnd", l, a, b),
                Expression::AssignXor(l, a, b) => bin("AssignXor", l, a, b),
                Expression::AssignShiftLeft(l, a, b) => bin("AssignShiftLeft", l, a, b),
                Expression::AssignShiftRight(l, a, b) => bin("AssignShiftRight", l, a, b),
                Expression::AssignAdd(l, a, b) => bin("AssignAdd", l, a, b),
                Expression::AssignSubtract(l, a, b) => bin("AssignSubtract", l, a, b),
                Expression::AssignMultiply(l, a, b) => bin("AssignMultiply", l, a, b),
                Expression::AssignDivide(l, a, b) => bin("AssignDivide", l, a, b),
                Expression::AssignModulo(l, a, b) => bin("AssignModulo", l, a, b),
                Expression::BoolLiteral(l, v) => ("E.BoolLiteral".into(), json!({"value": v}), vec![], loc_of(l)),
                Expression::NumberLiteral(l, v, exp) => (
                    "E.NumberLiteral".into(),
                    json!({"value": v, "exp": exp, "num": decimal_class(v)}),
                    vec![],
                    loc_of(l),
                ),
                Expression::RationalNumberLiteral(l, i, f, exp) => (
                    "E.RationalNumberLiteral".into(),
                    json!({"int": i, "frac": f, "exp": exp}),
                    vec![],
                    loc_of(l),
                ),
                Expression::HexNumberLiteral(l, v) => {
                    // "zero": every digit after 0x is 0 (TLC does not compute on strings)
                    let zero = v.trim_start_matches("0x").trim_start_matches("0X").chars().all(|c| c == '0' || c == '_');
                    ("E.HexNumberLiteral".into(), json!({"value": v, "zero": zero}), vec![], loc_of(l))
                }
                Expression::StringLiteral(v) => {
                    let (a, _) = loc_of(&v[0].loc);
                    let (_, b) = loc_of(&v[v.len() - 1].loc);
                    ("E.StringLiteral".into(), json!({"pieces": v.iter().map(string_lit).collect::<Vec<_>>()}), vec![], (a, b))
                }
                Expression::Type(l, ty) => match ty {
                    Type::Address => ("E.Type".into(), json!({"ty": "address"}), vec![], loc_of(l)),
                    Type::AddressPayable => ("E.Type".into(), json!({"ty": "address payable"}), vec![], loc_of(l)),
                    Type::Payable => ("E.Type".into(), json!({"ty": "payable"}), vec![], loc_of(l)),
                    Type::Bool => ("E.Type".into(), json!({"ty": "bool"}), vec![], loc_of(l)),
                    Type::String => ("E.Type".into(), json!({"ty": "string"}), vec![], loc_of(l)),
                    Type::Int(n) => ("E.Type".into(), json!({"ty": "int", "n": n}), vec![], loc_of(l)),
                    Type::Uint(n) => ("E.Type".into(), json!({"ty": "uint", "n": n}), vec![], loc_of(l)),
                    Type::Bytes(n) => ("E.Type".into(), json!({"ty": "bytesN", "n": n}), vec![], loc_of(l)),
                    Type::Rational => ("E.Type".into(), json!({"ty": "rational"}), vec![], loc_of(l)),
                    Type::DynamicBytes => ("E.Type".into(), json!({"ty": "bytes"}), vec![], loc_of(l)),
                    Type::Mapping(_, k, v) => ("E.Type".into(), json!({"ty": "mapping"}), vec![("key", bx(k)), ("value", bx(v))], loc_of(l)),
                    Type::Function { params: ps, attributes, returns } => {
                        let (pd, ptys) = params(ps);
                        let (ad, akids) = fn_attributes(attributes);
                        let (rd, rtys, rad, rakids) = match returns {
                            Some((pl, ra)) => {
                                let (d, t) = params(pl);
                                let (x, y) = fn_attributes(ra);
                                (Some(d), t, x, y)
                            }
                            None => (None, vec![], vec![], vec![]),
                        };
                        (
                            "E.Type".into(),
                            json!({"ty": "function", "params": pd, "attributes": ad, "hasReturns": rd.is_some(), "returns": rd.unwrap_or_default(), "retattributes": rad}),
                            vec![("params", ptys), ("attrs", akids), ("returns", rtys), ("retattrs", rakids)],
                            loc_of(l),
                        )
                    }
                },
                Expression::HexLiteral(v) => {
                    let (a, _) = loc_of(&v[0].loc);
                    let (_, b) = loc_of(&v[v.len() - 1].loc);
                    let pieces: Vec<String> = v.iter().map(|HexLiteral { loc: _, hex }| hex.clone()).collect();
                    ("E.HexLiteral".into(), json!({"pieces": pieces}), vec![], (a, b))
                }
                Expression::AddressLiteral(l, v) => ("E.AddressLiteral".into(), json!({"value": v}), vec![], loc_of(l)),
                Expression::Variable(Identifier { loc, name }) => ("E.Variable".into(), json!({"name": name}), vec![], loc_of(loc)),
                Expression::List(l, pl) => {
                    let (d, tys) = params(pl);
                    ("E.List".into(), json!({"entries": d}), vec![("params", tys)], loc_of(l))
                }
                Expression::ArrayLiteral(l, v) => (
                    "E.ArrayLiteral".into(),
                    json!({}),
                    vec![("elems", v.iter().map(|x| Any::E(x.clone())).collect())],
                    loc_of(l),
                ),
                Expression::Unit(l, a, u) => {
                    let unit = match u {
                        Unit::Seconds(_) => "seconds",
                        Unit::Minutes(_) => "minutes",
                        Unit::Hours(_) => "hours",
                        Unit::Days(_) => "days",
                        Unit::Weeks(_) => "weeks",
                        Unit::Wei(_) => "wei",
                        Unit::Gwei(_) => "gwei",
                        Unit::Ether(_) => "ether",
                    };
                    ("E.Unit".into(), json!({"unit": unit}), vec![("e", bx(a))], loc_of(l))
                }
                Expression::This(l) => ("E.This".into(), json!({}), vec![], loc_of(l)),
            }
        }
    }
}

fn build(tree: &mut Tree, n: Any, par: usize, slot: &str) -> usize {
    let (kind, attrs, slots, (start, end)) = describe(&n);
    let id = tree.nodes.len() + 1;
    tree.nodes.push(PNode { kind, attrs, slots: vec![], par, slot_in_parent: slot.to_string(), last: id, start, end, concrete: n });
    let mut out = vec![];
    for (lab, kids) in slots {
        let mut ids = vec![];
        for k in kids {
            ids.push(build(tree, k, id, lab));
        }
        out.push((lab.to_string(), ids));
    }
    let last = tree.nodes.len();
    tree.nodes[id - 1].slots = out;
    tree.nodes[id - 1].last = last;
    id
}

pub fn project(su: &SourceUnit) -> Tree {
    let mut t = Tree { nodes: vec![] };
    build(&mut t, Any::SU(su.clone()), 0, "");
    t
}

pub fn project_source(src: &str) -> Option<Tree> {
    let s = src.to_string();
    crate::common::guarded(move || solang_parser::parse(&s, 0).ok().map(|(su, _)| project(&su))).ok().flatten()
}

#[allow(dead_code)]
pub fn attrs_map(v: &Value) -> Map<String, Value> {
    v.as_object().cloned().unwrap_or_default()
}
