//! C15 -- enforcing TLC-generated Begin/End schedules on real threads that call the real
//! per-file entry points, and sequential detector orders; baseline from a fresh process.
use crate::common::*;
use crate::detectors::{all as all_detectors, parses, Det};
use serde_json::{json, Value};
use std::collections::BTreeMap;
use std::sync::{Arc, Condvar, Mutex};

fn corpus_files(corpus_dir: &str, max: usize) -> Vec<(String, String)> {
    let mut v = vec![
        ("c1".to_string(), crate::dirs::C1.to_string()),
        ("c2".to_string(), crate::dirs::C2.to_string()),
        ("c3".to_string(), crate::dirs::C3.to_string()),
    ];
    let mut files: Vec<_> = std::fs::read_dir(corpus_dir).map(|rd| rd.filter_map(|e| e.ok()).map(|e| e.path()).collect()).unwrap_or_default();
    files.sort();
    // the hand-written files always, then a deterministic spread over the rest of the corpus
    let hand: Vec<_> = files.iter().filter(|f| f.file_name().map(|n| n.to_string_lossy().starts_with("h_")).unwrap_or(false)).cloned().collect();
    for f in hand.iter() {
        if let Ok(s) = std::fs::read_to_string(f) {
            if parses(&s) {
                v.push((f.file_name().unwrap().to_string_lossy().to_string(), s));
            }
        }
    }
    let max = max + hand.len();
    files.retain(|f| !hand.contains(f));
    let step = (files.len() / max.max(1)).max(1);
    for f in files.iter().step_by(step) {
        if v.len() >= max + 3 {
            break;
        }
        if let Ok(s) = std::fs::read_to_string(f) {
            if parses(&s) {
                v.push((f.file_name().unwrap().to_string_lossy().to_string(), s));
            }
        }
    }
    v
}

/// {file: {pattern: [lines] | null (the call panics)}}
pub fn baseline(corpus_dir: &str, max_files: usize, path: &str, out: &mut Outcome) {
    let mut m = serde_json::Map::new();
    // every file in a process of its own: whatever one analysis leaves behind in the process (tables, caches, counters)
    // cannot reach the baseline of another file
    let exe = std::env::current_exe().expect("current_exe");
    for (name, text) in corpus_files(corpus_dir, max_files) {
        let mut per = serde_json::Map::new();
        let path = std::path::Path::new(corpus_dir).join(&name);
        let child = std::process::Command::new(&exe).arg("analyze").arg(&path).output();
        let parsed: Option<Value> = child.ok().and_then(|o| serde_json::from_slice(&o.stdout).ok());
        let results = parsed.as_ref().map(|v| v["extra"]["results"].clone()).unwrap_or(Value::Null);
        for d in all_detectors() {
            let v = match results.get(d.name()) {
                Some(Value::Array(a)) => json!(a),
                Some(_) => json!("panic"),
                // (no child result at all: fall back to this process)
                None => match d.run(&text) {
                    Ok(s) => json!(s),
                    Err(_) => json!("panic"),
                },
            };
            per.insert(d.name(), v);
            out.evaluations += 1;
        }
        m.insert(name, Value::Object(per));
    }
    std::fs::write(path, serde_json::to_string(&Value::Object(m)).unwrap()).expect("write baseline");
}

struct Turn {
    pos: Mutex<usize>,
    cv: Condvar,
}

/// Run one schedule: `schedule[i] = (is_begin, thread)`; `queue[t]` = calls of thread t.
fn run_schedule(schedule: &[(bool, usize)], queues: &Vec<Vec<(String, String, Det)>>) -> (Vec<Value>, Vec<Value>) {
    let nthreads = queues.len();
    let turn = Arc::new(Turn { pos: Mutex::new(0), cv: Condvar::new() });
    let history = Arc::new(Mutex::new(Vec::<Value>::new()));
    let results = Arc::new(Mutex::new(Vec::<Value>::new()));
    let sched = Arc::new(schedule.to_vec());
    let mut handles = vec![];
    for t in 0..nthreads {
        let (turn, history, results, sched) = (turn.clone(), history.clone(), results.clone(), sched.clone());
        let calls = queues[t].clone();
        // my events in the schedule, in order
        let mine: Vec<usize> = sched.iter().enumerate().filter(|(_, e)| e.1 == t + 1).map(|(i, _)| i).collect();
        handles.push(std::thread::spawn(move || {
            let wait_for = |idx: usize, ev: &str| {
                let mut p = turn.pos.lock().unwrap();
                while *p != idx {
                    p = turn.cv.wait(p).unwrap();
                }
                history.lock().unwrap().push(json!([ev, t + 1]));
                *p += 1;
                turn.cv.notify_all();
            };
            for (k, (file, text, det)) in calls.iter().enumerate() {
                let (b, e) = (mine[2 * k], mine[2 * k + 1]);
                debug_assert!(sched[b].0 && !sched[e].0);
                wait_for(b, "B");
                let r = det.run(text); // the computation overlaps with whatever else is between B and E
                wait_for(e, "E");
                results.lock().unwrap().push(json!({"thread": t + 1, "seq": k + 1, "file": file, "pattern": det.name(),
                    "result": match r { Ok(s) => json!(s), Err(_) => json!("panic") }}));
            }
        }));
    }
    for h in handles {
        let _ = h.join();
    }
    let h = history.lock().unwrap().clone();
    let r = results.lock().unwrap().clone();
    (h, r)
}

pub fn run(schedules_file: &str, corpus_dir: &str, max_files: usize, baseline_file: &str, seq_rounds: usize, trace: &mut NdjsonWriter, out: &mut Outcome) {
    let base: Value = serde_json::from_str(&std::fs::read_to_string(baseline_file).expect("baseline")).expect("baseline json");
    let files = corpus_files(corpus_dir, max_files);
    let dets = all_detectors();
    // calls whose isolated baseline is a set (a panic is C04's subject)
    let mut pool: Vec<(String, String, Det)> = vec![];
    for (name, text) in files.iter() {
        for d in dets.iter() {
            if base[name][d.name()].is_array() {
                pool.push((name.clone(), text.clone(), *d));
            }
        }
    }
    if pool.len() < 10 {
        out.tool_error("too few usable (file, detector) pairs".into());
        return;
    }
    let mut rng = Rng::from_env(15);
    for (si, rec) in read_ndjson(schedules_file).iter().enumerate() {
        let nthreads = rec["threads"].as_u64().unwrap_or(1) as usize;
        let ncalls = rec["calls"].as_u64().unwrap_or(1) as usize;
        let schedule: Vec<(bool, usize)> = rec["schedule"].as_array().unwrap().iter().map(|e| (e[0] == "B", e[1].as_u64().unwrap() as usize)).collect();
        // threads share files and detectors in varying ways
        let anchor = rng.below(pool.len());
        let mut queues = vec![];
        for t in 0..nthreads {
            let mut q = vec![];
            for k in 0..ncalls {
                let pick = match (si + t + k) % 4 {
                    0 => pool[anchor].clone(),                                  // the very same call
                    1 => {
                        // same file, another detector
                        let f = &pool[anchor].0;
                        let same: Vec<&(String, String, Det)> = pool.iter().filter(|c| &c.0 == f).collect();
                        same[rng.below(same.len())].clone()
                    }
                    2 => {
                        // same detector, another file
                        let d = pool[anchor].2;
                        let same: Vec<&(String, String, Det)> = pool.iter().filter(|c| c.2 == d).collect();
                        same[rng.below(same.len())].clone()
                    }
                    _ => pool[rng.below(pool.len())].clone(),
                };
                q.push(pick);
            }
            queues.push(q);
        }
        let (history, results) = run_schedule(&schedule, &queues);
        out.evaluations += 1;
        if nthreads > 1 {
            out.nontrivial += 1;
        }
        let rec = json!({"k": "schedule", "threads": nthreads, "history": history, "calls": results});
        if si % 41 == 0 {
            out.sample(rec.clone());
        }
        trace.push(&rec);
    }
    // every thread deep inside a long chain at the same time: the first multi-thread schedules once more with all calls
    // on the deepest file of the set (whatever a walk keeps about its own depth is its own)
    if let Some((dname, dtext)) = files.iter().find(|(n, _)| n.contains("deep_chain")) {
        let heavy: Vec<Det> = dets.iter().cloned().filter(|d| base[dname][d.name()].as_array().map(|a| a.len() >= 1).unwrap_or(false)).collect();
        let mut done = 0;
        for rec in read_ndjson(schedules_file).iter() {
            let nthreads = rec["threads"].as_u64().unwrap_or(1) as usize;
            if nthreads < 2 || heavy.is_empty() {
                continue;
            }
            let ncalls = rec["calls"].as_u64().unwrap_or(1) as usize;
            let schedule: Vec<(bool, usize)> = rec["schedule"].as_array().unwrap().iter().map(|e| (e[0] == "B", e[1].as_u64().unwrap() as usize)).collect();
            let queues: Vec<Vec<(String, String, Det)>> = (0..nthreads)
                .map(|t| (0..ncalls).map(|k| (dname.clone(), dtext.clone(), heavy[(done + t + k) % heavy.len()])).collect())
                .collect();
            let (history, results) = run_schedule(&schedule, &queues);
            out.evaluations += 1;
            out.nontrivial += 1;
            trace.push(&json!({"k": "schedule-deep", "threads": nthreads, "history": history, "calls": results}));
            done += 1;
            if done >= 40 {
                break;
            }
        }
    }
    // the file number (position of the file in its directory) is not part of the verdict: every call once more as
    // the 2nd and as the 10th file of a directory
    for (name, text) in files.iter() {
        let mut calls = vec![];
        for d in dets.iter() {
            if !base[name][d.name()].is_array() {
                continue;
            }
            for fnum in [1usize, 9] {
                let r = d.run_as(text, fnum);
                calls.push(json!({"thread": 1, "seq": calls.len() + 1, "file": name, "pattern": d.name(), "file_number": fnum,
                                  "result": match r { Ok(s) => json!(s), Err(_) => json!("panic") }}));
            }
        }
        out.evaluations += 1;
        trace.push(&json!({"k": "numbered", "threads": 1, "history": [], "calls": calls}));
    }
    // sequential orders: every detector before / after every other, same and different file, repeated
    let fa = &files[0];
    let fb = &files[1 % files.len()];
    for d1 in dets.iter() {
        for d2 in dets.iter() {
            let mut q = vec![];
            for _ in 0..seq_rounds {
                q.push((fa.0.clone(), fa.1.clone(), *d1));
                q.push((fa.0.clone(), fa.1.clone(), *d2));
                q.push((fb.0.clone(), fb.1.clone(), *d2));
                q.push((fa.0.clone(), fa.1.clone(), *d1));
            }
            let q: Vec<_> = q.into_iter().filter(|c| base[&c.0][c.2.name()].is_array()).collect();
            if q.is_empty() {
                continue;
            }
            let mut schedule = vec![];
            for _ in 0..q.len() {
                schedule.push((true, 1));
                schedule.push((false, 1));
            }
            let (history, results) = run_schedule(&schedule, &vec![q]);
            out.evaluations += 1;
            trace.push(&json!({"k": "sequence", "threads": 1, "history": history, "calls": results}));
        }
    }
}
