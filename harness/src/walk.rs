//! C01 -- the real tree search against the projected tree.
use crate::common::*;
use crate::project::{project_source, Tree};
use serde_json::{json, Value};
use solstat::analyzer::ast::{extract_target_from_node, extract_targets_from_node, Node as SNode, Target};

/// Every value of the Target enumeration with its name (Target does not implement Debug).
pub fn all_targets() -> Vec<(&'static str, Target)> {
    use Target::*;
    vec![
        ("Args", Args), ("Return", Return), ("Revert", Revert), ("RevertNamedArgs", RevertNamedArgs), ("Emit", Emit),
        ("Expression", Expression), ("VariableDefinition", VariableDefinition), ("Block", Block), ("If", If), ("While", While),
        ("For", For), ("DoWhile", DoWhile), ("Try", Try), ("Add", Add), ("And", And), ("ArrayLiteral", ArrayLiteral),
        ("ArraySlice", ArraySlice), ("ArraySubscript", ArraySubscript), ("Assign", Assign), ("AssignAdd", AssignAdd),
        ("AssignAnd", AssignAnd), ("AssignDivide", AssignDivide), ("AssignModulo", AssignModulo), ("AssignMultiply", AssignMultiply),
        ("AssignOr", AssignOr), ("AssignShiftLeft", AssignShiftLeft), ("AssignShiftRight", AssignShiftRight),
        ("AssignSubtract", AssignSubtract), ("AssignXor", AssignXor), ("BitwiseAnd", BitwiseAnd), ("BitwiseOr", BitwiseOr),
        ("BitwiseXor", BitwiseXor), ("Complement", Complement), ("Delete", Delete), ("Divide", Divide), ("Equal", Equal),
        ("FunctionCall", FunctionCall), ("FunctionCallBlock", FunctionCallBlock), ("Less", Less), ("LessEqual", LessEqual),
        ("List", List), ("MemberAccess", MemberAccess), ("Modulo", Modulo), ("More", More), ("MoreEqual", MoreEqual),
        ("Multiply", Multiply), ("NamedFunctionCall", NamedFunctionCall), ("New", New), ("Not", Not), ("NotEqual", NotEqual),
        ("Or", Or), ("Parenthesis", Parenthesis), ("PostDecrement", PostDecrement), ("PostIncrement", PostIncrement),
        ("PreIncrement", PreIncrement), ("PreDecrement", PreDecrement), ("ShiftLeft", ShiftLeft), ("ShiftRight", ShiftRight),
        ("Subtract", Subtract), ("Ternary", Ternary), ("Type", Type), ("Function", Function), ("UnaryMinus", UnaryMinus),
        ("UnaryPlus", UnaryPlus), ("Unit", Unit), ("Power", Power), ("BoolLiteral", BoolLiteral), ("NumberLiteral", NumberLiteral),
        ("RationalNumberLiteral", RationalNumberLiteral), ("HexNumberLiteral", HexNumberLiteral), ("HexLiteral", HexLiteral),
        ("StringLiteral", StringLiteral), ("AddressLiteral", AddressLiteral), ("Variable", Variable), ("This", This),
        ("SourceUnit", SourceUnit), ("ContractDefinition", ContractDefinition), ("EnumDefinition", EnumDefinition),
        ("EventDefinition", EventDefinition), ("ErrorDefinition", ErrorDefinition), ("FunctionDefinition", FunctionDefinition),
        ("ImportDirective", ImportDirective), ("PragmaDirective", PragmaDirective), ("StraySemicolon", StraySemicolon),
        ("StructDefinition", StructDefinition), ("TypeDefinition", TypeDefinition), ("Using", Using), ("None", None),
    ]
}

/// The target sets the detectors search for.
pub fn detector_target_sets() -> Vec<Vec<&'static str>> {
    vec![
        vec!["MemberAccess"],
        vec!["Equal", "NotEqual"],
        vec!["Assign"],
        vec!["For"],
        vec!["Block"],
        vec!["PreIncrement", "PreDecrement", "PostIncrement", "PostDecrement"],
        vec!["PreIncrement", "PreDecrement"],
        vec!["FunctionCall"],
        vec!["MoreEqual", "LessEqual"],
        vec!["Multiply", "Divide"],
        vec!["Add", "Subtract", "Multiply", "Divide"],
        vec!["ContractDefinition"],
        vec!["FunctionDefinition"],
        vec!["StructDefinition"],
        vec!["PragmaDirective"],
        vec!["Using"],
        vec!["Multiply", "AssignDivide"],
        vec![
            "Assign", "PreIncrement", "PostIncrement", "PreDecrement", "PostDecrement", "AssignAdd", "AssignAnd", "AssignDivide",
            "AssignModulo", "AssignMultiply", "AssignOr", "AssignShiftLeft", "AssignShiftRight", "AssignSubtract", "AssignXor",
        ],
    ]
}

fn lookup(names: &[&str]) -> Vec<Target> {
    let all = all_targets();
    names.iter().filter_map(|n| all.iter().find(|(m, _)| m == n).map(|(_, t)| *t)).collect()
}

/// Map the nodes returned by the real search back to ids of the projected tree (structural equality,
/// all Locs included). -1 = equals no node of the searched subtree; -2 = equals a node already returned.
fn map_back(tree: &Tree, root: usize, result: &[SNode]) -> Vec<i64> {
    let last = tree.nodes[root - 1].last;
    let mut consumed = vec![false; last - root + 1];
    // candidates cached lazily as SNode
    let mut cache: Vec<Option<SNode>> = (root..=last).map(|_| Option::None).collect();
    let mut out = vec![];
    let mut cursor = root; // results usually come in ascending id order: search forward first
    for r in result {
        let mut found: i64 = -1;
        let order: Vec<usize> = (cursor..=last).chain(root..cursor).collect();
        for id in order {
            let k = id - root;
            if cache[k].is_none() {
                cache[k] = Some(tree.nodes[id - 1].concrete.to_snode());
            }
            if cache[k].as_ref().unwrap() == r {
                if consumed[k] {
                    found = -2;
                    continue;
                }
                consumed[k] = true;
                found = id as i64;
                cursor = id;
                break;
            }
        }
        out.push(found);
    }
    out
}

pub fn search(tree: &Tree, root: usize, names: &[&str]) -> Result<Vec<i64>, String> {
    let targets = lookup(names);
    let node = tree.nodes[root - 1].concrete.to_snode();
    let single = targets.len() == 1;
    let res = guarded(move || {
        if single {
            extract_target_from_node(targets[0], node)
        } else {
            extract_targets_from_node(targets, node)
        }
    })?;
    Ok(map_back(tree, root, &res))
}

/// Record the real search on one program: tree record followed by walk records.
pub fn record_program(name: &str, src: &str, full: bool, rng: &mut Rng, trace: &mut NdjsonWriter, out: &mut Outcome) {
    let tree = match project_source(src) {
        Some(t) => t,
        Option::None => return,
    };
    let n = tree.nodes.len();
    trace.push(&json!({"k": "tree", "src": name, "tree": tree.to_json(), "text": src}));
    let all_names: Vec<&str> = all_targets().iter().map(|(n, _)| *n).collect();
    // roots: the file, every contract, every function, and a sample of statements / expressions
    let mut roots = vec![1usize];
    for id in 2..=n {
        let k = &tree.nodes[id - 1].kind;
        let take = k == "SUP.ContractDefinition" || k.ends_with(".FunctionDefinition") || (full && rng.chance(1, 6)) || (!full && rng.chance(1, 25));
        if take {
            roots.push(id);
        }
    }
    let sets = detector_target_sets();
    for (ri, root) in roots.iter().enumerate() {
        let mut plans: Vec<Vec<&str>> = vec![all_names.clone()];
        if *root == 1 || full {
            plans.extend(sets.iter().cloned());
            // a few singletons, rotating through the enumeration
            for j in 0..3 {
                plans.push(vec![all_names[(ri * 3 + j + rng.below(all_names.len())) % all_names.len()]]);
            }
        } else {
            plans.push(sets[(ri + rng.below(sets.len())) % sets.len()].clone());
        }
        for (pi, names) in plans.into_iter().enumerate() {
            out.evaluations += 1;
            if tree.nodes[*root - 1].last - *root >= 3 {
                out.nontrivial += 1;
            }
            match search(&tree, *root, &names) {
                Ok(ids) => trace.push(&json!({"k": "walk", "src": name, "root": root, "all": pi == 0, "targets": names, "result": ids})),
                Err(m) => out.violate(
                    "walk-panic",
                    format!("the search panicked on {} from node {}: {}", name, root, m),
                    json!({"source": src, "root": root, "targets": names, "panic": m}),
                ),
            }
        }
    }
}

pub fn record(corpus_dir: &str, full: bool, trace: &mut NdjsonWriter, out: &mut Outcome) {
    let mut files: Vec<_> = std::fs::read_dir(corpus_dir).map(|rd| rd.filter_map(|e| e.ok()).map(|e| e.path()).collect()).unwrap_or_default();
    files.sort();
    let mut rng = Rng::from_env(1);
    let mut programs = 0;
    for f in files {
        if let Ok(src) = std::fs::read_to_string(&f) {
            let before = trace.count;
            record_program(&f.file_name().unwrap().to_string_lossy(), &src, full, &mut rng, trace, out);
            if trace.count > before {
                programs += 1;
            }
        }
    }
    out.set("programs", json!(programs));
}

#[allow(dead_code)]
pub fn tree_value(tree: &Tree) -> Value {
    tree.to_json()
}
