//! C11 / C12 / C13 -- driving the real renderers and reading their output back into
//! abstract items, with section texts taken from /repo at check time.
use crate::common::*;
use crate::detectors::{all as all_detectors, by_name, Det};
use serde_json::{json, Value};
use solstat::analyzer::optimizations::Optimization;
use solstat::analyzer::qa::QualityAssurance;
use solstat::analyzer::vulnerabilities::Vulnerability;
use solstat::report::generation::generate_report;
use solstat::report::optimization_report::generate_optimization_report;
use solstat::report::qa_report::generate_qa_report;
use solstat::report::vulnerability_report::generate_vulnerability_report;
use std::collections::{BTreeMap, BTreeSet, HashMap};

pub fn repo_dir() -> String {
    std::env::var("SOLSTAT_REPO").unwrap_or_else(|_| "/repo".to_string())
}

pub const CATS: [&str; 3] = ["vulnerabilities", "optimizations", "qa"];

/// pattern name -> the file under src/report/report_sections/<cat>/ that documents it
fn section_file(pattern: &str) -> String {
    match pattern {
        "constant_variables" => "constant_variable".into(),
        "immutable_variables" => "immutable_variable".into(),
        p => p.to_string(),
    }
}

/// first raw string literal r#"..."# / r##"..."## of a Rust file
fn first_raw_string(text: &str) -> Option<String> {
    let b = text.as_bytes();
    let mut i = 0;
    while i + 1 < b.len() {
        if b[i] == b'r' && (b[i + 1] == b'#' || b[i + 1] == b'"') {
            let mut j = i + 1;
            let mut hashes = 0;
            while j < b.len() && b[j] == b'#' {
                hashes += 1;
                j += 1;
            }
            if j < b.len() && b[j] == b'"' {
                let start = j + 1;
                let close = format!("\"{}", "#".repeat(hashes));
                if let Some(e) = text[start..].find(&close) {
                    return Some(text[start..start + e].to_string());
                }
            }
        }
        i += 1;
    }
    None
}

/// first ordinary string literal "..." of a Rust file with escapes interpreted (for format! overviews)
fn first_plain_string(text: &str) -> Option<String> {
    let start = text.find('"')? + 1;
    let mut out = String::new();
    let mut chars = text[start..].chars().peekable();
    while let Some(c) = chars.next() {
        match c {
            '"' => return Some(out),
            '\\' => match chars.next()? {
                'n' => out.push('\n'),
                't' => out.push('\t'),
                '"' => out.push('"'),
                '\\' => out.push('\\'),
                '\n' => {
                    while let Some(w) = chars.peek() {
                        if w.is_whitespace() {
                            chars.next();
                        } else {
                            break;
                        }
                    }
                }
                o => out.push(o),
            },
            c => out.push(c),
        }
    }
    None
}

pub struct Reader {
    /// per category: (pattern, section text), longest text first
    pub sections: BTreeMap<String, Vec<(String, String)>>,
    /// per category: (prefix, suffix) of the overview around the total; None total for qa
    pub overview: BTreeMap<String, (String, Option<String>)>,
}

impl Reader {
    pub fn load(out: &mut Outcome) -> Reader {
        let base = format!("{}/src/report/report_sections", repo_dir());
        let mut sections = BTreeMap::new();
        let mut overview = BTreeMap::new();
        for cat in CATS {
            let mut v = vec![];
            for d in all_detectors().iter().filter(|d| d.category() == cat) {
                let path = format!("{}/{}/{}.rs", base, cat, section_file(&d.name()));
                match std::fs::read_to_string(&path).ok().and_then(|t| first_raw_string(&t)) {
                    Some(s) => v.push((d.name(), s)),
                    None => {
                        // the text is no longer a literal of that file (composed, included, shared): take what the code
                        // renders for this pattern; two patterns with the same text are told apart by nothing, the first wins
                        let d2 = *d;
                        match guarded(move || match d2 {
                            Det::Opt(o) => solstat::report::optimization_report::get_optimization_report_section(o),
                            Det::Vul(v) => solstat::report::vulnerability_report::get_vulnerability_report_section(v).0,
                            Det::Qa(q) => solstat::report::qa_report::get_qa_report_section(q),
                        }) {
                            Ok(s) if !s.is_empty() => v.push((d.name(), s)),
                            _ => out.tool_error(format!("no section text found in {}", path)),
                        }
                    }
                }
            }
            v.sort_by(|a, b| b.1.len().cmp(&a.1.len()));
            sections.insert(cat.to_string(), v);
            let opath = format!("{}/{}/overview.rs", base, cat);
            let text = std::fs::read_to_string(&opath).unwrap_or_default();
            if cat == "qa" {
                let s = first_raw_string(&text).or_else(|| first_plain_string(&text)).unwrap_or_default();
                overview.insert(cat.to_string(), (s + "\n", None));
            } else {
                match first_plain_string(&text) {
                    Some(s) if s.contains("{}") => {
                        let i = s.find("{}").unwrap();
                        overview.insert(cat.to_string(), (s[..i].to_string(), Some(s[i + 2..].to_string())));
                    }
                    _ => out.tool_error(format!("cannot read overview format from {}", opath)),
                }
            }
        }
        Reader { sections, overview }
    }

    /// Parse one category part starting at `pos`; returns (items, end position).
    pub fn parse_part(&self, cat: &str, text: &str, mut pos: usize) -> (Vec<Value>, usize) {
        let mut items = vec![];
        let (pre, suf) = match self.overview.get(cat) {
            Some(x) => x.clone(),
            None => return (vec![json!({"t": "Garbage", "at": pos})], pos),
        };
        if !text[pos..].starts_with(&pre) {
            return (vec![json!({"t": "Garbage", "at": pos})], pos);
        }
        pos += pre.len();
        match suf {
            Some(suf) => {
                let digits: String = text[pos..].chars().take_while(|c| c.is_ascii_digit()).collect();
                if digits.is_empty() || !text[pos + digits.len()..].starts_with(&suf) {
                    return (vec![json!({"t": "Garbage", "at": pos})], pos);
                }
                pos += digits.len() + suf.len();
                items.push(json!({"t": "Overview", "n": digits.parse::<i64>().unwrap_or(-2)}));
            }
            None => items.push(json!({"t": "Overview", "n": -1})),
        }
        let empty = vec![];
        let secs = self.sections.get(cat).unwrap_or(&empty);
        'outer: loop {
            let rest = &text[pos..];
            if cat == "vulnerabilities" {
                for s in ["High", "Medium", "Low"] {
                    let h = format!("## {} Risk\n", s);
                    if rest.starts_with(&h) {
                        items.push(json!({"t": "Severity", "s": s}));
                        pos += h.len();
                        continue 'outer;
                    }
                }
            }
            for (p, s) in secs.iter() {
                if rest.starts_with(s.as_str()) && rest[s.len()..].starts_with("\n### Lines\n") {
                    items.push(json!({"t": "Section", "p": p}));
                    items.push(json!({"t": "LinesHdr"}));
                    pos += s.len() + "\n### Lines\n".len();
                    loop {
                        let r = &text[pos..];
                        if !r.starts_with("- ") {
                            break;
                        }
                        let eol = match r.find('\n') {
                            Some(e) => e,
                            None => {
                                items.push(json!({"t": "Garbage", "at": pos}));
                                return (items, pos);
                            }
                        };
                        let line = &r[2..eol];
                        match line.rfind(':') {
                            Some(c) if line[c + 1..].parse::<i64>().is_ok() && !line[c + 1..].starts_with('+') => {
                                items.push(json!({"t": "Entry", "f": &line[..c], "l": line[c + 1..].parse::<i64>().unwrap()}));
                            }
                            _ => {
                                items.push(json!({"t": "Garbage", "at": pos}));
                                return (items, pos);
                            }
                        }
                        pos += eol + 1;
                    }
                    if !text[pos..].starts_with("\n\n") {
                        items.push(json!({"t": "Garbage", "at": pos}));
                        return (items, pos);
                    }
                    pos += 2;
                    continue 'outer;
                }
            }
            break;
        }
        (items, pos)
    }

    /// Parse one category report returned by generate_*_report: the whole string must be consumed.
    pub fn parse_whole_part(&self, cat: &str, text: &str) -> Vec<Value> {
        let (mut items, end) = self.parse_part(cat, text, 0);
        if end != text.len() && !items.iter().any(|i| i["t"] == "Garbage") {
            items.push(json!({"t": "Garbage", "at": end}));
        }
        items
    }

    /// Parse solstat_report.md: parts in any order, each followed by "\n\n".
    pub fn parse_file(&self, text: &str) -> BTreeMap<String, Vec<Value>> {
        let mut parts = BTreeMap::new();
        let mut pos = 0;
        while pos < text.len() {
            let mut progressed = false;
            for cat in CATS {
                if parts.contains_key(cat) {
                    continue;
                }
                let pre = &self.overview[cat].0;
                if text[pos..].starts_with(pre.as_str()) {
                    let (items, end) = self.parse_part(cat, text, pos);
                    if items.iter().any(|i| i["t"] == "Garbage") || !text[end..].starts_with("\n\n") {
                        let mut it = items;
                        it.push(json!({"t": "Garbage", "at": end}));
                        parts.insert(cat.to_string(), it);
                        return parts;
                    }
                    parts.insert(cat.to_string(), items);
                    pos = end + 2;
                    progressed = true;
                    break;
                }
            }
            if !progressed {
                parts.insert("?".to_string(), vec![json!({"t": "Garbage", "at": pos})]);
                return parts;
            }
        }
        parts
    }
}

pub type Findings = Vec<(String, Vec<(String, Vec<i32>)>)>;

fn to_set(v: &[i32]) -> BTreeSet<i32> {
    v.iter().cloned().collect()
}

fn entries(files: &[(String, Vec<i32>)]) -> Vec<(String, BTreeSet<i32>)> {
    files.iter().map(|(f, l)| (f.clone(), to_set(l))).collect()
}

pub fn opt_map(f: &Findings) -> HashMap<Optimization, Vec<(String, BTreeSet<i32>)>> {
    let mut m = HashMap::new();
    for (p, files) in f.iter() {
        if let Some(Det::Opt(o)) = by_name(p) {
            m.insert(o, entries(files));
        }
    }
    m
}
pub fn vul_map(f: &Findings) -> HashMap<Vulnerability, Vec<(String, BTreeSet<i32>)>> {
    let mut m = HashMap::new();
    for (p, files) in f.iter() {
        if let Some(Det::Vul(o)) = by_name(p) {
            m.insert(o, entries(files));
        }
    }
    m
}
pub fn qa_map(f: &Findings) -> HashMap<QualityAssurance, Vec<(String, BTreeSet<i32>)>> {
    let mut m = HashMap::new();
    for (p, files) in f.iter() {
        if let Some(Det::Qa(o)) = by_name(p) {
            m.insert(o, entries(files));
        }
    }
    m
}

/// Render one category with the real renderer; the map is filled in the order of `f`.
pub fn render(cat: &str, f: &Findings) -> Result<String, String> {
    let f = f.clone();
    let cat = cat.to_string();
    guarded(move || match cat.as_str() {
        "optimizations" => generate_optimization_report(opt_map(&f)),
        "vulnerabilities" => generate_vulnerability_report(vul_map(&f)),
        _ => generate_qa_report(qa_map(&f)),
    })
}

pub fn findings_json(f: &Findings) -> Value {
    let mut m = serde_json::Map::new();
    for (p, files) in f.iter() {
        m.insert(p.clone(), json!(files.iter().map(|(n, l)| json!([n, l])).collect::<Vec<_>>()));
    }
    Value::Object(m)
}

const NAME_POOL: [&str; 29] = [
    // text that a templating / formatting step would take for a placeholder is part of the name, too
    "Vault{section}.sol", "{lines}.sol", "{}.sol", "{0}{1}.sol", "%s%d.sol", "${name}$1.sol", "{{file}}:{line}.sol", "{total}{count}.sol",
    "{title}{pattern}{entries}.sol", "\\n\\t.sol",
    // white space inside a name is part of the name: runs of blanks, a tab, a leading / trailing blank, a no-break space
    "My  Token.sol", "tab\there.sol", " lead.sol", "nb\u{a0}sp.sol", "trail .sol",
    "Token.sol", "a b.sol", "x:y.sol", "- item.sol", "#hash.sol", "`tick`.sol", "Vault.sol:12", "\u{dc}ber\u{20ac}.sol",
    "deep.sol", "UPPER.SOL.sol", "### Lines.sol", "## Low Risk.sol", "0.sol", "q\"uote\\.sol",
];

fn patterns_of(cat: &str) -> Vec<String> {
    all_detectors().iter().filter(|d| d.category() == cat).map(|d| d.name()).collect()
}

/// Concretise a TLC-generated findings record.
fn concretise(rec: &Value, idx: usize) -> (String, Findings) {
    let cat = rec["cat"].as_str().unwrap_or("").to_string();
    let real = patterns_of(&cat);
    let mut f: Findings = vec![];
    if let Some(obj) = rec["findings"].as_object() {
        let mut abstract_names: Vec<&String> = obj.keys().collect();
        abstract_names.sort();
        for (k, an) in abstract_names.iter().enumerate() {
            let pname = if cat == "vulnerabilities" {
                (*an).clone()
            } else {
                // abstract a/b/c (x/y/z) -> real patterns, rotating through the catalogue
                let slot = (an.as_bytes()[0] as usize) % 3;
                let _ = k;
                real[(idx * 3 + slot) % real.len()].clone()
            };
            let files: Vec<(String, Vec<i32>)> = obj[*an]
                .as_array()
                .unwrap()
                .iter()
                .map(|e| {
                    let id = e[0].as_i64().unwrap_or(0) as usize;
                    (NAME_POOL[(idx + id * 5) % NAME_POOL.len()].to_string(), as_i64s(&e[1]).iter().map(|x| *x as i32).collect())
                })
                .collect();
            f.push((pname, files));
        }
    }
    (cat, f)
}

fn permuted(f: &Findings, rng: &mut Rng, shuffle_files: bool) -> Findings {
    let mut g = f.clone();
    rng.shuffle(&mut g);
    if shuffle_files {
        for (_, files) in g.iter_mut() {
            rng.shuffle(files);
        }
    }
    g
}

/// One findings map through the real renderer: a "render" record, and a "same" record from k further renderings of the
/// same bag of findings built in other insertion / file orders.
fn run_case(ci: usize, cat: &str, f: &Findings, k: usize, reader: &Reader, rng: &mut Rng, trace: &mut NdjsonWriter, out: &mut Outcome) {
    out.evaluations += 1;
    let nfiles: usize = f.iter().map(|x| x.1.len()).sum();
    if f.len() >= 2 && nfiles > f.len() {
        out.nontrivial += 1;
    }
    let first = match render(cat, f) {
        Ok(t) => t,
        Err(m) => {
            out.violate(&format!("render-panic:{}", cat), format!("generate_{}_report panicked: {}", cat, m), json!({"cat": cat, "findings": findings_json(f)}));
            return;
        }
    };
    let items = reader.parse_whole_part(cat, &first);
    trace.push(&json!({"k": "render", "cat": cat, "findings": findings_json(f), "items": items, "text_len": first.len()}));
    if ci % 977 == 5 {
        out.sample(json!({"cat": cat, "findings": findings_json(f), "items": items}));
    }
    // determinism: same bag, other insertion orders and file orders
    let mut differing: Option<(Findings, String)> = None;
    for r in 0..k {
        let g = permuted(f, rng, r % 2 == 1);
        match render(cat, &g) {
            Ok(t) => {
                if t != first && differing.is_none() {
                    differing = Some((g, t));
                }
            }
            Err(_) => {}
        }
    }
    let other = match &differing {
        Some((_, t)) => reader.parse_whole_part(cat, t),
        None => items.clone(),
    };
    trace.push(&json!({"k": "same", "cat": cat, "findings": findings_json(f), "a": items, "b": other,
                       "bytes_equal": differing.is_none(), "renderings": k + 1}));
    if let Some((g, t)) = differing {
        let what = if f.len() >= 2 && items.iter().filter(|i| i["t"] == "Section").map(|i| i["p"].clone()).collect::<Vec<_>>()
            != other.iter().filter(|i| i["t"] == "Section").map(|i| i["p"].clone()).collect::<Vec<_>>() { "section-order" } else { "entry-order" };
        out.violate(
            &format!("nondeterministic:{}:{}", cat, what),
            format!("two renderings of the same findings of category {} differ ({})", cat, what),
            json!({"cat": cat, "findings_a": findings_json(f), "findings_b": findings_json(&g), "report_a": first, "report_b": t}),
        );
    }
}

/// Replay of one recorded report case: the findings map is rendered again by the real code (k + 1 times).
pub fn replay_case(case: &Value, k: usize, trace: &mut NdjsonWriter, out: &mut Outcome) {
    let rec = if case.get("trace_record").is_some() { &case["trace_record"] } else { case };
    let cat = rec["cat"].as_str().unwrap_or("optimizations").to_string();
    let fj = if rec.get("findings").is_some() { &rec["findings"] } else { &rec["findings_a"] };
    let mut f: Findings = vec![];
    if let Some(obj) = fj.as_object() {
        for (p, files) in obj {
            let fs: Vec<(String, Vec<i32>)> = files
                .as_array()
                .cloned()
                .unwrap_or_default()
                .iter()
                .map(|e| (e[0].as_str().unwrap_or("").to_string(), as_i64s(&e[1]).iter().map(|x| *x as i32).collect()))
                .collect();
            f.push((p.clone(), fs));
        }
    }
    let reader = Reader::load(out);
    let mut rng = Rng::from_env(11);
    run_case(0, &cat, &f, k, &reader, &mut rng, trace, out);
}

/// C11/C12: render every map with the real code, tokenise, record for TV_Report.
/// C13: render k times with different insertion orders / file orders; all renderings must be byte-identical.
pub fn replay(behaviours: &str, k: usize, random_maps: usize, trace: &mut NdjsonWriter, out: &mut Outcome) {
    let reader = Reader::load(out);
    let mut rng = Rng::from_env(11);
    let mut cases: Vec<(String, Findings)> = vec![];
    for (idx, rec) in read_ndjson(behaviours).iter().enumerate() {
        cases.push(concretise(rec, idx));
    }
    // every pattern on its own and every pair within its category
    for cat in CATS {
        let ps = patterns_of(cat);
        for (i, p) in ps.iter().enumerate() {
            cases.push((cat.to_string(), vec![(p.clone(), vec![(NAME_POOL[i % NAME_POOL.len()].to_string(), vec![1, 7])])]));
            for (j, q) in ps.iter().enumerate() {
                if j > i {
                    cases.push((
                        cat.to_string(),
                        vec![
                            (p.clone(), vec![("A.sol".to_string(), vec![3]), ("B.sol".to_string(), vec![1, 2])]),
                            (q.clone(), vec![("B.sol".to_string(), vec![9])]),
                        ],
                    ));
                }
            }
        }
    }
    // random large maps
    for _ in 0..random_maps {
        let cat = CATS[rng.below(3)];
        let mut ps = patterns_of(cat);
        rng.shuffle(&mut ps);
        let np = 1 + rng.below(ps.len());
        let mut f: Findings = vec![];
        for p in ps.into_iter().take(np) {
            let nf = 1 + rng.below(5);
            let mut files = vec![];
            for _ in 0..nf {
                let mut lines: BTreeSet<i32> = BTreeSet::new();
                for _ in 0..(1 + rng.below(4)) {
                    lines.insert(1 + rng.below(3000) as i32);
                }
                files.push((NAME_POOL[rng.below(NAME_POOL.len())].to_string(), lines.into_iter().collect()));
            }
            f.push((p, files));
        }
        cases.push((cat.to_string(), f));
    }

    // many findings: totals of four digits with a group below 100 (1 005, 2 048)
    for cat in CATS {
        let ps = patterns_of(cat);
        cases.push((cat.to_string(), vec![(ps[0].clone(), vec![("Big.sol".to_string(), (1..=1005).collect())])]));
        let three: Findings = ps.iter().cycle().take(2).enumerate()
            .map(|(i, p)| (p.clone(), vec![(format!("Huge{}.sol", i), (1..=1024).collect::<Vec<i32>>())]))
            .collect::<Vec<_>>();
        // (a category with fewer than three patterns would repeat a key: keep distinct patterns only)
        let mut seen = BTreeSet::new();
        let three: Findings = three.into_iter().filter(|(p, _)| seen.insert(p.clone())).collect();
        cases.push((cat.to_string(), three));
    }
    // files whose names are equal under some normalisation (leading zeros of a number, letter case, composed /
    // decomposed accents, `-` / `_`, a trailing dot): different files all the same, each listed under its own name
    // forge scripts and tests, numeric prefixes (one beyond 32 bits): names like any other at this level
    let special = ["Deploy.s.sol", "Vault.t.sol", "A.T.SOL", "Mock.sol", "3_Vault.sol", "100_Router.sol", "20240115093000_Init.sol", "007.sol", "4294967296_x.sol",
                   "1.sol", "10.sol", "2.sol"];
    for cat in CATS {
        let ps = patterns_of(cat);
        for (pi, p) in ps.iter().enumerate().take(2) {
            let files: Vec<(String, Vec<i32>)> = special.iter().enumerate().map(|(i, n)| (n.to_string(), vec![(i * 2 + pi + 1) as i32, (60 + i) as i32])).collect();
            cases.push((cat.to_string(), vec![(p.clone(), files)]));
        }
    }
    let lookalikes = ["Vault1.sol", "Vault01.sol", "Vault001.sol", "Vault10.sol", "Vault2.sol", "token.sol", "Token.sol", "TOKEN.sol",
                      "caf\u{e9}.sol", "cafe\u{301}.sol", "A-b.sol", "A_b.sol", "A b.sol", "x.sol", "x.sol.", "x..sol", "X.SOL"];
    for cat in CATS {
        let ps = patterns_of(cat);
        for (pi, p) in ps.iter().enumerate().take(2) {
            let files: Vec<(String, Vec<i32>)> = lookalikes.iter().enumerate().map(|(i, n)| (n.to_string(), vec![(i * 3 + pi + 1) as i32, (40 + i) as i32])).collect();
            cases.push((cat.to_string(), vec![(p.clone(), files)]));
        }
        // ... and the same line sets in all of them (nothing but the name tells them apart)
        let same: Vec<(String, Vec<i32>)> = lookalikes.iter().map(|n| (n.to_string(), vec![1, 7])).collect();
        cases.push((cat.to_string(), vec![(ps[ps.len() - 1].clone(), same)]));
    }
    for (ci, (cat, f)) in cases.iter().enumerate() {
        run_case(ci, cat, f, k, &reader, &mut rng, trace, out);
    }
    // end to end: generate_report writes solstat_report.md into the current directory
    let scratch = std::env::var("VERIF_SCRATCH").unwrap_or_default();
    if !scratch.is_empty() && std::env::set_current_dir(&scratch).is_ok() {
        let vul_cases: Vec<&(String, Findings)> = cases.iter().filter(|c| c.0 == "vulnerabilities").collect();
        let opt_cases: Vec<&(String, Findings)> = cases.iter().filter(|c| c.0 == "optimizations").collect();
        let qa_cases: Vec<&(String, Findings)> = cases.iter().filter(|c| c.0 == "qa").collect();
        let n = 60.min(vul_cases.len()).min(opt_cases.len()).min(qa_cases.len());
        for i in 0..(n + 8) {
            // subsets of categories: bits of i decide presence for the first 8, then all three
            let (pv, po, pq) = if i < 8 { (i & 1 != 0, i & 2 != 0, i & 4 != 0) } else { (true, true, true) };
            let empty: Findings = vec![];
            let fv = if pv { &vul_cases[(i * 7) % vul_cases.len()].1 } else { &empty };
            let fo = if po { &opt_cases[(i * 11) % opt_cases.len()].1 } else { &empty };
            let fq = if pq { &qa_cases[(i * 13) % qa_cases.len()].1 } else { &empty };
            let _ = std::fs::remove_file("solstat_report.md");
            let (a, b, c) = (vul_map(fv), opt_map(fo), qa_map(fq));
            if guarded(move || generate_report(a, b, c)).is_err() {
                out.violate("generate-report-panic", "generate_report panicked".into(), json!({"v": findings_json(fv), "o": findings_json(fo), "q": findings_json(fq)}));
                continue;
            }
            let clean_text = std::fs::read_to_string("solstat_report.md").unwrap_or_default();
            // the same findings once more, over a LONGER report left by an earlier run: the file must be replaced
            let mut stale = clean_text.clone();
            stale.push_str(&clean_text);
            for k in 0..40 {
                stale.push_str(&format!("- Previous.sol:{}\n", k + 1));
            }
            let _ = std::fs::write("solstat_report.md", &stale);
            let (a, b, c) = (vul_map(fv), opt_map(fo), qa_map(fq));
            if guarded(move || generate_report(a, b, c)).is_err() {
                out.violate("generate-report-panic", "generate_report panicked over an existing report".into(), json!({"v": findings_json(fv), "o": findings_json(fo), "q": findings_json(fq)}));
                continue;
            }
            let text = std::fs::read_to_string("solstat_report.md").unwrap_or_default();
            if text != clean_text {
                out.violate(
                    "nondeterministic:file:previous-report",
                    format!("generate_report over an existing longer report leaves {} bytes, {} bytes from a clean directory", text.len(), clean_text.len()),
                    json!({"v": findings_json(fv), "o": findings_json(fo), "q": findings_json(fq)}),
                );
            }
            // what the file holds after the run over the longer report is read back like the final one (below)
            let text_after_longer = text.clone();
            // ... and over a report of exactly the SAME length with other content (same findings in a file of another
            // name, lines one further down): a size comparison must not pass for "already written"
            let flipped: String = clean_text
                .chars()
                .map(|c| match c {
                    '0'..='8' => ((c as u8) + 1) as char,
                    '9' => '0',
                    'a'..='y' | 'A'..='Y' => ((c as u8) + 1) as char,
                    'z' => 'a',
                    'Z' => 'A',
                    _ => c,
                })
                .collect();
            let _ = std::fs::write("solstat_report.md", &flipped);
            let (a, b, c) = (vul_map(fv), opt_map(fo), qa_map(fq));
            if guarded(move || generate_report(a, b, c)).is_err() {
                out.violate("generate-report-panic", "generate_report panicked over an existing report".into(), json!({"v": findings_json(fv), "o": findings_json(fo), "q": findings_json(fq)}));
                continue;
            }
            let text = std::fs::read_to_string("solstat_report.md").unwrap_or_default();
            if text != clean_text {
                out.violate(
                    "nondeterministic:file:previous-report-of-same-length",
                    format!("generate_report over an existing report of the same length ({} bytes) but other content does not leave the report a clean directory gets", clean_text.len()),
                    json!({"v": findings_json(fv), "o": findings_json(fo), "q": findings_json(fq)}),
                );
            }
            // (the file as left by the run over the longer report and by the last run is read back)
            for (via, left) in [("generate_report-over-a-longer-report", &text_after_longer), ("generate_report", &text)] {
                let parts = reader.parse_file(left);
                out.evaluations += 1;
                let mut present = serde_json::Map::new();
                let mut nonempty = serde_json::Map::new();
                for (cat, f) in [("vulnerabilities", fv), ("optimizations", fo), ("qa", fq)] {
                    present.insert(cat.to_string(), json!(parts.contains_key(cat)));
                    nonempty.insert(cat.to_string(), json!(!f.is_empty()));
                    if let Some(items) = parts.get(cat) {
                        trace.push(&json!({"k": "render", "cat": cat, "findings": findings_json(f), "items": items, "via": via}));
                    }
                }
                trace.push(&json!({"k": "file", "present": present, "nonempty": nonempty, "garbage": parts.contains_key("?"), "via": via}));
            }
        }
        let _ = std::fs::remove_file("solstat_report.md");
    }
}
