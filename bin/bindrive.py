"""Driving the real solstat binary on scratch trees (C14, C18, binary parts of C03/C13)."""
import hashlib
import json
import os
import re
import shutil
import subprocess

import vlib
from vlib import ToolError, REPO, ROOT

CATS = ["vulnerabilities", "optimizations", "qa"]


def extract_catalogue():
    """Documented pattern names per category, from /repo as it is now (docs tables + sample toml)."""
    cat = {c: [] for c in CATS}

    def add(c, name):
        name = name.strip()
        if name and name not in cat[c]:
            cat[c].append(name)
    docs = {"optimizations": "docs/identified-optimizations.md",
            "vulnerabilities": "docs/identified-vulnerabilities.md",
            "qa": "docs/identified-quality-assurance.md"}
    for c, rel in docs.items():
        path = os.path.join(REPO, rel)
        if not os.path.exists(path):
            raise ToolError("missing " + path)
        for line in open(path, errors="replace"):
            m = re.match(r"^\|\s*([a-z0-9_]+)\s*\|", line)
            if m:
                add(c, m.group(1))
    tpath = os.path.join(REPO, "Solstat.toml")
    if os.path.exists(tpath):
        text = open(tpath, errors="replace").read()
        for c in CATS:
            m = re.search(r"^%s\s*=\s*\[(.*?)\]" % c, text, re.S | re.M)
            if m:
                for n in re.findall(r'"([^"]*)"', m.group(1)):
                    add(c, n.lower())
    if not all(cat[c] for c in CATS):
        raise ToolError("could not extract a catalogue from /repo: %s" % cat)
    return cat


def spell(name):
    base, casing = name["base"], name["casing"]
    if casing == "upper":
        return base.upper()
    if casing == "title":
        return "_".join(w[:1].upper() + w[1:] for w in base.split("_"))
    if casing == "mixed":
        return "".join(ch.upper() if i % 2 == 0 else ch for i, ch in enumerate(base))
    return base


def toml_text(t, path_value):
    def lst(names):
        return "[" + ", ".join(json.dumps(spell(n)) for n in names) + "]"
    return ("path = %s\noptimizations = %s\nvulnerabilities = %s\nqa = %s\n" % (
        json.dumps(path_value), lst(t["optimizations"]), lst(t["vulnerabilities"]), lst(t["qa"])))


WITNESS = os.path.join(ROOT, "corpus", "witness")


def make_witness_dir(path, ident):
    os.makedirs(path)
    for f in sorted(os.listdir(WITNESS)):
        shutil.copy(os.path.join(WITNESS, f), os.path.join(path, "%s_%s" % (ident, f)))


FURNITURE = {
    ".gitignore": b"node_modules\nout/\ncache/\n",
    ".gitattributes": b"*.sol linguist-language=Solidity\n",
    ".env": b"PRIVATE_KEY=0x00\n",
    "README.md": b"# project\n\n```solidity\ncontract X { function f() public { x++; } }\n```\n",
    "foundry.toml": b"[profile.default]\nsrc = 'src'\nout = 'out'\n",
    # a well-formed solstat configuration that was NOT named on the command line: it selects nothing
    "Solstat.toml": b'path = "./nowhere"\noptimizations = []\nvulnerabilities = []\nqa = []\n',
    "solstat.toml": b"\x00\xff not toml at all [[[\n",
    "package.json": b'{"name": "project", "scripts": {"test": "forge test"}}\n',
    "remappings.txt": b"@oz/=lib/openzeppelin-contracts/\n",
    "solstat_report.md.bak": b"# an older report kept by hand\n- Old.sol:1\n",
    os.path.join(".git", "HEAD"): b"ref: refs/heads/main\n",
    os.path.join(".git", "info", "exclude"): b"# git ls-files --others --exclude-from=.git/info/exclude\n",
    os.path.join(".github", "workflows", "ci.yml"): b"on: push\njobs: {}\n",
}


MARKERS = ("foundry.toml", "package.json", "Solstat.toml", "solstat.toml", "remappings.txt")


def furnish(path, markers=True):
    """The files a real project directory holds next to its contracts (version control, tool configuration, notes):
    a run must neither read a meaning into them nor touch them."""
    for rel, data in FURNITURE.items():
        if not markers and rel in MARKERS:
            # a directory BELOW a project root: the project's own configuration files are further up
            continue
        p = os.path.join(path, rel)
        os.makedirs(os.path.dirname(p), exist_ok=True)
        if not os.path.exists(p):
            with open(p, "wb") as f:
                f.write(data)


def snapshot(root):
    """path -> (type, size, sha256, mode) for everything under root."""
    snap = {}
    for base, dirs, files in os.walk(root):
        for dname in dirs:
            p = os.path.join(base, dname)
            snap[os.path.relpath(p, root)] = ("dir", 0, "", oct(os.lstat(p).st_mode & 0o7777))
        for f in files:
            p = os.path.join(base, f)
            st = os.lstat(p)
            with open(p, "rb") as fh:
                data = fh.read()
            snap[os.path.relpath(p, root)] = ("file", st.st_size, hashlib.sha256(data).hexdigest(), oct(st.st_mode & 0o7777))
    return snap


def spell_args(path, toml, key):
    """The command line for --path / --toml in one of the equivalent spellings clap accepts (long / short option,
    separate / attached value, either order), chosen by a hash of `key` (so that a replay spells it the same way)."""
    k = int(hashlib.sha256(json.dumps(key, sort_keys=True).encode()).hexdigest()[:8], 16)

    def one(long, short, v, j):
        return [[long, v], [short, v], [long + "=" + v], [short + v]][j % 4]
    a = one("--path", "-p", path, k) if path else []
    b = one("--toml", "-t", toml, k // 4) if toml else []
    return (b + a) if (k // 16) % 2 else (a + b)


def run_solstat(binary, cwd, args, timeout=120):
    try:
        p = subprocess.run([binary] + args, cwd=cwd, stdout=subprocess.PIPE, stderr=subprocess.PIPE,
                           timeout=timeout, text=True, errors="replace")
        return p.returncode, p.stderr[-400:]
    except subprocess.TimeoutExpired:
        return -9, "timeout"


def parse_reports(hb, directory):
    res = vlib.harness(hb, ["report-parse-batch", directory])
    return res["extra"]["parsed"]


def sections_of(parsed):
    out = {c: [] for c in CATS}
    files = set()
    for c in CATS:
        for it in parsed.get("parts", {}).get(c, []):
            if it["t"] == "Section":
                out[c].append(it["p"])
            if it["t"] == "Entry":
                files.add(it["f"])
    return out, sorted(files)
