"""Per-property decision procedures (DESIGN.md section 7)."""
import json
import os
import re
import shutil

import vlib
from vlib import ToolError, log, WORK, ROOT, REPO

REGISTRY = {}


def prop(pid):
    def deco(fn):
        REGISTRY[pid] = fn
        return fn
    return deco


def wdir(pid):
    d = os.path.join(WORK, pid)
    os.makedirs(d, exist_ok=True)
    return d


# ---------------------------------------------------------------------------
# corpus: hand-written files plus every Solidity literal embedded in solstat itself
# ---------------------------------------------------------------------------

_RAW = re.compile(r'r(#+)"(.*?)"\1', re.S)
_FENCE = re.compile(r"```(?:js|solidity|sol|javascript)?\n(.*?)```", re.S)


# random programs per check and tier (bin/randsol.py): (first index, count); fixed seed tag, so that the inputs of a check
# are the same on every run (the verdict on them is the specification's, evaluated by TLC)
RAND_TAG = "v1"
RAND = {"C01": {"quick": (0, 30), "thorough": (0, 400)},
        "C02": {"quick": (100, 10), "thorough": (100, 24)},
        "C17": {"quick": (200, 10), "thorough": (200, 24)},
        "C04": {"quick": (300, 150), "thorough": (300, 3000)},
        "C05": {"quick": (1000, 60), "thorough": (1000, 900)},
        "C06": {"quick": (2000, 60), "thorough": (2000, 900)},
        "C07": {"quick": (3000, 60), "thorough": (3000, 900)},
        "C08": {"quick": (4000, 60), "thorough": (4000, 900)},
        "C09": {"quick": (5000, 20), "thorough": (5000, 150)},
        "C10": {"quick": (6000, 100), "thorough": (6000, 1500)},
        "C19": {"quick": (7000, 30), "thorough": (7000, 300)},
        # directory checks: the same contents in both tiers (a replay materialises the recorded tree from them)
        "C03": {"any": (8000, 12)}, "C16": {"any": (8100, 12)}, "C15": {"any": (8200, 12)}}


def prepare_corpus(pid=None, tier=None):
    """Collect corpus files into work/corpus (rebuilt on every check run)."""
    import randsol
    out = os.path.join(WORK, "corpus-%s" % pid if pid else "corpus")      # one per check: checks may run side by side
    shutil.rmtree(out, ignore_errors=True)
    os.makedirs(out)
    n = 0
    if pid in RAND and (tier in RAND[pid] or "any" in RAND[pid]):
        first, count = RAND[pid].get(tier) or RAND[pid]["any"]
        for k in range(first, first + count):
            with open(os.path.join(out, "g_%s_%05d.sol" % (RAND_TAG, k)), "wb") as f:
                f.write(randsol.program(RAND_TAG, k).encode("utf-8"))
        n += count
    if pid in ("C03", "C15", "C16", "C04"):
        # degenerate but valid files: nothing in them, white space only, comments only
        for name, data in (("d_empty.sol", b""), ("d_blank.sol", b"\n\n \t\n\n"), ("d_crlf_blank.sol", b"\r\n\r\n"),
                           ("d_comment.sol", b"// SPDX-License-Identifier: MIT\n/* nothing\n   here */\n")):
            with open(os.path.join(out, name), "wb") as f:
                f.write(data)
            n += 1
    if pid in ("C03", "C15", "C16"):
        # large files whose multi-byte characters straddle every block boundary (three alignments)
        import pipeline
        wide = pipeline.contents()
        for k in range(3):
            with open(os.path.join(out, "d_wide%d.sol" % k), "wb") as f:
                f.write(wide["w%d" % k])
            n += 1
    if pid == "C04":
        # boundary-value matrix: every pair of binary operators over every pair of boundary literals, all bracketings
        for part in range(randsol.MATRIX_PARTS):
            with open(os.path.join(out, "m_literal_matrix_%02d.sol" % part), "w") as f:
                f.write(randsol.literal_matrix(["0.8.17", "0.7.6", "^0.8.4"][part % 3], part))
        n += randsol.MATRIX_PARTS
        # every shape of assignment target under every form of update
        with open(os.path.join(out, "l_lvalue_matrix.sol"), "w") as f:
            f.write(randsol.lvalue_matrix("0.8.17"))
        n += 1
        # every form of string literal in every place a detector reads one, on both sides of the version gates
        for ver in ("0.8.3", "^0.8.4", "0.7.6", "0.4.24"):
            with open(os.path.join(out, "s_string_matrix_%s.sol" % ver.replace("^", "c").replace(".", "_")), "wb") as f:
                f.write(randsol.string_matrix(ver).encode("utf-8"))
            n += 1
    for name in sorted(os.listdir(os.path.join(ROOT, "corpus"))):
        if name.endswith(".sol"):
            shutil.copy(os.path.join(ROOT, "corpus", name), os.path.join(out, "h_" + name))
            n += 1
    src = os.path.join(REPO, "src")
    k = 0
    for base, _dirs, files in sorted(os.walk(src)):
        for fn in sorted(files):
            if not fn.endswith(".rs"):
                continue
            text = open(os.path.join(base, fn), errors="replace").read()
            lits = [m.group(2) for m in _RAW.finditer(text)]
            extra = []
            for lit in lits:
                extra += [m.group(1) for m in _FENCE.finditer(lit)]
            for lit in lits + extra:
                if "contract" not in lit and "function" not in lit and "struct" not in lit:
                    continue
                k += 1
                tag = os.path.relpath(os.path.join(base, fn), src).replace("/", "_")[:-3]
                with open(os.path.join(out, "r_%s_%03d.sol" % (tag, k)), "w") as f:
                    f.write(lit)
                n += 1
    log("corpus: %d candidate files in %s" % (n, out))
    return out


def trace_validate(chk, module, trace_path, describe, timeout=900, env=None):
    """Run the trace specification over a recorded trace; rejected records become violations."""
    recs = vlib.read_ndjson(trace_path)
    if not recs:
        raise ToolError("empty trace %s" % trace_path)
    e = {"TRACE": trace_path}
    if env:
        e.update(env)
    # An observation on which the trace specification cannot even be evaluated (an index outside a tree, a pattern
    # missing from a baseline ...) is not a behaviour of the specification: the record is reported as a violation,
    # taken out, and the rest of the trace is validated (a crash of TLC for any other reason stays a tool error).
    unevaluable = []
    while True:
        try:
            # (the heap follows the size of the trace: a 600 MB trace of projected trees needs far more than 4 GB as TLC values)
            size = os.path.getsize(trace_path)
            heap = "4g" if size < 120e6 else "12g" if size < 400e6 else "28g"
            r = vlib.tlc(module, workers=1, timeout=timeout, env=e, dfs=True, tag="tv", xmx=heap)
            break
        except ToolError as err:
            msg = getattr(err, "first_error", "")
            k = getattr(err, "generated", 0)     # states generated = records consumed so far + 1
            log("trace specification %s stopped after %s states: %s" % (module, k, re.sub(r"\s+", " ", msg)[:200]))
            if len(unevaluable) >= 8 and k and k <= len(recs):
                # enough of them: report what was found, the rest of this trace is not examined
                recs = []
                break
            if (not k or "StackOverflow" in str(err) or "OutOfMemory" in str(err)
                    or not re.search(r"Attempted to|not in the domain|was not an element|is not a (record|function|sequence|set)|non-enumerable|out of bounds", msg)):
                raise
            if k < 1 or k > len(recs):
                raise
            bad_rec = recs[k - 1]
            unevaluable.append((bad_rec, re.sub(r"\s+", " ", msg)[:160]))
            recs = recs[:k - 1] + recs[k:]
            if not recs:
                break
            trace_path = trace_path + ".rest"
            vlib.write_ndjson(trace_path, recs)
            e["TRACE"] = trace_path
    for bad_rec, why in unevaluable:
        sig = "unevaluable:%s:%s" % (module, bad_rec.get("k", ""))
        chk.violate(sig, "the recorded observation is outside what %s can evaluate (%s): %s" % (module, why, json.dumps(bad_rec)[:300]),
                    {"trace_record": bad_rec, "trace_spec": module, "env": {k: v for k, v in (env or {}).items() if not os.path.exists(str(v))},
                     "env_files": {k: open(v).read() for k, v in (env or {}).items() if os.path.isfile(str(v)) and os.path.getsize(v) < 400000}})
    if not recs:
        return {"n": 0, "bad": []}
    res = r.records.get("TVRESULT")
    if not res:
        raise ToolError("trace specification %s printed no result\n%s" % (module, r.out[-2000:]))
    res = res[-1]
    if res["n"] != len(recs):
        raise ToolError("trace specification %s consumed %s of %d records" % (module, res["n"], len(recs)))
    if res.get("inconsistent"):
        i = res["inconsistent"][0]
        raise ToolError("specification-level failure: Patterns.tla and RefDetect.tla disagree on record %d of %s (%s)" % (
            i, trace_path, recs[i - 1].get("src")))
    chk.states += r.distinct
    chk.transitions += r.transitions
    chk.traces += len(recs) - len(res["bad"])
    for b in res["bad"]:
        idx, extra = (b, None) if isinstance(b, int) else (b[0], b[1])
        rec = recs[idx - 1]
        out = describe(rec, extra) if extra is not None else describe(rec)
        sig, desc = out[0], out[1]
        case = {"trace_record": rec, "trace_spec": module, "trace_index": idx}
        # what the trace specification read besides the trace (catalogue, baseline, world, mode): kept with the case so
        # that a replay does not depend on the work directory of the run that found it
        if rec.get("k") == "walk":
            # a walk refers to the tree record before it: keep the program text, the replay searches it again
            for back in range(idx - 2, -1, -1):
                if recs[back].get("k") == "tree":
                    if recs[back].get("text"):
                        case["source"] = recs[back]["text"]
                        case.pop("trace_record", None)
                    break
        case["env"] = {k: v for k, v in (env or {}).items() if not os.path.exists(str(v))}
        case["env_files"] = {k: open(v).read() for k, v in (env or {}).items()
                             if os.path.isfile(str(v)) and os.path.getsize(v) < 400000}
        if len(out) > 2:
            case.update(out[2])
        chk.violate(sig, desc, case)
    return res


def replay(chk, pid, path):
    """Re-run one recorded case (evidence/replay/<ID>-<hash>.json) against the real code of /repo as it is now."""
    with open(path) as f:
        doc = json.load(f)
    case = doc.get("case", {})
    hb = vlib.build_harness("dev")
    d = wdir(pid)
    tv_of = {"C01": ("TV_Walk", {}), "C04": ("TV_Totality", {}), "C19": ("TV_Compose", {}),
             "C05": ("TV_Patterns", {"MODE": "C05"}), "C06": ("TV_Patterns", {"MODE": "C06"}),
             "C07": ("TV_Patterns", {"MODE": "C07"}), "C08": ("TV_Patterns", {"MODE": "C08"}),
             "C02": ("TV_Patterns", {"MODE": "ALL"}), "C17": ("TV_Patterns", {"MODE": "ALL"})}

    def generic(rec, extra=None):
        return ("replay:%s" % (extra if extra is not None else doc.get("signature", "")), "the recorded case still violates the specification")
    if case.get("canon") and case.get("gaps") is not None:
        # a re-layout case: flag tokens from the one-token-per-line text, lines from the re-laid-out text, both again
        cpath = os.path.join(d, "replay-case.json")
        with open(cpath, "w") as f:
            json.dump(case, f)
        tpath = os.path.join(d, "replay-trace.ndjson")
        chk.add_harness(vlib.harness(hb, ["replay-layout", cpath, tpath]), count_traces=False)
        trace_validate(chk, "TV_C02", tpath, lambda rec, det: generic(rec, det))
        chk.rule = "replay: the recorded pair of layouts analysed again by the real detector and validated by TV_C02"
    elif case.get("source") and pid in tv_of and not case.get("expected"):
        spath = os.path.join(d, "replay-source.sol")
        with open(spath, "w") as f:
            f.write(case["source"])
        tpath = os.path.join(d, "replay-trace.ndjson")
        res = vlib.harness(hb, ["replay-source", pid, spath, tpath])
        chk.add_harness(res, count_traces=False)
        module, env = tv_of[pid]
        trace_validate(chk, module, tpath, generic, env=env)
        chk.rule = "replay: the source of the recorded case re-analysed by the real code and validated by %s" % module
    elif case.get("call") or case.get("expected") is not None:
        cpath = os.path.join(d, "replay-case.json")
        with open(cpath, "w") as f:
            json.dump(case, f)
        chk.add_harness(vlib.harness(hb, ["replay-call", cpath]))
        chk.rule = "replay: the recorded call re-executed against the real code"
    elif pid in ("C11", "C12", "C13") and ((case.get("trace_spec") == "TV_Report" and case["trace_record"].get("findings") is not None)
                                           or "findings_a" in case):
        # a report case: the findings map is rendered again by the real generate_*_report (several insertion orders)
        cpath = os.path.join(d, "replay-case.json")
        with open(cpath, "w") as f:
            json.dump(case, f)
        tpath = os.path.join(d, "replay-trace.ndjson")
        res = vlib.harness(hb, ["replay-report", cpath, "16", tpath])
        if pid != "C13":
            res["violations"] = [v for v in res["violations"] if not v["sig"].startswith("nondeterministic")]
        chk.add_harness(res, count_traces=False)
        recs = vlib.read_ndjson(tpath)
        if pid == "C13":
            recs = [r for r in recs if r["k"] == "same"]
            vlib.write_ndjson(tpath, recs)
        if recs:
            trace_validate(chk, "TV_Report", tpath, generic, env={"MODE": pid})
        chk.rule = "replay: the recorded findings map rendered again by the real report generator and validated by TV_Report"
    elif case.get("trace_spec") == "TV_DirWalk" or ("tree" in case and "pats" in case and "cat" in case):
        # a directory case: the tree is materialised again, the files are analysed alone again, analyze_dir runs again
        cpath = os.path.join(d, "replay-case.json")
        with open(cpath, "w") as f:
            json.dump(case, f)
        tpath = os.path.join(d, "replay-trace.ndjson")
        scratch = vlib.scratch_dir(pid + "r")
        try:
            res = vlib.harness(hb, ["replay-dir", cpath, prepare_corpus(pid), scratch, tpath])
        finally:
            shutil.rmtree(scratch, ignore_errors=True)
        chk.add_harness(res, count_traces=False)
        if os.path.exists(tpath) and os.path.getsize(tpath) > 0:
            trace_validate(chk, "TV_DirWalk", tpath, generic)
        chk.rule = "replay: the recorded tree materialised again and analysed by the real analyze_dir, validated by TV_DirWalk"
    elif pid == "C18" and (case.get("trace_spec") == "TV_RunFs" or "mode" in case):
        # the whole history of runs is executed again with the real binary (a clean-run case: the clean runs are)
        sb = vlib.build_solstat_bin()
        rec = case.get("trace_record")
        recs = _c18_execute(chk, sb, [{"init": rec["init"], "history": rec["history"]}] if rec else [])
        if recs:
            tpath = os.path.join(d, "replay-trace.ndjson")
            vlib.write_ndjson(tpath, recs)
            trace_validate(chk, "TV_RunFs", tpath, _c18_describe)
        chk.rule = "replay: the recorded history of runs executed again with the real binary on a fresh scratch tree and validated by TV_RunFs"
    elif pid == "C14" and case.get("trace_spec") == "TV_Config" and case["trace_record"].get("k") == "run":
        sb = vlib.build_solstat_bin()
        cat = bindrive.extract_catalogue()
        cpath = os.path.join(d, "catalogue.json")
        with open(cpath, "w") as f:
            json.dump(cat, f)
        recs = _c14_execute(hb, sb, [{"input": case["trace_record"]["input"]}, {"input": case["trace_record"]["input"]}])
        tpath = os.path.join(d, "replay-trace.ndjson")
        vlib.write_ndjson(tpath, recs)
        trace_validate(chk, "TV_Config", tpath, generic, env={"CATALOGUE": cpath})
        chk.rule = "replay: the recorded input run again through the real binary (without and with a stale report) and validated by TV_Config"
    elif pid == "C14" and case.get("trace_spec") == "TV_Solstat":
        import system
        sb = vlib.build_solstat_bin()
        r0 = case["trace_record"]
        recs, wpath = system.execute(hb, sb, [{"inp": r0["inp"], "rep0": r0["rep0"]}], d)
        tpath = os.path.join(d, "replay-trace.ndjson")
        vlib.write_ndjson(tpath, recs)
        trace_validate(chk, "TV_Solstat", tpath, generic, env={"WORLD": wpath})
        chk.rule = "replay: the recorded whole run executed again with the real binary and validated by TV_Solstat"
    elif case.get("trace_record") and case.get("trace_spec"):
        # observations that need a whole scenario (a directory tree, a run of the binary, a schedule): the recorded
        # observation is re-validated against the specification as it is now; re-execute with the quick check
        tpath = os.path.join(d, "replay-trace.ndjson")
        vlib.write_ndjson(tpath, [case["trace_record"]])
        env = {}
        if pid in ("C11", "C12", "C13"):
            env["MODE"] = pid
        if pid == "C14":
            env["CATALOGUE"] = os.path.join(d, "catalogue.json")
        if pid == "C15":
            env["BASELINE"] = os.path.join(d, "baseline.json")
        env.update(case.get("env") or {})
        for k, text in (case.get("env_files") or {}).items():
            fp = os.path.join(d, "replay-env-%s.json" % k)
            with open(fp, "w") as f:
                f.write(text)
            env[k] = fp
        trace_validate(chk, case["trace_spec"], tpath, generic, env=env)
        chk.rule = "replay: the recorded observation re-validated by %s (the scenario itself is re-executed by the quick check)" % case["trace_spec"]
    else:
        raise ToolError("this replay file carries no re-executable case")
    if not chk.samples:
        chk.samples.append({"replayed": os.path.basename(path), "signature": doc.get("signature")})
    chk.nontrivial = max(chk.nontrivial, 2)
    chk.evaluations = max(chk.evaluations, 1)


# ---------------------------------------------------------------------------
# C10
# ---------------------------------------------------------------------------

@prop("C10")
def check_c10(chk, tier):
    hb = vlib.build_harness("dev")
    d = wdir("C10")
    r = vlib.tlc("MC_C10", "MC_C10.quick.cfg", workers=8, timeout=3000)
    chk.add_tlc(r)
    beh = r.records.get("REPLAY", [])
    # length 4 over eight boundary sizes (from four members on, sorting can make a declared order worse)
    r4q = vlib.tlc("MC_C10", "MC_C10.len4.cfg", workers=8, timeout=3000)
    chk.add_tlc(r4q)
    beh += [b for b in r4q.records.get("REPLAY", []) if len(b["sizes"]) == 4]
    # long layouts: hundreds of members, 256 slots and more
    rl = vlib.tlc("MC_C10", "MC_C10.long.cfg", workers=4, timeout=900)
    chk.add_tlc(rl)
    if len(rl.records.get("REPLAY", [])) < 5:
        raise ToolError("MC_C10.long generated too few layouts")
    beh += rl.records.get("REPLAY", [])
    if tier == "thorough":
        # all 1 082 401 sequences of length <= 4 against the true optimum (model checking only) ...
        r4 = vlib.tlc("MC_C10", "MC_C10.thorough.cfg", workers=12, timeout=3400, xmx="16g")
        chk.add_tlc(r4)
        # ... and lengths up to 5 over the 12 boundary sizes, replayed
        rb = vlib.tlc("MC_C10", "MC_C10.boundary.cfg", workers=12, timeout=3400, xmx="16g")
        chk.add_tlc(rb)
        beh += rb.records.get("REPLAY", [])
        neg = vlib.tlc("MC_C10", "MC_C10.neg.cfg", workers=2, timeout=300, expect_violation=True)
        if neg.violated != "GreedyIsLayout":
            raise ToolError("negative control BadStep (>= instead of >) did not violate GreedyIsLayout")
        chk.extra["negative_controls"] = ["BadStep (>= 256 opens a slot) violates GreedyIsLayout"]
    if len(beh) < 1000:
        raise ToolError("MC_C10 generated only %d behaviours" % len(beh))
    bpath = os.path.join(d, "behaviours.ndjson")
    vlib.write_ndjson(bpath, beh)
    res = vlib.harness(hb, ["c10-replay", bpath])
    chk.add_harness(res)
    # implementation -> specification
    corpus = prepare_corpus("C10", tier)
    tpath = os.path.join(d, "trace.ndjson")
    res2 = vlib.harness(hb, ["c10-record", corpus, tpath])
    chk.add_harness(res2, count_traces=False)

    def describe(rec):
        if rec.get("k") == "type":
            return ("type-size:%s" % rec["ty"]["t"],
                    "get_type_size(%s) = %s is not the size the model assigns" % (rec.get("spelling"), rec.get("size")))
        return ("container:%s" % rec.get("what"),
                "%s at %s:%s with member sizes %s: slots=%s reported=%s is not allowed by the slot model" % (
                    rec.get("what"), rec.get("src"), rec.get("line"), rec.get("sizes"), rec.get("slots"), rec.get("reported")))
    trace_validate(chk, "TV_C10", tpath, describe)
    chk.exhaustive = True
    chk.rule = ("TLC enumerates every sequence of member sizes over the 32 byte-granular sizes up to the "
                "configured length, runs the Greedy machine on each and checks it against the declarative layout "
                "rule and the true optimum over all permutations; each sequence is replayed into "
                "storage_slots_used and, rendered as a contract / file-level struct / nested struct with varying "
                "type spellings, into the two packing detectors. Non-trivial = sequences of length >= 2 or "
                "with a must/free verdict. Trace validation: every elementary type spelling through "
                "get_type_size and every contract/struct of the corpus.")
    chk.assumptions = ["solang-parser 0.1.18 parses the rendered containers as written",
                       "the harness' mapping of a type expression to its class (bool/address/uintN/...) is right"]


# ---------------------------------------------------------------------------
# C09
# ---------------------------------------------------------------------------

def _version_proofs(chk, d):
    """Unbounded gate lemmas (all version triples of naturals) with the TLA+ proof system."""
    pd = os.path.join(d, "tlaps")
    shutil.rmtree(pd, ignore_errors=True)
    os.makedirs(pd)
    for f in ("VersionGates.tla", "VersionProofs.tla"):
        shutil.copy(os.path.join(vlib.SPEC, f), pd)
    try:
        p = vlib.run(["tlapm", "--threads", "8", "VersionProofs.tla"], cwd=pd, timeout=600)
    except ToolError as e:
        chk.extra["tlaps"] = "not run: %s" % str(e)[:100]
        return
    out = p.stdout + p.stderr
    m = re.search(r"All (\d+) obligations? proved", out)
    if m:
        n = int(m.group(1))
        chk.extra["obligations"] = n
        chk.extra["discharged"] = n
        chk.extra["checker_cmd"] = "tlapm --threads 8 VersionProofs.tla"
        chk.extra["tlaps"] = "LtTotal, LtTrans, ExclusiveAll, MonotoneAll proved for all version triples over Nat"
    elif "obligations failed" in out or "obligation failed" in out:
        raise ToolError("TLAPS could not prove the gate lemmas:\n" + out[-1500:])
    else:
        chk.extra["tlaps"] = "not conclusive (rc=%d)" % p.returncode


@prop("C09")
def check_c09(chk, tier):
    hb = vlib.build_harness("dev")
    d = wdir("C09")
    cfg = "MC_C09.quick.cfg" if tier == "quick" else "MC_C09.thorough.cfg"
    r = vlib.tlc("MC_C09", cfg, workers=8, timeout=3000)
    chk.add_tlc(r)
    beh = r.records.get("REPLAY", [])
    if len(beh) < 5000:
        raise ToolError("MC_C09 generated only %d behaviours" % len(beh))
    if tier == "thorough":
        # negative control: a scan that takes the first pragma of any kind must violate the spec
        neg = vlib.tlc("MC_C09", "MC_C09.neg.cfg", workers=4, timeout=600, expect_violation=True)
        if not neg.violated:
            raise ToolError("negative control FirstPragmaWins did not violate ScanFindsSolidity")
        chk.extra["negative_controls"] = ["FirstPragmaWins violates %s" % neg.violated]
    _version_proofs(chk, d)
    bpath = os.path.join(d, "behaviours.ndjson")
    vlib.write_ndjson(bpath, beh)
    res = vlib.harness(hb, ["c09-replay", bpath])
    chk.add_harness(res)
    corpus = prepare_corpus("C09", tier)
    tpath = os.path.join(d, "trace.ndjson")
    res2 = vlib.harness(hb, ["c09-record", corpus, tpath])
    chk.add_harness(res2, count_traces=False)

    def describe(rec):
        return ("program-gates", "corpus program %s: the four version-gated detectors do not follow the version gates "
                "(samples: %s)" % (rec.get("src"), json.dumps(rec.get("samples"))[:400]))
    trace_validate(chk, "TV_C09", tpath, describe)
    chk.exhaustive = True
    chk.rule = ("TLC enumerates every version triple in 0.0.0..2.12.40 with the bare spelling in 7 header shapes, and "
                "(quick: boundary versions; thorough: all) with 6 operator spellings; for each header it runs the pragma "
                "scan machine and prints the gates; the harness renders header + a fixed body (SafeMath call sites, requires "
                "with 1/31/32/33-byte and multi-byte strings) and compares the four real detectors and the real version "
                "extraction with the gates. Non-trivial = header with an operator or an unrelated pragma. TV: every corpus "
                "program under 13 sampled versions must be explained by version-independent line sets and the gates.")
    chk.assumptions = ["the fixed body's flag lines are as annotated in harness/src/c09.rs"]


# ---------------------------------------------------------------------------
# C02 / C17 (shared layout machinery)
# ---------------------------------------------------------------------------

def _layout_check(chk, tier, pid):
    hb = vlib.build_harness("dev")
    d = wdir(pid)
    suffix = "quick" if tier == "quick" else "thorough"
    # the Emit machine: layout-level lines = byte-level definition; generates the gap patterns
    r = vlib.tlc("MC_C02_Emit", "MC_C02_Emit.%s.cfg" % suffix, workers=8, timeout=3000)
    chk.add_tlc(r)
    pats = r.records.get("REPLAY", [])
    if len(pats) < 100:
        raise ToolError("MC_C02_Emit generated only %d gap patterns" % len(pats))
    ppath = os.path.join(d, "patterns.ndjson")
    vlib.write_ndjson(ppath, pats)
    corpus = prepare_corpus(pid, tier)
    tpath = os.path.join(d, "trace.ndjson")
    xpath = os.path.join(d, "texts.ndjson")
    mode = "c17" if pid == "C17" else "c02"
    per = {"quick": 8, "thorough": 40}[tier]
    dpath = os.path.join(d, "trace-detect.ndjson")
    res = vlib.harness(hb, ["layout-record", corpus, ppath, mode, str(per), tpath, xpath, dpath], timeout=3000)
    chk.add_harness(res, count_traces=False)
    texts = vlib.read_ndjson(xpath)
    if pid == "C02":
        # on re-laid-out texts constructs span several lines: reported lines must be lines where a matching construct begins
        def describe_p(rec, why):
            det, verdict = why.split(":")
            return ("relayout-construct-line:%s:%s" % (det, verdict),
                    "%s on the re-laid-out %s reports %s: not the lines on which its constructs begin" % (det, rec["src"], rec["results"].get(det)),
                    {"detector": det, "source": rec.get("text", ""), "relayout_case": True})
        trace_validate(chk, "TV_Patterns", dpath, describe_p, env={"MODE": "ALL"}, timeout=3000)

    def describe(rec, det):
        idx = describe.recs.index(rec) if False else None
        return ("%s:%s" % ("relayout-tokens" if pid == "C17" else "relayout-lines", det),
                "%s on %s (%s): after re-layout the reported lines are not the lines of the tokens flagged on the "
                "one-token-per-line layout" % (det, rec.get("src"), rec.get("variant")),
                {})
    res_tv = trace_validate(chk, "TV_C02", tpath, describe, timeout=3000)
    # attach the re-laid-out text to the replay files
    for v in chk.violations:
        case = v["replay"]
        if case.get("relayout_case"):
            case.pop("trace_record", None)
            continue
        i = case.get("trace_index")
        if i and i <= len(texts):
            case["source"] = texts[i - 1]["text"]
            case["canon"] = texts[i - 1].get("canon", "")
            if texts[i - 1].get("prev"):
                case["prev"] = texts[i - 1]["prev"]
            rec = case.get("trace_record", {})
            for k in ("n", "inj", "gaps", "inner", "entry"):
                case[k] = rec.get(k)
            det = v["sig"].split(":", 1)[1] if ":" in v["sig"] else ""
            case["detector"] = det
            for dd in rec.get("dets", []):
                if dd["d"] == det:
                    case["flag_tokens"] = dd["F"]
                    case["observed"] = dd["rep"]
            # refine the signature: is the offending construct on the unterminated last line?
            if "observed" in case and 0 in case["observed"]:
                v["sig"] = v["sig"] + ":line0"
            case.pop("trace_record", None)
    return r


@prop("C02")
def check_c02(chk, tier):
    hb = vlib.build_harness("dev")
    d = wdir("C02")
    suffix = "quick" if tier == "quick" else "thorough"
    # (a) the offset -> line machine on every small text and token-start offset
    r = vlib.tlc("MC_C02_Scan", "MC_C02_Scan.%s.cfg" % suffix, workers=8, timeout=3000)
    chk.add_tlc(r)
    beh = r.records.get("REPLAY", [])
    if len(beh) < 1000:
        raise ToolError("MC_C02_Scan generated only %d behaviours" % len(beh))
    if tier == "thorough":
        neg = vlib.tlc("MC_C02_Scan", "MC_C02_Scan.neg.cfg", workers=4, timeout=600, expect_violation=True)
        if neg.violated != "ScanIsLineOf":
            raise ToolError("negative control ReturnZeroAtEnd did not violate ScanIsLineOf")
        chk.extra["negative_controls"] = ["ReturnZeroAtEnd violates ScanIsLineOf"]
    bpath = os.path.join(d, "scan.ndjson")
    vlib.write_ndjson(bpath, beh)
    chk.add_harness(vlib.harness(hb, ["scan-replay", bpath]))
    # (b) whole programs re-laid out
    _layout_check(chk, tier, "C02")
    # the lines as the user reads them: the binary over the directed trees of the pipeline, among them a second run over
    # the (longer) report of an earlier run -- what the file lists afterwards are the lines of this run's findings only
    _pipeline(chk, tier, "C02", [])
    chk.exhaustive = True
    chk.rule = ("(a) TLC enumerates every well-formed text of byte classes {LF,CR,W,A,2-byte char} up to the configured "
                "length and every token-start offset, runs the Scan machine and checks it against LineOf; each "
                "(text, offset) is materialised and passed to get_line_number. (b) TLC enumerates gap patterns for the "
                "Emit machine (TokLine = LineOf o TokOffset); corpus programs are lexed with solang's lexer and re-laid "
                "out with fixed stress layouts (single line without final newline, CRLF, blank lines) and a rotating "
                "subset of the TLC patterns; TV_C02 accepts a record iff the reported lines are exactly the lines of the "
                "tokens flagged on the one-token-per-line layout. Non-trivial = text with LF or multi-byte / layout "
                "record where some detector flags something.")
    chk.assumptions = ["solang's public lexer yields the same token boundaries the parser sees",
                       "pragma values are atomic for re-layout (solang lexes everything up to ';' as the value)"]


@prop("C17")
def check_c17(chk, tier):
    _layout_check(chk, tier, "C17")
    # the binary over the directed trees of the pipeline (among them reformatted copies of a file under the same name in
    # sibling directories): the report of the tree is the union of the reports of its files analysed alone
    _pipeline(chk, tier, "C17", [])
    chk.rule = ("Corpus programs (original and with every string literal replaced by code-like text) are lexed, laid out "
                "one token per line to obtain the flag tokens of each of the 30 detectors, then re-laid out with gap "
                "patterns enumerated by TLC (MC_C02_Emit), made injective (every token on its own line) and filled with "
                "line/block comments containing code-like and multi-byte text, CRLF, tabs and blank lines. TV_C02 accepts "
                "a record iff exactly the same tokens are flagged and the lines moved with them. Non-trivial = records "
                "in which some detector flags something.")
    chk.assumptions = ["solang's public lexer yields the same token boundaries the parser sees",
                       "comments adjacent to a pragma value are not generated (they would be part of the value token)"]


# ---------------------------------------------------------------------------
# C11 / C12 / C13 (shared report machinery)
# ---------------------------------------------------------------------------

def _report_check(chk, tier, pid):
    hb = vlib.build_harness("dev")
    d = wdir(pid)
    beh = []
    for cat in ("vulnerabilities", "optimizations", "qa"):
        r = vlib.tlc("MC_Report", "MC_Report.%s.cfg" % cat, workers=8, timeout=1800, tag=pid)
        chk.add_tlc(r)
        beh += r.records.get("REPLAY", [])
    if len(beh) < 1000:
        raise ToolError("MC_Report generated only %d findings maps" % len(beh))
    if tier == "thorough":
        n1 = vlib.tlc("MC_Report", "MC_Report.neg1.cfg", workers=4, timeout=600, expect_violation=True)
        n2 = vlib.tlc("MC_Report", "MC_Report.neg2.cfg", workers=4, timeout=600, expect_violation=True)
        if n1.violated != "Totals" or n2.violated != "Deterministic":
            raise ToolError("negative controls of MC_Report did not fail as expected (%s, %s)" % (n1.violated, n2.violated))
        chk.extra["negative_controls"] = ["LowHeadingAlways violates Totals", "HashOrderEntries violates Deterministic"]
    bpath = os.path.join(d, "behaviours.ndjson")
    vlib.write_ndjson(bpath, beh)
    tpath = os.path.join(d, "trace.ndjson")
    scratch = vlib.scratch_dir(pid)
    try:
        k = {"quick": 8, "thorough": 64}[tier] if pid == "C13" else 1
        rnd = {"quick": 200, "thorough": 2000}[tier]
        res = vlib.harness(hb, ["report-replay", bpath, str(k), str(rnd), tpath], env={"VERIF_SCRATCH": scratch}, timeout=3000)
    finally:
        shutil.rmtree(scratch, ignore_errors=True)
    if pid != "C13":
        # byte-level determinism is C13's subject
        res["violations"] = [v for v in res["violations"] if not v["sig"].startswith("nondeterministic")]
    chk.add_harness(res, count_traces=False)

    def describe(rec, why):
        if rec["k"] == "render":
            sev = ""
            if why in ("heading-iff", "own-severity"):
                present = sorted(set(i["s"] for i in rec["items"] if i["t"] == "Severity"))
                sev = ":" + "+".join(present)
                if why == "heading-iff":
                    have = set(vlib_sev(p) for p in rec["findings"])
                    extra = [s for s in present if s not in have]
                    missing = [s for s in have if s not in present]
                    sev = ":extra=%s:missing=%s" % ("+".join(extra), "+".join(sorted(missing)))
            return ("report:%s:%s%s" % (rec["cat"], why, sev),
                    "the %s report for findings %s read back as %s violates '%s'" % (
                        rec["cat"], json.dumps(rec["findings"])[:300], json.dumps(rec["items"])[:400], why))
        if rec["k"] == "same":
            return ("nondeterministic-items:%s" % rec["cat"], "two renderings of the same findings differ: %s" % json.dumps(rec["findings"])[:300])
        return ("category-part-iff", "category parts present %s but categories with findings %s" % (rec.get("present"), rec.get("nonempty")))
    if pid != "C13":
        # the written file as the BINARY leaves it, with findings in exactly one category / two / all / none: a category
        # part is present iff that category has findings (main() must hand every map to generate_report)
        sb = vlib.build_solstat_bin()
        cat = bindrive.extract_catalogue()
        scratch2 = vlib.scratch_dir(pid + "b")
        extra = []
        try:
            bindrive.make_witness_dir(os.path.join(scratch2, "w"), "W")
            reports = os.path.join(scratch2, "reports")
            os.makedirs(reports)
            combos = [("vulnerabilities",), ("optimizations",), ("qa",), ("vulnerabilities", "qa"), ("optimizations", "qa"),
                      ("vulnerabilities", "optimizations"), ("vulnerabilities", "optimizations", "qa"), ()]
            for ci, combo in enumerate(combos):
                cwd = os.path.join(scratch2, "cwd%d" % ci)
                os.makedirs(cwd)
                with open(os.path.join(cwd, "sel.toml"), "w") as f:
                    f.write('path = "unused"\n')
                    for c in bindrive.CATS:
                        f.write("%s = [%s]\n" % (c, ", ".join(json.dumps(n) for n in (cat[c] if c in combo else []))))
                code, err = bindrive.run_solstat(sb, cwd, ["--path", os.path.join(scratch2, "w"), "--toml", "sel.toml"])
                rp = os.path.join(cwd, "solstat_report.md")
                if code != 0 or not os.path.exists(rp):
                    chk.violate("binary-report:run-failed:%s" % "+".join(combo), "solstat with patterns of %s selected: exit %s, report %s" % (
                        combo, code, "missing" if not os.path.exists(rp) else "present"), {"combo": list(combo), "stderr": err[-200:]})
                    continue
                shutil.copy(rp, os.path.join(reports, "b%02d.md" % ci))
            # ... and with every pattern selected over trees in which only SOME categories have findings (quiet files,
            # nested and empty directories): which parts must be present follows from the per-file results in isolation
            quiet = {"Quiet": "pragma solidity 0.8.17;\ncontract Quiet { }\n",
                     "OnlyOpt": "pragma solidity 0.8.17;\ncontract OnlyOpt { uint256 x; function f() external payable { x++; } }\n",
                     "OnlyVuln": "pragma solidity ^0.8.17;\ncontract OnlyVuln { }\n",
                     "OnlyQa": "pragma solidity 0.8.17;\ncontract OnlyQa { function f() private pure {} }\n",
                     # one vulnerability each (one severity heading each), the deprecated spelling of selfdestruct among them
                     "OnlyHigh": "pragma solidity 0.8.17;\ncontract OnlyHigh { function kill() external { selfdestruct(payable(address(0))); } }\n",
                     "OnlyHighAlias": "pragma solidity 0.4.24;\ncontract OnlyHighAlias { function kill() external { suicide(address(0)); } }\n",
                     "OnlyMedium": "pragma solidity 0.8.17;\ncontract OnlyMedium { function f(uint256 a, uint256 b, uint256 c) external pure returns (uint256) { return a / b * c; } }\n",
                     "OnlyLow": "pragma solidity 0.8.17;\ninterface IL { function approve(address s, uint256 v) external returns (bool); }\n"
                                "contract OnlyLow { function f(IL t) external { t.approve(address(this), 1); } }\n"}
            qruns = []
            has_of = {}
            count_of = {}
            sev_of = {}
            for qi, (qn, text) in enumerate(sorted(quiet.items())):
                iso = os.path.join(scratch2, "iso_%s.sol" % qn)
                with open(iso, "w") as f:
                    f.write(text)
                rr = vlib.harness(hb, ["analyze", iso])["extra"]["results"]
                has = {c: any(isinstance(rr.get(pn), list) and rr.get(pn) for pn in cat[c]) for c in bindrive.CATS}
                count = {c: sum(len(rr.get(pn) or []) for pn in cat[c] if isinstance(rr.get(pn), list)) for c in bindrive.CATS}
                count_of[qn] = count
                sev_of[qn] = sorted(set(vlib_sev(pn) for pn in cat["vulnerabilities"] if isinstance(rr.get(pn), list) and rr.get(pn)))
                for shape in ("flat", "nested", "script", "artifact"):
                    troot = os.path.join(scratch2, "q%d%s" % (qi, shape))
                    where = (troot if shape == "flat" else os.path.join(troot, "script") if shape == "script"
                             else os.path.join(troot, "contracts", "Vault.sol") if shape == "artifact" else os.path.join(troot, "sub", "inner"))
                    os.makedirs(where)
                    # (a forge script X.s.sol is a Solidity source like any other)
                    with open(os.path.join(where, qn + (".s.sol" if shape == "script" else ".sol")), "w") as f:
                        f.write(text)
                    if shape == "script":
                        os.makedirs(os.path.join(troot, "src"))
                        with open(os.path.join(troot, "src", "Quiet.sol"), "w") as f:
                            f.write(quiet["Quiet"])
                    if shape == "nested":
                        os.makedirs(os.path.join(troot, "empty"))
                        os.makedirs(os.path.join(troot, "deep", "empty2"))
                    cwd = os.path.join(scratch2, "qcwd%d%s" % (qi, shape))
                    os.makedirs(cwd)
                    code, err = bindrive.run_solstat(sb, cwd, ["--path", troot])
                    rp = os.path.join(cwd, "solstat_report.md")
                    tag = "q%d%s" % (qi, shape)
                    if code != 0 or not os.path.exists(rp):
                        chk.violate("binary-report:run-failed:%s:%s" % (qn, shape), "solstat over a %s tree holding %s.sol: exit %s, report %s" % (
                            shape, qn, code, "missing" if not os.path.exists(rp) else "present"), {"content": text, "shape": shape, "stderr": err[-200:]})
                        continue
                    shutil.copy(rp, os.path.join(reports, tag + ".md"))
                    if shape == "script":
                        # the tree also holds src/Quiet.sol: its (few, if any) findings count as well
                        if "Quiet" not in has_of:
                            qiso = os.path.join(scratch2, "iso_Quiet_again.sol")
                            with open(qiso, "w") as f:
                                f.write(quiet["Quiet"])
                            qr = vlib.harness(hb, ["analyze", qiso])["extra"]["results"]
                            has_of["Quiet"] = {c: any(isinstance(qr.get(pn), list) and qr.get(pn) for pn in cat[c]) for c in bindrive.CATS}
                        has = {c: has[c] or has_of["Quiet"][c] for c in bindrive.CATS}
                        has_of["QuietCount"] = {c: sum(len(qr.get(pn) or []) for pn in cat[c] if isinstance(qr.get(pn), list)) for c in bindrive.CATS} \
                            if "QuietCount" not in has_of else has_of["QuietCount"]
                    expected = dict(count_of[qn])
                    if shape == "script":
                        expected = {c: expected[c] + has_of["QuietCount"][c] for c in bindrive.CATS}
                    qruns.append((tag, qn, shape, has, expected))
            parsed = bindrive.parse_reports(hb, reports)
            for (tag, qn, shape, has, expected) in qruns:
                p = parsed.get(tag + ".md")
                if p is None:
                    continue
                items = {c: p.get("parts", {}).get(c, []) for c in bindrive.CATS}
                extra.append({"k": "file", "via": "binary", "selected": ["all", qn, shape],
                              "present": {c: bool(items[c]) for c in bindrive.CATS},
                              "nonempty": has, "garbage": bool(p["garbage"]),
                              # findings of the analysed files measured file by file / entries listed / total printed
                              "expected": expected,
                              "entries": {c: sum(1 for it in items[c] if it["t"] == "Entry") for c in bindrive.CATS},
                              "total": {c: next((it["n"] for it in items[c] if it["t"] == "Overview"), -1) for c in bindrive.CATS},
                              # severity headings of the vulnerability part / severities of the findings measured file by file
                              "sev_present": sorted(set(it["s"] for it in items["vulnerabilities"] if it["t"] == "Severity")),
                              "sev_expected": sev_of[qn]})
            for ci, combo in enumerate(combos):
                p = parsed.get("b%02d.md" % ci)
                if p is None:
                    continue
                extra.append({"k": "file", "via": "binary", "selected": list(combo),
                              "present": {c: bool(p.get("parts", {}).get(c)) for c in bindrive.CATS},
                              "nonempty": {c: c in combo for c in bindrive.CATS}, "garbage": bool(p["garbage"])})
        finally:
            shutil.rmtree(scratch2, ignore_errors=True)
        allrecs = vlib.read_ndjson(tpath) + extra
        vlib.write_ndjson(tpath, allrecs)
        chk.evaluations += len(extra)
    if pid == "C13":
        # only the determinism records matter
        recs = [r for r in vlib.read_ndjson(tpath) if r["k"] == "same"]
        vlib.write_ndjson(tpath, recs)
    trace_validate(chk, "TV_Report", tpath, describe, env={"MODE": pid}, timeout=3000)
    if pid == "C13":
        r = vlib.tlc("MC_DirWalk", "MC_DirWalk.quick.cfg", workers=8, timeout=1800, tag="C13")
        chk.add_tlc(r)
        _pipeline(chk, tier, pid, r.records.get("REPLAY", []))
    chk.exhaustive = True


def vlib_sev(p):
    return {"unprotected_selfdestruct": "High", "divide_before_multiply": "Medium",
            "unsafe_erc20_operation": "Low", "floating_pragma": "Low"}.get(p, "none")


_REPORT_RULE = ("TLC runs the renderer machine (outer loop over the map in any order, severity buffers, running total) over "
                "every findings map with <= 4 patterns per category and 6 file/line shapes per pattern (all 16 subsets of "
                "the vulnerability patterns), checking the listed properties and the canonical renderer; every map is built "
                "as the real HashMap (hostile file names) and rendered by the real generate_*_report, plus each pattern "
                "alone, each pair, random large maps and end-to-end generate_report runs; the text is tokenised with "
                "section texts read from /repo and TV_Report evaluates the same predicates on what the code wrote. ")


@prop("C11")
def check_c11(chk, tier):
    _report_check(chk, tier, "C11")
    chk.rule = _REPORT_RULE + "Non-trivial = maps with >= 2 patterns and more files than patterns."
    chk.assumptions = ["section texts are the raw strings in src/report/report_sections/*/*.rs", "file names contain no line break"]


@prop("C12")
def check_c12(chk, tier):
    _report_check(chk, tier, "C12")
    chk.rule = _REPORT_RULE + "Non-trivial = maps with >= 2 patterns and more files than patterns."
    chk.assumptions = ["every pattern present in a findings map has at least one file with at least one line (what analyze_dir produces)"]


@prop("C13")
def check_c13(chk, tier):
    _report_check(chk, tier, "C13")
    chk.rule = _REPORT_RULE + ("For C13 every bag of findings is rendered 1+k times from maps filled in different insertion orders "
                               "(fresh SipHash keys per map) and with permuted file vectors; all renderings must be byte-identical.")
    chk.assumptions = ["two findings maps with the same bag of (pattern, file, lines) entries denote the same set of findings"]


# ---------------------------------------------------------------------------
# C03 / C16 (directory walk)
# ---------------------------------------------------------------------------

def _dir_check(chk, tier, pid):
    hb = vlib.build_harness("dev")
    d = wdir(pid)
    suffix = "quick" if tier == "quick" else "thorough"
    r = vlib.tlc("MC_DirWalk", "MC_DirWalk.%s.cfg" % suffix, workers=8, timeout=3000, tag=pid)
    chk.add_tlc(r)
    beh = r.records.get("REPLAY", [])
    if len(beh) < 1000:
        raise ToolError("MC_DirWalk generated only %d trees" % len(beh))
    if tier == "thorough":
        # more names, two directory names, five pattern selections: model checking only (1.6 M states)
        chk.add_tlc(vlib.tlc("MC_DirWalk", "MC_DirWalk.wide.cfg", workers=12, timeout=3000, xmx="12g", tag=pid))
        neg = vlib.tlc("MC_DirWalk", "MC_DirWalk.neg.cfg", workers=4, timeout=900, expect_violation=True)
        if neg.violated != "UnionHolds":
            raise ToolError("negative control OverwriteOnReturn did not violate UnionHolds")
        chk.extra["negative_controls"] = ["OverwriteOnReturn (HashMap::extend) violates UnionHolds"]
        if len(beh) > 60000:
            step = len(beh) // 60000 + 1
            beh = beh[::step]
    bpath = os.path.join(d, "behaviours.ndjson")
    vlib.write_ndjson(bpath, beh)
    corpus = prepare_corpus(pid)
    tpath = os.path.join(d, "trace.ndjson")
    scratch = vlib.scratch_dir(pid)
    try:
        rnd = {"quick": 150, "thorough": 3000}[tier]
        res = vlib.harness(hb, ["dir-replay", bpath, scratch, "1" if pid == "C16" else "0", corpus, str(rnd), tpath], timeout=3000)
    finally:
        shutil.rmtree(scratch, ignore_errors=True)
    chk.add_harness(res, count_traces=False)
    recs = vlib.read_ndjson(tpath)
    chk.extra["listing_order_as_requested"] = sum(1 for x in recs if x.get("order_respected"))
    chk.extra["trees_run"] = len(recs)

    def describe(rec, why):
        nested = "nested" if any(e["kind"] == "dir" for e in rec["tree"]["entries"]) else "flat"
        return ("dirwalk:%s:%s" % (why, nested),
                "analyze_dir (%s, patterns %s) on tree %s returned %s; per-file results %s (%s)" % (
                    rec["cat"], rec["pats"], json.dumps(rec["tree"])[:500], json.dumps(rec["result"])[:300],
                    json.dumps(rec["res"])[:300], why))
    trace_validate(chk, "TV_DirWalk", tpath, describe, timeout=3000)
    if pid in ("C03", "C16"):
        # binary level: the report of a tree (with its ineligible files and the usual project files around the
        # contracts) is the union of the reports of its eligible files analysed alone
        _pipeline(chk, tier, pid, beh)
    chk.exhaustive = True
    return recs


def _pipeline(chk, tier, pid, beh):
    """Binary level: the report of a tree is the union of the single-file reports (C03) and does not depend on
    listing order, configured pattern order or process (C13)."""
    import pipeline
    hb = vlib.build_harness("dev")
    sb = vlib.build_solstat_bin()
    d = wdir(pid)
    cat = bindrive.extract_catalogue()
    trees = [b["tree"] for b in beh if len(pipeline.eligible_files(b["tree"])) >= 2]
    want = 60 if tier == "quick" else 500
    if len(trees) > want:
        step = len(trees) // want
        trees = trees[vlib.seed() % step::step][:want]
    # directed: files of the SAME byte length with different findings (c5 / c6), next to and below one another -- what is
    # analysed must be the file itself, not something remembered under its size or its position in the listing
    def nm(t):
        return {"text": t, "sol": t.endswith(".sol"), "tsol": t.lower().endswith(".t.sol")}

    def fl(t, c):
        return {"kind": "file", "name": nm(t), "content": c}

    def dr(t, es):
        return {"kind": "dir", "name": nm(t), "tree": {"entries": es}}

    def deep_chain(n):
        node = dr("d%d" % n, [fl("Bottom.sol", "c2")])
        for level in range(n - 1, 0, -1):
            node = dr("d%d" % level, [node] + ([fl("Mid%d.sol" % level, "c5")] if level in (7, 18) else []))
        return node
    trees = [{"entries": [fl("a.sol", "c5"), dr("sub", [fl("b.sol", "c6"), fl("c.sol", "c5")])]},
             {"entries": [dr("one", [fl("Alpha.sol", "c5")]), dr("two", [fl("Beta.sol", "c6")])]},
             {"entries": [fl("x.sol", "c6"), fl("y.sol", "c5"), dr("deep", [dr("er", [fl("z.sol", "c6")])])]},
             # a file whose contracts declare state variables of the same names (c8): what is reported for it is a
             # function of the file, run after run
             {"entries": [fl("Same.sol", "c8"), dr("lib", [fl("Names.sol", "c8"), fl("b.sol", "c5")])]},
             # a file with 160 findings of one pattern in each category (c9)
             {"entries": [fl("Many.sol", "c9"), dr("more", [fl("Many2.sol", "c9"), fl("b.sol", "c6")])]},
             # deeply nested expressions between ordinary findings (c10), listed before and after other files
             {"entries": [fl("A.sol", "c1"), fl("Deep.sol", "c10"), dr("sub", [fl("Deep2.sol", "c10"), fl("Z.sol", "c2")]), fl("Z.sol", "c5")]},
             # a file of free functions, structs and constants only (c12), alone in its directory and next to others
             {"entries": [dr("types", [fl("Free.sol", "c12")]), fl("Other.sol", "c2"), fl("Free2.sol", "c12")]},
             # every pair of vulnerability patterns meets in a run although no file has both: a floating pragma (low) and
             # a selfdestruct (high) in one file, a token call (low) and a division before a multiplication (medium) in another
             {"entries": [fl("Float.sol", "c16"), fl("Erc.sol", "c1")]},
             {"entries": [dr("a", [fl("Erc.sol", "c1")]), dr("b", [fl("Float.sol", "c16")])]},
             # one file declares state variables, another one WRITES variables of the same names (and the reverse)
             {"entries": [fl("A.sol", "c1"), fl("B.sol", "c14"), dr("more", [fl("C.sol", "c15"), fl("D.sol", "c14")])]},
             # large files whose multi-byte characters straddle every block boundary
             {"entries": [fl("Wide0.sol", "w0"), dr("w", [fl("Wide1.sol", "w1"), fl("Wide2.sol", "w2")]), fl("Z.sol", "c2")]},
             # several findings of one pattern inside one declaration (c11)
             {"entries": [fl("Wrapped.sol", "c11"), dr("again", [fl("Wrapped.sol", "c11"), fl("a.sol", "c5")])]},
             # a reformatted copy of a file under the same name elsewhere in the tree (vendored code): its lines are its own
             {"entries": [dr("lib", [fl("Token.sol", "c1"), fl("Other.sol", "c2r")]), dr("vendor", [fl("Token.sol", "c1r"), fl("Other.sol", "c2")])]},
             # entries whose names differ in letter case only (files and directories): different entries all the same
             {"entries": [fl("Token.sol", "c5"), fl("token.sol", "c6"), fl("TOKEN.sol", "c1"), dr("Lib", [fl("a.sol", "c1")]), dr("lib", [fl("A.sol", "c2")])]},
             # nothing to report at all: the (empty) report is written all the same, over whatever was there
             {"entries": [fl("Empty.sol", "c3"), dr("sub", [fl("Empty2.sol", "c3")])]},
             # an eligible file thirty directories down, others on the way
             {"entries": [fl("Top.sol", "c1"), deep_chain(30)]}] + trees
    recs = pipeline.run_trees(chk, hb, sb, trees, cat, d)
    if not recs:
        raise ToolError("no pipeline runs")
    ppath = os.path.join(d, "trace-pipeline.ndjson")
    vlib.write_ndjson(ppath, recs)
    chk.evaluations += len(recs)
    chk.nontrivial += sum(1 for x in recs if x["listing_differs"])
    chk.extra["pipeline_trees"] = len(recs)
    chk.extra["pipeline_trees_listed_in_two_orders"] = sum(1 for x in recs if x["listing_differs"])

    def describe(rec, why):
        return ("pipeline:%s" % why, "solstat on tree %s: %s" % (json.dumps(rec["tree"])[:400], why))
    trace_validate(chk, "TV_Pipeline", ppath, describe, timeout=3000)


@prop("C03")
def check_c03(chk, tier):
    _dir_check(chk, tier, "C03")
    chk.rule = ("TLC runs the explicit-stack directory-walk machine over every tree with <= 2 top-level entries, "
                "sub-directories of <= 2 files (thorough: more names, one deeper level), every listing order, eligible and "
                "ineligible names, 3 contents with overlapping pattern sets and several ordered pattern selections, checking "
                "the exact union; each tree is created on tmpfs (creation history chosen so that the listing order is the "
                "generated one; the order actually listed is observed and recorded), the real analyze_dir of a rotating "
                "category is run, per-file results are measured with the per-file API, and TV_DirWalk accepts the run iff the "
                "returned map is exactly the specified union (as bags). Plus random trees (depth <= 3, <= 25 files from the "
                "corpus, all patterns). Non-trivial = trees with >= 2 files and >= 1 sub-directory.")
    chk.assumptions = ["Res is measured with analyze_for_* of the same build, as the statement defines the right-hand side"]


@prop("C16")
def check_c16(chk, tier):
    _dir_check(chk, tier, "C16")
    chk.rule = ("As C03, with ineligible files (Foundry tests in any letter case, other extensions, upper-case .SOL, "
                "extension-less and hidden names) filled with unparseable Solidity, NUL bytes, invalid UTF-8 or nothing; "
                "every tree is analysed twice by the real analyze_dir -- as is, and as a copy without the ineligible files -- "
                "and TV_DirWalk accepts iff both results equal the union over the eligible files. A panic is a violation.")
    chk.assumptions = ["file names that contain '.t.sol' not at the end but end in '.sol' are not generated (the statement does not classify them)"]


# ---------------------------------------------------------------------------
# C15 (independence: schedules, sequences, siblings)
# ---------------------------------------------------------------------------

@prop("C15")
def check_c15(chk, tier):
    hb = vlib.build_harness("dev")
    d = wdir("C15")
    cfgs = ["t2c2", "t3c1", "t1c4"] + (["t3c2"] if tier == "thorough" else [])
    sched = []
    for c in cfgs:
        r = vlib.tlc("MC_Calls", "MC_Calls.%s.cfg" % c, workers=4, timeout=1800, tag="C15")
        chk.add_tlc(r)
        sched += r.records.get("REPLAY", [])
    if len(sched) < 100:
        raise ToolError("MC_Calls generated only %d schedules" % len(sched))
    neg = vlib.tlc("MC_Calls", "MC_Calls.neg.cfg", workers=2, timeout=300, expect_violation=True)
    if neg.violated != "Isolated":
        raise ToolError("negative control SharedScratch did not violate Isolated")
    chk.extra["negative_controls"] = ["SharedScratch (hidden static buffer) violates Isolated under some interleavings"]
    if tier == "thorough" and len(sched) > 6000:
        sched = sched[:200] + sched[200::(len(sched) // 5800 + 1)]
    spath = os.path.join(d, "schedules.ndjson")
    vlib.write_ndjson(spath, sched)
    corpus = prepare_corpus("C15")
    nfiles = "12" if tier == "quick" else "40"
    bpath = os.path.join(d, "baseline.json")
    # the baseline comes from its own fresh process
    chk.add_harness(vlib.harness(hb, ["c15-baseline", corpus, nfiles, bpath]), count_traces=False)
    tpath = os.path.join(d, "trace.ndjson")
    res = vlib.harness(hb, ["c15-run", spath, corpus, nfiles, bpath, "1" if tier == "quick" else "3", tpath], timeout=3000)
    chk.add_harness(res, count_traces=False)

    def describe(rec, why):
        return ("call-not-isolated:%s:%s" % (rec["k"], why),
                "a call of %s returned a result different from the isolated baseline (history %s)" % (why, json.dumps(rec["history"])[:200]))
    trace_validate(chk, "TV_Calls", tpath, describe, env={"BASELINE": bpath}, timeout=3000)
    # (iii) siblings, position, co-selected patterns: random directory trees validated against isolated per-file results
    scratch = vlib.scratch_dir("C15")
    try:
        t2 = os.path.join(d, "trace-dirs.ndjson")
        res2 = vlib.harness(hb, ["dir-replay", "-", scratch, "0", corpus, "150" if tier == "quick" else "2000", t2], timeout=3000)
    finally:
        shutil.rmtree(scratch, ignore_errors=True)
    chk.add_harness(res2, count_traces=False)

    def describe2(rec, why):
        return ("dir-verdict-depends-on-context:%s" % why, "analyze_dir result differs from the isolated per-file results (%s): %s" % (why, json.dumps(rec["result"])[:300]))
    trace_validate(chk, "TV_DirWalk", t2, describe2, timeout=3000)
    # at the report: what is listed for a file in a run over a tree is what is listed for it in a run over it alone
    _pipeline(chk, tier, "C15", [])
    chk.exhaustive = True
    chk.rule = ("TLC enumerates every Begin/End interleaving of 2 threads x 2 calls, 3 threads x 1 call (thorough: 3 x 2) "
                "of the caller model; each schedule is enforced on real threads calling the real analyze_for_* (turn tokens "
                "order the Begins and Ends, the computations overlap), with calls sharing file and/or detector in varying ways; "
                "all ordered detector pairs are run sequentially on the same and on different files; every result must equal "
                "the baseline obtained in a separate fresh process (TV_Calls). Random directory trees with random co-selected "
                "pattern lists and siblings are validated against isolated per-file results (TV_DirWalk). Non-trivial = "
                "multi-thread schedules.")
    chk.assumptions = ["interleavings are controlled at call boundaries only"]


# ---------------------------------------------------------------------------
# C14 (configuration) -- the real binary
# ---------------------------------------------------------------------------
import bindrive  # noqa: E402


def _c14_execute(hb, sb, inputs):
    """Runs the real binary on every input [{"input": inp}] in a scratch working directory; records for TV_Config."""
    scratch = vlib.scratch_dir("C14")
    recs = []
    try:
        cwd = os.path.join(scratch, "cwd")
        os.makedirs(cwd)
        pdir = "P,v2"          # the directory named on the command line ("P" in the model) has a comma in its name
        bindrive.make_witness_dir(os.path.join(cwd, pdir), "P")
        # the directory a configuration file names ("T" in the model) is concretely called `~T`: a relative name that starts
        # with a character shells treat specially is a name like any other for a path read from a file or an argument
        tdir = "~T"
        bindrive.make_witness_dir(os.path.join(cwd, tdir), "T")
        for furnished in (cwd, os.path.join(cwd, pdir), os.path.join(cwd, tdir)):
            bindrive.furnish(furnished)
        reports = os.path.join(scratch, "reports")
        os.makedirs(reports)
        sentinel = "SENTINEL previous report\n"
        rpath = os.path.join(cwd, "solstat_report.md")
        cdir = os.path.join(cwd, "contracts")
        for i, rec in enumerate(inputs):
            inp = rec["input"]
            if inp["contracts"] and not os.path.isdir(cdir):
                bindrive.make_witness_dir(cdir, "C")
                bindrive.furnish(cdir)
            if not inp["contracts"] and os.path.isdir(cdir):
                shutil.rmtree(cdir)
            stale = (i % 2 == 1)
            if os.path.exists(rpath):
                os.remove(rpath)
            if stale:
                with open(rpath, "w") as f:
                    f.write(sentinel)
            if inp["toml"]:
                with open(os.path.join(cwd, "cfg.toml"), "w") as f:
                    f.write(bindrive.toml_text(inp["toml"][0], tdir if inp["toml"][0]["path"] == "T" else inp["toml"][0]["path"]))
            # every equivalent spelling of the two options (--path X, -p X, --path=X, -pX, either order)
            args = bindrive.spell_args(pdir if inp["flag"] == "P" else inp["flag"], "cfg.toml" if inp["toml"] else "", inp)
            code, err = bindrive.run_solstat(sb, cwd, args)
            written = os.path.exists(rpath) and open(rpath, errors="replace").read() != sentinel
            if written:
                shutil.copy(rpath, os.path.join(reports, "r%05d.md" % i))
            recs.append({"k": "run", "input": inp, "args": args, "stale": stale,
                         "obs": {"exit": code, "report_written": written, "dirs": [], "sections": {c: [] for c in bindrive.CATS}},
                         "stderr": err[-200:]})
        parsed = bindrive.parse_reports(hb, reports)
        for i, rc in enumerate(recs):
            p = parsed.get("r%05d.md" % i)
            if p:
                secs, files = bindrive.sections_of(p)
                rc["obs"]["sections"] = secs
                dirs = sorted(set({"P": "P", "T": "T", "C": "./contracts"}.get(f.split("_")[0], "?" + f) for f in files))
                rc["obs"]["dirs"] = dirs
                rc["obs"]["garbage"] = p["garbage"]
    finally:
        shutil.rmtree(scratch, ignore_errors=True)
    return recs


def _named_runs(chk, hb, sb, d, cat):
    """A documented name selects THE pattern the documentation describes under that name: the binary is run once per
    documented name with a configuration naming only it, over a directory of hand-written files; the lines listed under
    the name's section for each file must lie between MustLines and MayLines (Patterns.tla) of that pattern on the
    projected tree of the file (TV_Patterns) -- not merely be whatever the code computes for the name."""
    scratch = vlib.scratch_dir("C14n")
    try:
        src = os.path.join(scratch, "src")
        os.makedirs(src)
        for f in sorted(os.listdir(bindrive.WITNESS)):
            shutil.copy(os.path.join(bindrive.WITNESS, f), os.path.join(src, "W_" + f))
        for f in ("syntax_rich.sol", "type_shapes.sol", "try_shapes.sol", "strings_new.sol", "strings_old.sol", "range_pragma.sol",
                  "unnamed_fns.sol", "multibyte_items.sol"):
            if os.path.exists(os.path.join(ROOT, "corpus", f)):
                shutil.copy(os.path.join(ROOT, "corpus", f), os.path.join(src, "H_" + f))
        # a file with a pinned pragma and not a single caret in its text that has vulnerability findings all the same
        shutil.copy(os.path.join(ROOT, "corpus", "dirwalk", "c1.sol"), os.path.join(src, "D_c1.sol"))
        tpath = os.path.join(d, "trace-named.ndjson")
        xpath = os.path.join(d, "texts-named.ndjson")
        chk.add_harness(vlib.harness(hb, ["detect-record", src, "-", tpath, xpath]), count_traces=False)
        recs = vlib.read_ndjson(tpath)
        texts = vlib.read_ndjson(xpath)
        reports = os.path.join(scratch, "reports")
        os.makedirs(reports)
        names = [(c, n) for c in bindrive.CATS for n in cat[c]]
        for i, (c, n) in enumerate(names):
            cwd = os.path.join(scratch, "cwd%02d" % i)
            os.makedirs(cwd)
            with open(os.path.join(cwd, "one.toml"), "w") as f:
                f.write('path = "unused"\n')
                for cc in bindrive.CATS:
                    # every second name in upper case: casing does not matter
                    f.write("%s = [%s]\n" % (cc, json.dumps(n.upper() if i % 2 else n) if cc == c else ""))
            code, err = bindrive.run_solstat(sb, cwd, bindrive.spell_args(src, "one.toml", [c, n]))
            rp = os.path.join(cwd, "solstat_report.md")
            if code != 0 or not os.path.exists(rp):
                chk.violate("named-run-failed:%s" % n, "solstat with only %s selected: exit %s, report %s" % (
                    n, code, "present" if os.path.exists(rp) else "missing"), {"pattern": n, "stderr": err[-200:]})
                continue
            shutil.copy(rp, os.path.join(reports, "n%02d.md" % i))
        parsed = bindrive.parse_reports(hb, reports)
        listed = {}    # pattern -> file -> lines
        for i, (c, n) in enumerate(names):
            pr = parsed.get("n%02d.md" % i)
            if pr is None:
                continue
            listed[n] = {}
            cur = None
            for cc in bindrive.CATS:
                for it in pr.get("parts", {}).get(cc, []):
                    if it["t"] == "Section":
                        cur = it["p"]
                    elif it["t"] == "Entry" and cur is not None:
                        # an entry under ANOTHER pattern's section than the one named is attributed to the named one:
                        # it is what the name selected
                        listed[n].setdefault(it["f"], []).append(it["l"])
        base = [dict(r) for r in recs]
        for r in recs:
            r["results"] = {n: sorted(set(listed[n].get(r["src"], []))) for n in listed if n in r["results"]}
            r["entry"] = "binary:one-name-per-run"
        # ... and two names per run, in both orders: every ordered pair of vulnerability and of qa names, a rotating
        # sample of the pairs of optimization names -- what is listed under each name's section is that pattern's again
        pairs = []
        for c in bindrive.CATS:
            ns = cat[c]
            allp = [(a, b) for a in ns for b in ns if a != b]
            if c == "optimizations":
                allp = [pq for k, pq in enumerate(allp) if k % 17 == vlib.seed() % 17]
            pairs += [(c, a, b) for (a, b) in allp]
        preports = os.path.join(scratch, "preports")
        os.makedirs(preports)
        for i, (c, a, b) in enumerate(pairs):
            cwd = os.path.join(scratch, "pcwd%03d" % i)
            os.makedirs(cwd)
            with open(os.path.join(cwd, "two.toml"), "w") as f:
                f.write('path = "unused"\n')
                for cc in bindrive.CATS:
                    f.write("%s = [%s]\n" % (cc, ", ".join(json.dumps(x) for x in (a, b)) if cc == c else ""))
            code, err = bindrive.run_solstat(sb, cwd, bindrive.spell_args(src, "two.toml", [c, a, b]))
            rp = os.path.join(cwd, "solstat_report.md")
            if code != 0 or not os.path.exists(rp):
                chk.violate("named-run-failed:%s+%s" % (a, b), "solstat with %s and %s selected: exit %s, report %s" % (
                    a, b, code, "present" if os.path.exists(rp) else "missing"), {"patterns": [a, b], "stderr": err[-200:]})
                continue
            shutil.copy(rp, os.path.join(preports, "p%03d.md" % i))
        pparsed = bindrive.parse_reports(hb, preports)
        for i, (c, a, b) in enumerate(pairs):
            pr = pparsed.get("p%03d.md" % i)
            if pr is None:
                continue
            got = {a: {}, b: {}}
            cur = None
            for cc in bindrive.CATS:
                for it in pr.get("parts", {}).get(cc, []):
                    if it["t"] == "Section":
                        cur = it["p"]
                    elif it["t"] == "Entry" and cur in got:
                        got[cur].setdefault(it["f"], []).append(it["l"])
                    elif it["t"] == "Entry":
                        # an entry under a section that was not selected at all counts against the first name
                        got[a].setdefault(it["f"], []).append(it["l"])
            for r0 in base:
                if a in r0["results"] and b in r0["results"]:
                    r2 = dict(r0)
                    r2["src"] = r0["src"]
                    r2["results"] = {a: sorted(set(got[a].get(r0["src"], []))), b: sorted(set(got[b].get(r0["src"], [])))}
                    r2["entry"] = "binary:%s-before-%s" % (a, b)
                    recs.append(r2)
        vlib.write_ndjson(tpath, recs)
        chk.evaluations += len(base) * (len(names) + 2 * len(pairs))

        def describe(rec, why):
            det, verdict = why.split(":")
            return ("named-pattern:%s:%s" % (det, verdict),
                    "run %s: the report lists lines %s under %s for %s: not what the pattern documented under that name flags" % (
                        rec.get("entry"), rec["results"].get(det), det, rec["src"]), {"detector": det})
        trace_validate(chk, "TV_Patterns", tpath, describe, env={"MODE": "ALL"}, timeout=1800)
    finally:
        shutil.rmtree(scratch, ignore_errors=True)


@prop("C14")
def check_c14(chk, tier):
    hb = vlib.build_harness("dev")
    sb = vlib.build_solstat_bin()
    d = wdir("C14")
    cat = bindrive.extract_catalogue()
    cpath = os.path.join(d, "catalogue.json")
    with open(cpath, "w") as f:
        json.dump(cat, f)
    chk.extra["catalogue"] = cat
    suffix = "quick" if tier == "quick" else "thorough"
    r = vlib.tlc("MC_Config", "MC_Config.%s.cfg" % suffix, workers=8, timeout=1800, env={"CATALOGUE": cpath})
    chk.add_tlc(r)
    inputs = r.records.get("REPLAY", [])
    if len(inputs) < 100:
        raise ToolError("MC_Config generated only %d inputs" % len(inputs))
    recs = _c14_execute(hb, sb, inputs)
    names = vlib.harness(hb, ["names-check", cpath])
    chk.add_harness(names, count_traces=False)
    recs.append(names["extra"]["names_record"])
    chk.extra.pop("names_record", None)
    tpath = os.path.join(d, "trace.ndjson")
    vlib.write_ndjson(tpath, recs)
    chk.evaluations += len(recs)
    chk.nontrivial += sum(1 for x in recs if x.get("k") == "run" and x["input"]["toml"])
    chk.samples.append(recs[len(recs) // 2])

    def describe(rec, why):
        if rec["k"] == "names":
            return ("names:%s:%s" % (why, json.dumps(rec.get("unresolved") or rec.get("collisions") or rec.get("defaults_without_name"))[:120]),
                    "name tables vs documentation: unresolved=%s collisions=%s defaults without a documented name=%s" % (
                        rec["unresolved"], rec["collisions"], rec["defaults_without_name"]))
        inp = rec["input"]
        detail = ""
        if why == "wrong-directory":
            detail = ":flag=%s:toml=%s:got=%s" % (bool(inp["flag"]), bool(inp["toml"]), "+".join(rec["obs"]["dirs"]))
        elif why == "documented-input-rejected":
            m = re.search(r"Unrecgoni[sz]ed \w+: (\S*)", rec.get("stderr", ""))
            detail = ":" + (m.group(1) if m else ("toml-without-contracts" if inp["toml"] and not inp["contracts"] else "other"))
        elif why in ("unknown-name-accepted", "wrong-patterns") and inp["toml"]:
            t = inp["toml"][0]
            names = [n["base"] for c in bindrive.CATS for n in t[c]]
            detail = ":" + ",".join(names[:2])
        return ("config:%s%s" % (why, detail),
                "solstat %s with input %s: exit=%s report_written=%s dirs=%s sections=%s" % (
                    " ".join(rec["args"]), json.dumps(inp)[:300], rec["obs"]["exit"], rec["obs"]["report_written"],
                    rec["obs"]["dirs"], json.dumps(rec["obs"]["sections"])[:300]))
    trace_validate(chk, "TV_Config", tpath, describe, env={"CATALOGUE": cpath}, timeout=1800)
    # the whole run (Solstat.tla): options -> three walks -> report, on nested directories, with duplicate-free lists in
    # any order, empty lists, a missing directory and a stale report; outcome = SolstatRun!Outcome
    import system
    srecs, wpath = system.run(chk, hb, sb, d, tier)
    spath = os.path.join(d, "trace-system.ndjson")
    vlib.write_ndjson(spath, srecs)
    chk.evaluations += len(srecs)
    chk.nontrivial += sum(1 for x in srecs if x["inp"]["toml"])

    def describe_sys(rec, why):
        inp = rec["inp"]
        t = inp["toml"][0] if inp["toml"] else None
        shape = "flag=%s:toml=%s" % (inp["flag"] or "-", "-" if not t else "%s/%d,%d,%d" % (
            t["path"], len(t["vulnerabilities"]), len(t["optimizations"]), len(t["qa"])))
        return ("system:%s:%s" % (why, shape),
                "solstat %s (input %s, report before: %s): exit=%s changed=%s report=%s" % (
                    " ".join(rec["args"]), json.dumps(inp)[:300], rec["rep0"], rec["obs"]["exit"], rec["obs"]["changed"],
                    json.dumps(rec["obs"]["report"])[:300]))
    trace_validate(chk, "TV_Solstat", spath, describe_sys, env={"WORLD": wpath}, timeout=1800)
    _named_runs(chk, hb, sb, d, cat)
    chk.exhaustive = True
    chk.rule = ("The catalogue of documented names is extracted from docs/identified-*.md and Solstat.toml in /repo at check "
                "time. TLC runs the option-resolution machine over every input of the family (--path present/absent x --toml "
                "absent / single name in 4 casings / adjacent pairs in both orders / full lists / 7 kinds of unknown name at "
                "either position x ./contracts present/absent) and checks abort-iff, abort-before-write and directory "
                "precedence; the real binary is run on each input in a scratch cwd with three witness directories whose file "
                "names identify them and whose contents trigger all 30 patterns; exit status, report presence (also against a "
                "stale sentinel report), directory identity and the sections read back are validated by TV_Config; the name "
                "tables are checked directly for injectivity and coverage of the defaults. Whole runs: TLC checks the run machine "
                "Solstat.tla (options -> walk x 3 -> report) against SolstatRun!Outcome on a small world and prints every input "
                "(4 --path values x 226 configurations x ./contracts present/absent x report absent/stale); the binary is run on "
                "each (quick: a stride sample) over nested directories and TV_Solstat accepts a run iff exit status, touched "
                "paths and the entries read back equal Outcome evaluated on the real catalogue and isolated per-file results. "
                "Non-trivial = runs with a toml.")
    chk.assumptions = ["the witness contracts make every pattern report at least one line (checked: a missing section is reported as wrong-patterns)"]


# ---------------------------------------------------------------------------
# C18 (file-system effects) -- the real binary
# ---------------------------------------------------------------------------

def _c18_describe(rec, why):
    return ("runfs:%s:cwd=%s:via=%s:stale=%s" % (why, rec["cwd"], rec["via"], rec["stale"]),
            "run %d of history %s (initial report files %s): exit=%s changed=%s report_is_clean=%s" % (
                rec["step"], rec["history"], rec["init"], rec["obs"]["exit"], rec["obs"]["changed"], rec["obs"]["report_is_clean"]))


def _c18_execute(chk, sb, hist):
    """Executes histories of runs of the real binary on a scratch tree; returns the records for TV_RunFs."""
    scratch = vlib.scratch_dir("C18")
    recs = []
    try:
        root = os.path.join(scratch, "root")
        proj = os.path.join(root, "proj")
        os.makedirs(root)
        bindrive.make_witness_dir(proj, "W")
        inner = os.path.join(proj, "inner")
        os.makedirs(inner)
        shutil.copy(os.path.join(ROOT, "corpus", "packing.sol"), os.path.join(inner, "Deep.sol"))
        # a flattened source (several version pragmas, directives after definitions) and odd-but-valid inputs: nothing an
        # analysed file contains may make the run leave anything else behind
        shutil.copy(os.path.join(ROOT, "corpus", "flattened.sol"), os.path.join(proj, "Flat.sol"))
        shutil.copy(os.path.join(ROOT, "corpus", "unicode_idents.sol"), os.path.join(inner, "Ünï.sol"))
        with open(os.path.join(inner, "Broken.t.sol"), "wb") as f:
            f.write(b"contract Broken { function (")
        # rarely used but valid syntax: an annotated inline assembly block, a unicode string, a user-defined operator-free type
        with open(os.path.join(proj, "Asm.sol"), "wb") as f:
            f.write(b'pragma solidity 0.8.17;\ncontract Asm {\n    function f(uint256 x) external pure returns (uint256 r) {\n'
                    b'        assembly ("memory-safe") { r := add(x, 1) }\n        assembly { r := mul(r, 2) }\n    }\n}\n')
        # build output next to the sources: directories that are called like a contract (Foundry's out/Counter.sol/,
        # Hardhat's artifacts/.../Token.sol/), dotted directory names
        art = os.path.join(proj, "out", "Counter.sol")
        os.makedirs(art)
        with open(os.path.join(art, "Counter.json"), "wb") as f:
            f.write(b'{"abi": [], "bytecode": "0x60"}')
        shutil.copy(os.path.join(ROOT, "corpus", "strings_new.sol"), os.path.join(art, "Impl.sol"))
        os.makedirs(os.path.join(proj, "v0.8", "Empty.sol"))
        with open(os.path.join(proj, "notes.txt"), "wb") as f:
            f.write(b"\x00\xff not solidity")
        os.makedirs(os.path.join(root, "other"))
        # version control and tool configuration files in every working directory and in the analysed tree
        for furnished in (proj, root, os.path.join(root, "other")):
            bindrive.furnish(furnished)
        # the sub-directory is a working directory below the project root: no project configuration of its own
        bindrive.furnish(inner, markers=False)
        cwds = {"in": proj, "parent": root, "sub": inner, "other": os.path.join(root, "other")}
        pathof = {"in": ".", "parent": "proj", "sub": "..", "other": proj}
        one_toml = os.path.join(root, "one.toml")
        with open(one_toml, "w") as f:
            f.write('path = "unused"\noptimizations = ["sstore"]\nvulnerabilities = []\nqa = []\n')

        none_toml = os.path.join(root, "none.toml")
        with open(none_toml, "w") as f:
            f.write('path = "unused"\noptimizations = []\nvulnerabilities = []\nqa = []\n')

        # the default directory ./contracts exists only below "other"
        bindrive.make_witness_dir(os.path.join(cwds["other"], "contracts"), "D")
        # configuration files that also name the directory live in a directory of their own
        cfgdir = os.path.join(root, "cfg")
        os.makedirs(cfgdir)
        cat = bindrive.extract_catalogue()
        names = {"full": cat, "one": {"optimizations": ["sstore"], "vulnerabilities": [], "qa": []},
                 "none": {"optimizations": [], "vulnerabilities": [], "qa": []}}
        # (the directory is named by its absolute path: what a relative path in a configuration file is relative to
        # is not fixed by the property)
        for mode in names:
            with open(os.path.join(cfgdir, "%s.toml" % mode), "w") as f:
                f.write("path = %s\n" % json.dumps(proj))
                for k in ("optimizations", "vulnerabilities", "qa"):
                    f.write("%s = [%s]\n" % (k, ", ".join(json.dumps(n) for n in names[mode][k])))

        def argsof(c, mode, via="flag"):
            if via == "default":
                return []
            if via == "toml":
                # relative spelling from two of the working directories, absolute from the others
                rel = {"other": os.path.join("..", "cfg"), "parent": "cfg"}.get(c, cfgdir)
                return ["--toml", os.path.join(rel, "%s.toml" % mode)]
            a = ["--path", pathof[c]]
            if mode == "one":
                a += ["--toml", one_toml]
            if mode == "none":
                a += ["--toml", none_toml]
            return a
        # the clean reports: R (all patterns), R1 (one pattern), R0 (none), RD (all patterns on ./contracts)
        clean = {}
        rfile = os.path.join(cwds["other"], "solstat_report.md")
        for mode, via in (("full", "flag"), ("one", "flag"), ("none", "flag"), ("full", "toml"), ("one", "toml"), ("none", "toml"), ("full", "default")):
            code, err = bindrive.run_solstat(sb, cwds["other"], argsof("other", mode, via))
            if code != 0:
                # a run on a valid tree from a clean working directory that does not exit 0 is an observation like any
                # other (RunFs!RunAllowed rejects it); without the clean reports the histories cannot be judged
                recs.append({"k": "run", "cwd": "other", "mode": mode, "via": via, "step": 1, "init": {c: "absent" for c in cwds},
                             "history": [["other", mode, via]], "stale": "absent", "stderr": err[-200:],
                             "obs": {"exit": code, "changed": [], "report_is_clean": False,
                                     "report_path": os.path.relpath(rfile, root)}})
                return recs
            if not os.path.exists(rfile):
                # a successful run from a clean directory must create the report, even an empty one
                chk.violate("runfs:no-report-created:mode=%s:via=%s" % (mode, via),
                            "solstat %s in a working directory without a report exits 0 but leaves no solstat_report.md there" % " ".join(argsof("other", mode, via)),
                            {"args": argsof("other", mode, via), "cwd": "other", "mode": mode, "via": via})
                clean[(mode, via)] = clean.get((mode, "flag"), b"")
                for stray, _dirs, files in os.walk(root):
                    if "solstat_report.md" in files:
                        os.remove(os.path.join(stray, "solstat_report.md"))
                continue
            clean[(mode, via)] = open(rfile, "rb").read()
            os.remove(rfile)
        # RunFs!ReportOf: the report does not depend on how directory and patterns were named
        for mode in ("full", "one", "none"):
            if clean[(mode, "toml")] != clean[(mode, "flag")]:
                chk.violate("runfs:report-depends-on-naming:mode=%s" % mode,
                            "the same directory and patterns named by --toml alone and by --path [--toml] give different reports from a clean state",
                            {"mode": mode, "args_flag": argsof("other", mode, "flag"), "args_toml": argsof("other", mode, "toml")})
        clean = {"full": clean[("full", "flag")], "one": clean[("one", "flag")], "none": clean[("none", "flag")], "default": clean[("full", "default")]}
        if clean["full"] == clean["one"] or not clean["one"] or clean["default"] == clean["full"]:
            raise ToolError("the restricted runs do not produce distinguishable reports")
        stale = {"junk": b"previous junk\n", "R": clean["full"], "long": clean["full"] + b"\n" + clean["full"],
                 "sol": b"pragma solidity ^0.4.0;\ncontract X { function f() public { x++; selfdestruct(msg.sender); } }\n"}
        for h in hist:
            for c, p in cwds.items():
                rp = os.path.join(p, "solstat_report.md")
                if os.path.exists(rp):
                    os.remove(rp)
                kind = h["init"][c]
                if kind == "samelen":
                    # other content of exactly the length of the report the first run in this directory will write
                    first = next(((m, v) for (cc, m, v) in h["history"] if cc == c), None)
                    target = clean["default" if first and first[1] == "default" else (first[0] if first else "full")]
                    data = bytes((b ^ 1) if chr(b).isalnum() else b for b in target)
                    if data and data != target:
                        with open(rp, "wb") as f:
                            f.write(data)
                elif kind != "absent":
                    with open(rp, "wb") as f:
                        f.write(stale[kind])
            visited = set()
            for step_no, (c, mode, via) in enumerate(h["history"]):
                before = bindrive.snapshot(root)
                code, err = bindrive.run_solstat(sb, cwds[c], argsof(c, mode, via))
                after = bindrive.snapshot(root)
                changed = sorted(p for p in set(before) | set(after) if before.get(p) != after.get(p))
                rp = os.path.relpath(os.path.join(cwds[c], "solstat_report.md"), root)
                full = os.path.join(root, rp)
                is_clean = os.path.exists(full) and open(full, "rb").read() == clean["default" if via == "default" else mode]
                recs.append({"k": "run", "cwd": c, "mode": mode, "via": via, "step": step_no + 1, "init": h["init"], "history": h["history"],
                             "stale": h["init"][c] if c not in visited else "previous-run",
                             "obs": {"exit": code, "changed": changed, "report_is_clean": is_clean, "report_path": rp}})
                visited.add(c)
    finally:
        shutil.rmtree(scratch, ignore_errors=True)
    return recs


def _c18_bulk(sb):
    """One large run (70 files with 160 findings of six patterns each: a report of more than a megabyte): from a clean
    unrelated directory (the reference), inside the analysed tree, and there once more over the report just written."""
    scratch = vlib.scratch_dir("C18b")
    recs = []
    try:
        root = os.path.join(scratch, "root")
        proj = os.path.join(root, "proj")
        other = os.path.join(root, "other")
        os.makedirs(os.path.join(proj, "more", "still"))
        os.makedirs(other)
        text = open(os.path.join(ROOT, "corpus", "dirwalk", "c9.sol"), "rb").read()
        for i in range(70):
            where = proj if i < 40 else os.path.join(proj, "more") if i < 60 else os.path.join(proj, "more", "still")
            with open(os.path.join(where, "Bulk%02d.sol" % i), "wb") as f:
                f.write(text)
        bindrive.furnish(proj)
        bindrive.furnish(other)
        init = {"in": "absent", "parent": "absent", "sub": "absent", "other": "absent"}
        hist = [["other", "full", "flag"], ["in", "full", "flag"], ["in", "full", "flag"]]
        clean = None
        for step, (c, _mode, _via) in enumerate(hist):
            cwd, path = (other, proj) if c == "other" else (proj, ".")
            before = bindrive.snapshot(root)
            code, err = bindrive.run_solstat(sb, cwd, ["--path", path], timeout=600)
            after = bindrive.snapshot(root)
            changed = sorted(p for p in set(before) | set(after) if before.get(p) != after.get(p))
            rp = os.path.relpath(os.path.join(cwd, "solstat_report.md"), root)
            data = open(os.path.join(root, rp), "rb").read() if os.path.exists(os.path.join(root, rp)) else None
            if step == 0:
                clean = data
            recs.append({"k": "run", "cwd": c, "mode": "full", "via": "flag", "step": step + 1, "init": init, "history": hist,
                         "stale": "absent" if step < 2 else "previous-run", "bulk_report_bytes": len(data or b""), "stderr": err[-200:],
                         "obs": {"exit": code, "changed": changed, "report_path": rp,
                                 "report_is_clean": data is not None and data == clean and len(data) > 1000000}})
    finally:
        shutil.rmtree(scratch, ignore_errors=True)
    return recs


@prop("C18")
def check_c18(chk, tier):
    hb = vlib.build_harness("dev")
    sb = vlib.build_solstat_bin()
    d = wdir("C18")
    suffix = "quick" if tier == "quick" else "thorough"
    r = vlib.tlc("MC_RunFs", "MC_RunFs.%s.cfg" % suffix, workers=4, timeout=1800)
    chk.add_tlc(r)
    hist = r.records.get("REPLAY", [])
    if len(hist) < 500:
        raise ToolError("MC_RunFs generated only %d histories" % len(hist))
    for neg, inv in (("neg1", "AppendMode"), ("neg2", "ReadsStale")):
        n = vlib.tlc("MC_RunFs", "MC_RunFs.%s.cfg" % neg, workers=2, timeout=300, expect_violation=True)
        if n.violated != "Overwrite":
            raise ToolError("negative control %s did not violate Overwrite" % inv)
    chk.extra["negative_controls"] = ["AppendMode violates Overwrite", "ReadsStale violates Overwrite"]
    cap = 800 if tier == "quick" else 6000
    if len(hist) > cap + 100:
        hist = sorted(hist, key=lambda h: json.dumps(h, sort_keys=True))
        step = len(hist) // cap
        hist = hist[vlib.seed() % step::step]
    chk.extra["histories_run"] = len(hist)
    recs = _c18_execute(chk, sb, hist)
    recs += _c18_bulk(sb)
    tpath = os.path.join(d, "trace.ndjson")
    vlib.write_ndjson(tpath, recs)
    chk.evaluations += len(recs)
    chk.nontrivial += sum(1 for x in recs if x["init"][x["cwd"]] != "absent" or x["step"] > 1)
    chk.samples.append(recs[len(recs) // 3])

    trace_validate(chk, "TV_RunFs", tpath, _c18_describe, timeout=1800)
    chk.exhaustive = True
    chk.rule = ("TLC enumerates every history of <= 2 (thorough 3) runs over 4 working directories (the analysed directory, its "
                "parent, a sub-directory of it, an unrelated one), 3 pattern selections (all / one / none) and 3 ways of naming the "
                "target (--path; --toml alone with the file in another directory; no option, ./contracts) and every initial state of the report files (absent, other "
                "content, Solidity-looking text, a previous report); each history is executed with the real binary on a scratch "
                "tree; the whole tree is snapshotted (type, size, SHA-256, mode) before and after every run; TV_RunFs accepts a run "
                "iff only the working directory's solstat_report.md changed and its bytes equal the report produced from a clean "
                "state. Non-trivial = runs with a stale report present or not the first of their history.")
    chk.assumptions = ["mtimes are not compared (writing the report necessarily touches the working directory)"]


# ---------------------------------------------------------------------------
# C01 (tree search)
# ---------------------------------------------------------------------------

def _walk_describe(rec, why):
    return ("walk:%s" % why,
            "searching %s from node %s for %s returned %s (%s)" % (
                rec.get("src"), rec.get("root"), str(rec.get("targets"))[:120], str(rec.get("result"))[:200], why))


@prop("C01")
def check_c01(chk, tier):
    hb = vlib.build_harness("dev")
    d = wdir("C01")
    suffix = "quick" if tier == "quick" else "thorough"
    r = vlib.tlc("MC_Walk", "MC_Walk.%s.cfg" % suffix, workers=8, timeout=3400, xmx="12g")
    chk.add_tlc(r)
    beh = r.records.get("REPLAY", [])
    if len(beh) < 200:
        raise ToolError("MC_Walk generated only %d trees" % len(beh))
    if tier == "thorough":
        neg = vlib.tlc("MC_Walk", "MC_Walk.neg.cfg", workers=4, timeout=900, expect_violation=True)
        if neg.violated != "Exact":
            raise ToolError("negative control SkipCatch did not violate Exact")
        chk.extra["negative_controls"] = ["SkipCatch (walker without catch clauses) violates Exact"]
    bpath = os.path.join(d, "behaviours.ndjson")
    vlib.write_ndjson(bpath, beh)
    # spec -> impl: every generated tree is rendered, parsed, projected (round trip checked) and searched by the real code
    t1 = os.path.join(d, "trace-gen.ndjson")
    # Level A trees: the search from EVERY node; the ~20 000 Level B trees: from the file, contracts, functions and sampled nodes
    res = vlib.harness(hb, ["gen-walk", bpath, t1, "1" if len(beh) < 2000 else "0"], timeout=3000)
    chk.add_harness(res, count_traces=False)
    trace_validate(chk, "TV_Walk", t1, _walk_describe, timeout=3000)
    # impl -> spec: corpus programs
    corpus = prepare_corpus("C01", tier)
    t2 = os.path.join(d, "trace-corpus.ndjson")
    res2 = vlib.harness(hb, ["walk-record", corpus, "1" if tier == "thorough" else "0", t2], timeout=3000)
    chk.add_harness(res2, count_traces=False)
    trace_validate(chk, "TV_Walk", t2, _walk_describe, timeout=3000)
    chk.exhaustive = True
    chk.rule = ("Sig (SolAst.tla, 99 kinds, written from pt.rs) defines the full tree. TLC builds a tree for every frame of "
                "Gen.tla (every (kind, slot) of Sig, list positions first/middle/last/sole, optional slots present/absent; "
                "thorough: every composition of two frames) around a marker, runs the explicit-stack search on it for three "
                "target sets and checks it against the declarative pre-order filter; FramesCoverSig guards against vacuity. Each "
                "tree is rendered one token per line, parsed by solang and projected back (the round trip must reproduce the "
                "tree); the real extract_target(s)_from_node is called from every node of every generated tree and from the "
                "file / contracts / functions / sampled nodes of every corpus program, for the full Target set, every detector's "
                "target set and rotating singletons; returned nodes are mapped to ids by structural equality; TV_Walk accepts a "
                "full walk iff it is exactly the subtree in pre-order and a partial walk iff it is the full walk filtered. "
                "Non-trivial = searches from a root with >= 4 nodes.")
    chk.assumptions = ["the projector (exhaustive destructuring of every pt type, checked by rustc) is the reference for 'all nodes'",
                       "solang-parser 0.1.18 is the definition of the parse tree"]


# ---------------------------------------------------------------------------
# C05 - C08 (what each detector must / may flag)
# ---------------------------------------------------------------------------

def _patterns_check(chk, tier, pid, max_records=None):
    hb = vlib.build_harness("dev")
    d = wdir(pid)
    suffix = "quick" if tier == "quick" else "thorough"
    r = vlib.tlc("MC_Patterns", "MC_Patterns.%s.%s.cfg" % (pid, suffix), workers=8, timeout=3400, xmx="12g", tag=pid)
    chk.add_tlc(r)
    beh = r.records.get("REPLAY", [])
    if len(beh) < 300:
        raise ToolError("MC_Patterns generated only %d files for %s" % (len(beh), pid))
    if max_records and len(beh) > max_records:
        step = len(beh) // max_records + 1
        beh = beh[vlib.seed() % step::step]
    bpath = os.path.join(d, "behaviours.ndjson")
    vlib.write_ndjson(bpath, beh)
    corpus = prepare_corpus(pid, tier)
    tpath = os.path.join(d, "trace.ndjson")
    xpath = os.path.join(d, "texts.ndjson")
    res = vlib.harness(hb, ["detect-record", corpus, bpath, tpath, xpath], timeout=3400)
    chk.add_harness(res, count_traces=False)
    texts = vlib.read_ndjson(xpath)

    def describe(rec, why):
        det, verdict = why.split(":")
        label = rec["src"].split(":", 1)[1] if rec["src"].startswith("gen") else rec["src"]
        family = label.split("@")[0]
        return ("%s:%s:%s" % (det, verdict, family),
                "%s %s on %s: reported lines %s" % (det, verdict, rec["src"], rec["results"].get(det)), {"detector": det})
    rtv = trace_validate(chk, "TV_Patterns", tpath, describe, env={"MODE": pid}, timeout=3400)
    chk.nontrivial += int(rtv.get("exercised", 0))
    for v in chk.violations:
        case = v["replay"]
        if case.get("relayout_case"):
            case.pop("trace_record", None)
            continue
        i = case.get("trace_index")
        if i and i <= len(texts):
            case["source"] = texts[i - 1]["text"]
            rec = case.pop("trace_record", {})
            case["observed"] = rec.get("results", {}).get(case.get("detector"))
            case["label"] = rec.get("src")
    chk.exhaustive = True
    chk.assumptions = ["section 8 of DESIGN.md (Patterns.tla) is the reading of the documentation the verdicts are bound to",
                       "lines: in generated files every token is on its own line, so a line identifies a token"]


_PAT_RULE = ("TLC generates files from the instance families of PatGen/DeclGen.tla (canonical forms, documented variants, near "
             "misses) placed in the frames of Gen.tla (syntactic positions), in host functions of several kinds and, for "
             "declarations, in contract kinds / member positions / neighbourhoods of other items and attribute products; each file "
             "is rendered one token per line, parsed, projected (round trip checked) and analysed by the real detectors; TV_Patterns "
             "evaluates MustLines / MayLines of Patterns.tla on the projected tree and accepts iff Must <= reported <= May; corpus "
             "programs and a fixed slice of random programs (bin/randsol.py: random identifiers, literals, widths, counts, "
             "positions, layouts) are validated the same way, a third of all programs through analyze_dir on a directory "
             "holding the file instead of analyze_for_*. Non-trivial = records in which some detector of the property has a canonical "
             "occurrence. ")


@prop("C05")
def check_c05(chk, tier):
    _patterns_check(chk, tier, "C05")
    chk.rule = _PAT_RULE + "C05: 11 expression-level gas detectors."


@prop("C06")
def check_c06(chk, tier):
    _patterns_check(chk, tier, "C06")
    chk.rule = _PAT_RULE + "C06: 5 declaration-level detectors; attribute products of functions and state variables, member arrangements x neighbourhoods."


@prop("C07")
def check_c07(chk, tier):
    _patterns_check(chk, tier, "C07")
    chk.rule = _PAT_RULE + "C07: 4 vulnerability detectors; selfdestruct shapes (function kind x visibility x modifiers x msg.sender usage), pragma families."


@prop("C08")
def check_c08(chk, tier):
    _patterns_check(chk, tier, "C08")
    chk.rule = _PAT_RULE + "C08: 4 mutability detectors; the 15 kinds of write in every position of every kind of function, immutable and calldata matrices."


# ---------------------------------------------------------------------------
# C04 (totality)
# ---------------------------------------------------------------------------

@prop("C04")
def check_c04(chk, tier):
    hb_dev = vlib.build_harness("dev")
    hb_rel = vlib.build_harness("release")
    d = wdir("C04")
    suffix = "quick" if tier == "quick" else "thorough"
    bfiles = []
    specs = [("MC_Totality", "MC_Totality.%s.cfg" % suffix, "totality"), ("MC_Walk", "MC_Walk.quick.cfg", "walk")]
    for pid in ("C05", "C06", "C07", "C08"):
        specs.append(("MC_Patterns", "MC_Patterns.%s.%s.cfg" % (pid, "quick"), "pat" + pid))
    for module, cfg, tag in specs:
        r = vlib.tlc(module, cfg, workers=8, timeout=3400, xmx="12g", tag="C04")
        chk.add_tlc(r)
        beh = r.records.get("REPLAY", [])
        if not beh:
            raise ToolError("%s/%s generated nothing" % (module, cfg))
        if tier == "quick" and tag.startswith("pat") and len(beh) > 700:
            step = len(beh) // 700 + 1
            beh = beh[vlib.seed() % step::step]
        os.makedirs(os.path.join(d, tag), exist_ok=True)
        path = os.path.join(d, tag, "behaviours.ndjson")
        vlib.write_ndjson(path, beh)
        bfiles.append(path)
    corpus = prepare_corpus("C04", tier)
    traces = {}
    for build, hb in (("dev", hb_dev), ("release", hb_rel)):
        tpath = os.path.join(d, "trace-%s.ndjson" % build)
        res = vlib.harness(hb, ["total-run", build, corpus, tpath] + bfiles, timeout=3400)
        chk.add_harness(res, count_traces=False)
        traces[build] = vlib.read_ndjson(tpath)
    # the two builds must agree wherever both returned a set
    recs = traces["dev"] + traces["release"]
    for a, b in zip(traces["dev"], traces["release"]):
        diff = [k for k in a["results"] if k in b["results"] and a["results"][k] != b["results"][k]]
        recs.append({"k": "cmp", "src": a["src"], "same": not diff, "detector": diff[0] if diff else "",
                     "dev": {k: a["results"][k] for k in diff}, "release": {k: b["results"][k] for k in diff}})
    for x in recs:
        x.pop("results", None)
    tpath = os.path.join(d, "trace.ndjson")
    vlib.write_ndjson(tpath, recs)

    def describe(rec, why):
        if rec["k"] == "cmp":
            return ("totality:%s" % why, "the builds with and without overflow checks disagree on %s: %s vs %s" % (rec["src"], rec["dev"], rec["release"]))
        family = rec["src"].split(":")[1] if ":" in rec["src"] else "corpus"
        allbad = ", ".join("%s (%s)" % (b["d"], b["why"]) for b in rec["bad"])
        return ("totality:%s" % why, "in the %s build on %s (%s): %s" % (rec["build"], rec["src"], family, allbad),
                {"source": rec.get("text", ""), "all_failures": rec["bad"]})
    # one violation per (detector, reason): expand records with several failing detectors
    expanded = []
    for x in recs:
        if x["k"] == "total" and len(x["bad"]) > 1:
            for b in x["bad"]:
                y = dict(x)
                y["bad"] = [b]
                expanded.append(y)
        else:
            expanded.append(x)
    vlib.write_ndjson(tpath, expanded)
    trace_validate(chk, "TV_Totality", tpath, describe, timeout=3400)
    for v in chk.violations:
        v["replay"].pop("trace_record", None)
    chk.exhaustive = True
    chk.rule = ("TLC generates the product of input classes that reach the fallible sites (pragma classes x item kinds alone / "
                "without pragma / combined x numeric literals of every size and spelling in operator slots x call arities of the "
                "special callees x 0..300 functions before a constructor x odd declarations), plus the trees of C01 and the "
                "pattern families of C05-C08; every file and every corpus program goes through all 30 detectors under "
                "catch_unwind and a 30 s watchdog in a build with overflow checks and a build without; TV_Totality accepts a run iff "
                "every detector returned a set, and the two builds agree. Non-trivial = files longer than 200 bytes.")
    chk.assumptions = ["stack exhaustion beyond nesting depth 64 is outside the property"]


# ---------------------------------------------------------------------------
# C19 (composition over top-level items)
# ---------------------------------------------------------------------------

@prop("C19")
def check_c19(chk, tier):
    hb = vlib.build_harness("dev")
    d = wdir("C19")
    suffix = "quick" if tier == "quick" else "thorough"
    r = vlib.tlc("MC_Compose", "MC_Compose.%s.cfg" % suffix, workers=8, timeout=3400, xmx="12g")
    chk.add_tlc(r)
    beh = r.records.get("REPLAY", [])
    if len(beh) < 200:
        raise ToolError("MC_Compose generated only %d files" % len(beh))
    bpath = os.path.join(d, "behaviours.ndjson")
    vlib.write_ndjson(bpath, beh)
    corpus = prepare_corpus("C19", tier)
    tpath = os.path.join(d, "trace.ndjson")
    xpath = os.path.join(d, "texts.ndjson")
    res = vlib.harness(hb, ["compose-record", corpus, bpath, "60" if tier == "quick" else "600", tpath, xpath], timeout=3400)
    chk.add_harness(res, count_traces=False)
    texts = vlib.read_ndjson(xpath)

    def describe(rec, why):
        return ("compose:%s" % why, "%s on %s: whole file %s, item by item %s" % (rec["detector"], rec["src"], rec["whole"], rec["parts"]),
                {"detector": rec["detector"]})
    rtv = trace_validate(chk, "TV_Compose", tpath, describe, timeout=3400)
    chk.extra["compose_records_in_scope"] = int(rtv.get("exercised", 0))
    if int(rtv.get("exercised", 0)) < 100:
        raise ToolError("only %s composition records were in scope" % rtv.get("exercised"))
    for v in chk.violations:
        case = v["replay"]
        if case.get("relayout_case"):
            case.pop("trace_record", None)
            continue
        i = case.get("trace_index")
        if i and i <= len(texts):
            case["source"] = texts[i - 1]["text"]
    chk.exhaustive = True
    chk.rule = ("TLC generates every ordered pair (thorough: every ordered triple) of top-level items from a pool of 15 items with "
                "disjoint names (contracts with well / badly placed constructors, written / unwritten / immutable-candidate / "
                "packable state variables, a library, an interface, a free function, a struct, a selfdestruct, a memory parameter, "
                "naming violations, a file-level constant); every file, every corpus file with >= 2 items and random concatenations "
                "of corpus files are analysed whole and with all but one item replaced by spaces (line feeds and pragmas kept) by all "
                "detectors except the two SafeMath ones; TV_Compose checks on the projected tree that the items do not mention each "
                "other's state variables and accepts iff whole = union of the parts. Non-trivial = records whose whole-file result "
                "is non-empty.")
    chk.assumptions = ["a top-level item's extent is the span of its subtree plus a directly following ';'"]
