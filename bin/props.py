"""Per-property decision procedures (DESIGN.md section 7)."""
import json
import os
import re
import shutil

import vlib
from vlib import ToolError, log, WORK, ROOT, REPO

REGISTRY = {}


def prop(pid):
    def deco(fn):
        REGISTRY[pid] = fn
        return fn
    return deco


def wdir(pid):
    d = os.path.join(WORK, pid)
    os.makedirs(d, exist_ok=True)
    return d


# ---------------------------------------------------------------------------
# corpus: hand-written files plus every Solidity literal embedded in solstat itself
# ---------------------------------------------------------------------------

_RAW = re.compile(r'r(#+)"(.*?)"\1', re.S)
_FENCE = re.compile(r"```(?:js|solidity|sol|javascript)?\n(.*?)```", re.S)


def prepare_corpus():
    """Collect corpus files into work/corpus (rebuilt on every check run)."""
    out = os.path.join(WORK, "corpus")
    shutil.rmtree(out, ignore_errors=True)
    os.makedirs(out)
    n = 0
    for name in sorted(os.listdir(os.path.join(ROOT, "corpus"))):
        if name.endswith(".sol"):
            shutil.copy(os.path.join(ROOT, "corpus", name), os.path.join(out, "h_" + name))
            n += 1
    src = os.path.join(REPO, "src")
    k = 0
    for base, _dirs, files in sorted(os.walk(src)):
        for fn in sorted(files):
            if not fn.endswith(".rs"):
                continue
            text = open(os.path.join(base, fn), errors="replace").read()
            lits = [m.group(2) for m in _RAW.finditer(text)]
            extra = []
            for lit in lits:
                extra += [m.group(1) for m in _FENCE.finditer(lit)]
            for lit in lits + extra:
                if "contract" not in lit and "function" not in lit and "struct" not in lit:
                    continue
                k += 1
                tag = os.path.relpath(os.path.join(base, fn), src).replace("/", "_")[:-3]
                with open(os.path.join(out, "r_%s_%03d.sol" % (tag, k)), "w") as f:
                    f.write(lit)
                n += 1
    log("corpus: %d candidate files in %s" % (n, out))
    return out


def trace_validate(chk, module, trace_path, describe, timeout=900, env=None):
    """Run the trace specification over a recorded trace; rejected records become violations."""
    recs = vlib.read_ndjson(trace_path)
    if not recs:
        raise ToolError("empty trace %s" % trace_path)
    e = {"TRACE": trace_path}
    if env:
        e.update(env)
    r = vlib.tlc(module, workers=1, timeout=timeout, env=e, dfs=True, tag="tv", xmx="4g")
    res = r.records.get("TVRESULT")
    if not res:
        raise ToolError("trace specification %s printed no result\n%s" % (module, r.out[-2000:]))
    res = res[-1]
    if res["n"] != len(recs):
        raise ToolError("trace specification %s consumed %s of %d records" % (module, res["n"], len(recs)))
    chk.states += r.distinct
    chk.transitions += r.transitions
    chk.traces += len(recs) - len(res["bad"])
    for idx in res["bad"]:
        rec = recs[idx - 1]
        sig, desc = describe(rec)
        chk.violate(sig, desc, {"trace_record": rec, "trace_spec": module})
    return res


def replay(chk, pid, path):
    """Re-run one recorded case (evidence/replay/<ID>-<hash>.json)."""
    with open(path) as f:
        doc = json.load(f)
    case = doc.get("case", {})
    hb = vlib.build_harness("dev")
    d = wdir(pid)
    cpath = os.path.join(d, "replay-case.json")
    with open(cpath, "w") as f:
        json.dump(case, f)
    res = vlib.harness(hb, ["replay-case", pid, cpath])
    chk.add_harness(res)
    chk.rule = "replay of one recorded case"


# ---------------------------------------------------------------------------
# C10
# ---------------------------------------------------------------------------

@prop("C10")
def check_c10(chk, tier):
    hb = vlib.build_harness("dev")
    d = wdir("C10")
    cfg = "MC_C10.quick.cfg" if tier == "quick" else "MC_C10.thorough.cfg"
    r = vlib.tlc("MC_C10", cfg, workers=8, timeout=3000)
    chk.add_tlc(r)
    beh = r.records.get("REPLAY", [])
    if len(beh) < 1000:
        raise ToolError("MC_C10 generated only %d behaviours" % len(beh))
    bpath = os.path.join(d, "behaviours.ndjson")
    vlib.write_ndjson(bpath, beh)
    res = vlib.harness(hb, ["c10-replay", bpath])
    chk.add_harness(res)
    # implementation -> specification
    corpus = prepare_corpus()
    tpath = os.path.join(d, "trace.ndjson")
    res2 = vlib.harness(hb, ["c10-record", corpus, tpath])
    chk.add_harness(res2, count_traces=False)

    def describe(rec):
        if rec.get("k") == "type":
            return ("type-size:%s" % rec["ty"]["t"],
                    "get_type_size(%s) = %s is not the size the model assigns" % (rec.get("spelling"), rec.get("size")))
        return ("container:%s" % rec.get("what"),
                "%s at %s:%s with member sizes %s: slots=%s reported=%s is not allowed by the slot model" % (
                    rec.get("what"), rec.get("src"), rec.get("line"), rec.get("sizes"), rec.get("slots"), rec.get("reported")))
    trace_validate(chk, "TV_C10", tpath, describe)
    chk.exhaustive = True
    chk.rule = ("TLC enumerates every sequence of member sizes over the 32 byte-granular sizes up to the "
                "configured length, runs the Greedy machine on each and checks it against the declarative layout "
                "rule and the true optimum over all permutations; each sequence is replayed into "
                "storage_slots_used and, rendered as a contract / file-level struct / nested struct with varying "
                "type spellings, into the two packing detectors. Non-trivial = sequences of length >= 2 or "
                "with a must/free verdict. Trace validation: every elementary type spelling through "
                "get_type_size and every contract/struct of the corpus.")
    chk.assumptions = ["solang-parser 0.1.18 parses the rendered containers as written",
                       "the harness' mapping of a type expression to its class (bool/address/uintN/...) is right"]
