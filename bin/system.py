"""Whole runs of the real binary validated against Solstat.tla (TV_Solstat).

TLC (MC_Solstat) model-checks the whole-run machine on a small abstract world and prints every input of the family;
each input is concretised (abstract pattern names -> real ones, abstract directory ids -> scratch paths) and executed
with the real binary; exit status, file-system changes and the entries read back from the report are recorded; TLC
validates the records against SolstatRun!Outcome evaluated on the REAL catalogue, the materialised trees and the
per-file results measured in isolation.
"""
import json
import os
import shutil

import bindrive
import vlib
from vlib import ToolError, ROOT

DIRWALK = os.path.join(ROOT, "corpus", "dirwalk")
HOSTILE = b"\x00\xff not solidity { function ("


def _name(text):
    return {"text": text, "sol": text.endswith(".sol"), "tsol": text.lower().endswith(".t.sol")}


def _file(text, content):
    return {"kind": "file", "name": _name(text), "content": content}


def _dir(text, entries):
    return {"kind": "dir", "name": _name(text), "tree": {"entries": entries}}


# the concrete world: the same shapes as MC_Solstat!MCTreeOf
TREES = {
    "P": {"entries": [_file("A.sol", "c1"),
                      _dir("lib.sol", [_file("A.sol", "c2"), _file("T.t.sol", "c1")]),
                      _file("notes.txt", "c1"),
                      _file("C.sol", "c3"),
                      _file("N.sol", "c7"),
                      # random programs (bin/randsol.py, fixed indexes) below a dotted directory name
                      _dir("v0.8", [_file("R1.sol", "g1"), _file("R2.sol", "g2"), _dir("deep", [_file("R3.sol", "g3")])])]},
    "contracts": {"entries": [_file("B.sol", "c2")]},
    "E": {"entries": []},
    "S": {"entries": [_file("D.sol", "c1"), _file("D.t.sol", "c2"), _file("R4.sol", "g4")]},
}


def _materialise(path, tree, cont):
    os.makedirs(path)
    for e in tree["entries"]:
        p = os.path.join(path, e["name"]["text"])
        if e["kind"] == "dir":
            _materialise(p, e["tree"], cont)
        else:
            ok = e["name"]["sol"] and not e["name"]["tsol"]
            with open(p, "wb") as f:
                f.write(cont[e["content"]] if ok else HOSTILE)


def run(chk, hb, sb, workdir, tier):
    """Returns (records, world path).  Violations are reported by the caller through trace_validate."""
    cat = bindrive.extract_catalogue()
    r = vlib.tlc("MC_Solstat", "MC_Solstat.cfg", workers=4, timeout=900, tag="SYS")
    chk.add_tlc(r)
    beh = r.records.get("REPLAY", [])
    if len(beh) < 500:
        raise ToolError("MC_Solstat generated only %d inputs" % len(beh))
    for cfg in ("neg1", "neg2"):
        n = vlib.tlc("MC_Solstat", "MC_Solstat.%s.cfg" % cfg, workers=2, timeout=300, expect_violation=True, tag="SYS")
        if n.violated != "EndToEndMC":
            raise ToolError("negative control MC_Solstat.%s did not violate EndToEndMC" % cfg)
    chk.extra.setdefault("negative_controls", []).extend(
        ["Solstat: an empty configured list falling back to all patterns violates EndToEnd",
         "Solstat: writing a report on an aborted run violates EndToEnd"])
    cap = 700 if tier == "quick" else 4000
    if len(beh) > cap:
        # two thirds runs that must succeed, one third runs that must abort
        def sample(xs, n):
            xs = sorted(xs, key=lambda b: json.dumps(b, sort_keys=True))
            step = len(xs) // n + 1
            return xs[vlib.seed() % step::step]
        beh = sample([b for b in beh if b["ok"]], 2 * cap // 3) + sample([b for b in beh if not b["ok"]], cap // 3)
    # abstract -> real names
    real = {"v1": cat["vulnerabilities"][0], "v2": cat["vulnerabilities"][-1],
            "o1": "increment_decrement" if "increment_decrement" in cat["optimizations"] else cat["optimizations"][0],
            # a version-gated pattern: listed BEFORE a pattern that is not (list <<o2, o1>>), over a file without pragma (c7)
            "o2": "string_errors" if "string_errors" in cat["optimizations"] else cat["optimizations"][1],
            "q1": cat["qa"][0], "zz": "not_a_documented_pattern"}
    items = []
    for b in beh:
        inp = b["inp"]
        cinp = {"flag": inp["flag"], "contracts": inp["contracts"], "toml": []}
        if inp["toml"]:
            t = inp["toml"][0]
            cinp["toml"] = [{"path": t["path"], "optimizations": [real[n] for n in t["optimizations"]],
                             "vulnerabilities": [real[n] for n in t["vulnerabilities"]], "qa": [real[n] for n in t["qa"]]}]
        items.append({"inp": cinp, "rep0": b["rep0"]})
    return execute(hb, sb, items, workdir)


def execute(hb, sb, items, workdir):
    """Runs the real binary on concrete inputs [{"inp": [flag, toml (real names), contracts], "rep0": absent|stale}];
    returns (records for TV_Solstat, path of the world file)."""
    cat = bindrive.extract_catalogue()
    import randsol
    cont = {c: open(os.path.join(DIRWALK, c + ".sol"), "rb").read() for c in ("c1", "c2", "c3", "c7")}
    for gi in range(1, 5):
        cont["g%d" % gi] = randsol.program("sys", gi).encode("utf-8")
    # per-file results in isolation, for every documented pattern
    res = {}
    for c in cont:
        iso = os.path.join(workdir, "iso_%s.sol" % c)
        with open(iso, "wb") as f:
            f.write(cont[c])
        out = vlib.harness(hb, ["analyze", iso])
        rr = out["extra"]["results"]
        res[c] = {}
        for k in bindrive.CATS:
            for p in cat[k]:
                v = rr.get(p)
                if not isinstance(v, list):
                    raise ToolError("no isolated result for pattern %s on %s: %r" % (p, c, v))
                res[c][p] = sorted(v)
    world = {"catalogue": cat, "trees": TREES, "res": res}
    wpath = os.path.join(workdir, "world.json")
    with open(wpath, "w") as f:
        json.dump(world, f)
    scratch = vlib.scratch_dir("SYS")
    recs = []
    try:
        root = os.path.join(scratch, "root")
        work = os.path.join(root, "work")
        os.makedirs(work)
        _materialise(os.path.join(root, "P"), TREES["P"], cont)
        _materialise(os.path.join(root, "E"), TREES["E"], cont)
        _materialise(os.path.join(root, "Vault.sol"), TREES["S"], cont)
        # what a project directory holds besides contracts, in the working directory and in every analysed directory
        for furnished in (work, os.path.join(root, "P"), os.path.join(root, "P", "lib.sol"), os.path.join(root, "E"), os.path.join(root, "Vault.sol")):
            bindrive.furnish(furnished)
        reports = os.path.join(scratch, "reports")
        os.makedirs(reports)
        cdir = os.path.join(work, "contracts")
        rpath = os.path.join(work, "solstat_report.md")
        # (longer than any report of this world: a run that does not replace the file leaves its tail behind)
        stale = b"# stale report of an earlier run\n" + b"- Old.sol:1\n" * 40000
        pathof = {"P": "../P", "E": "../E", "Q": "../Q", "contracts": "./contracts", "S": "../Vault.sol"}
        for i, b in enumerate(items):
            inp = b["inp"]
            if inp["contracts"] and not os.path.isdir(cdir):
                _materialise(cdir, TREES["contracts"], cont)
                bindrive.furnish(cdir)
            if not inp["contracts"] and os.path.isdir(cdir):
                shutil.rmtree(cdir)
            if os.path.exists(rpath):
                os.remove(rpath)
            if b["rep0"] == "stale":
                with open(rpath, "wb") as f:
                    f.write(stale)
            cinp = inp
            args = bindrive.spell_args(pathof[inp["flag"]] if inp["flag"] else "", "../cfg.toml" if inp["toml"] else "", inp)
            if inp["toml"]:
                t = inp["toml"][0]
                with open(os.path.join(root, "cfg.toml"), "w") as f:
                    f.write("path = %s\n" % json.dumps(pathof[t["path"]]))
                    for k in ("optimizations", "vulnerabilities", "qa"):
                        f.write("%s = [%s]\n" % (k, ", ".join(json.dumps(n) for n in t[k])))
            before = bindrive.snapshot(root)
            code, err = bindrive.run_solstat(sb, work, args)
            after = bindrive.snapshot(root)
            changed = sorted(p for p in set(before) | set(after) if before.get(p) != after.get(p))
            present = os.path.exists(rpath)
            data = open(rpath, "rb").read() if present else None
            unchanged = (data == stale) if b["rep0"] == "stale" else (not present)
            if present and not unchanged:
                with open(os.path.join(reports, "r%05d.md" % i), "wb") as f:
                    f.write(data)
            recs.append({"k": "sysrun", "inp": cinp, "rep0": b["rep0"], "args": args,
                         "obs": {"exit": code, "changed": changed, "report_path": os.path.relpath(rpath, root),
                                 "report_present": present, "report_unchanged": unchanged, "garbage": False, "report": {}},
                         "stderr": err[-160:]})
        parsed = bindrive.parse_reports(hb, reports)
        for i, rc in enumerate(recs):
            p = parsed.get("r%05d.md" % i)
            if not p:
                continue
            rc["obs"]["garbage"] = bool(p["garbage"])
            val = {}
            for c in bindrive.CATS:
                cur = None
                for it in p.get("parts", {}).get(c, []):
                    if it["t"] == "Section":
                        cur = it["p"]
                        val.setdefault(c, {}).setdefault(cur, [])
                    elif it["t"] == "Entry" and cur is not None:
                        val[c][cur].append([it["f"], it["l"]])
            rc["obs"]["report"] = val
    finally:
        shutil.rmtree(scratch, ignore_errors=True)
    return recs, wpath
