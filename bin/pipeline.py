"""End-to-end runs of the real binary over directory trees (Pipeline.tla; binary level of C03 and C13)."""
import json
import os
import shutil

import bindrive
import vlib
from vlib import ToolError, ROOT

HOSTILE = [b"contract Broken { function (", b"\x00\x9f\x92\x96\x00\xff\xfe\n\x00", b"\xff\xfe\x00garbage\x80\x81", b"",
           b"pragma solidity ^0.4.0; contract T { function f() public { x++; selfdestruct(msg.sender); } "]


def contents():
    d = os.path.join(ROOT, "corpus", "dirwalk")
    m = {c: open(os.path.join(d, c + ".sol"), "rb").read() for c in ("c1", "c2", "c3", "c4", "c5", "c6", "c8", "c9", "c10", "c11")}
    # a file of file-level items only (no contract, library or interface anywhere in its text)
    m["c12"] = open(os.path.join(ROOT, "corpus", "free_items.sol"), "rb").read()
    m["c16"] = open(os.path.join(d, "c16.sol"), "rb").read()
    m["c14"] = open(os.path.join(d, "c14.sol"), "rb").read()
    m["c15"] = open(os.path.join(d, "c15.sol"), "rb").read()
    # files of some 70 KB in which every read-buffer boundary (4096, 8192, 16384, 65536 ...) falls inside a run of 3-byte
    # characters, in three alignments: a block boundary splits a character in at least two of them
    for k in range(3):
        run = ("\u8a9e" * 40 + "\n").encode("utf-8")
        body = b"// SPDX-License-Identifier: MIT\npragma solidity ^0.8.17;\n" + b"x" * 0 + b"/*" + b"a" * k + b"\n" + run * 600 + b"*/\n"
        m["w%d" % k] = body + m["c1"].split(b"\n", 2)[2]
    # re-laid-out copies: the same words, the line breaks elsewhere
    m["c1r"] = relaid(m["c1"])
    m["c2r"] = relaid(m["c2"])
    return m


def relaid(data):
    """The same words with other line breaks (a reformatted copy): a break after every `(`-free `{` and before `returns`."""
    t = data.decode("utf-8")
    t = t.replace(" returns ", "\n        returns ").replace("{ function", "{\n    function").replace("; }", ";\n}").replace(" = ", " =\n            ")
    return t.encode("utf-8")


def eligible(name):
    return name.endswith(".sol") and not name.lower().endswith(".t.sol")


def materialise(path, tree, cont, listing_as_given, salt=[0]):
    """tmpfs lists in reverse creation order: create in reverse to be listed as given."""
    os.makedirs(path)
    entries = tree["entries"]
    order = list(reversed(entries)) if listing_as_given else list(entries)
    for e in order:
        name = e["name"]["text"]
        p = os.path.join(path, name)
        if e["kind"] == "dir":
            materialise(p, e["tree"], cont, listing_as_given, salt)
        else:
            salt[0] += 1
            data = cont[e["content"]] if eligible(name) else HOSTILE[salt[0] % len(HOSTILE)]
            with open(p, "wb") as f:
                f.write(data)


def eligible_files(tree):
    out = []
    for e in tree["entries"]:
        if e["kind"] == "dir":
            out += eligible_files(e["tree"])
        elif eligible(e["name"]["text"]):
            out.append((e["name"]["text"], e["content"]))
    return out


def run_trees(chk, hb, sb, trees, catalogue, workdir):
    """Returns the pipeline records (one per tree) for TV_Pipeline."""
    cont = contents()
    scratch = vlib.scratch_dir("pipe")
    recs = []
    try:
        reports = os.path.join(scratch, "reports")
        os.makedirs(reports)
        meta = []
        for ti, tree in enumerate(trees):
            base = os.path.join(scratch, "t%d" % ti)
            os.makedirs(base)
            # the analysed root is a directory whatever it is called: plain names, names that look like a contract
            # (Foundry's out/Counter.sol/), dotted version names
            ra, rb = [("A", "B"), ("Vault.sol", "B"), ("src", "Lib.sol"), ("v0.8", "pkg-1.2.0"), ("A", "Token.SOL")][ti % 5]
            a, b = os.path.join(base, ra), os.path.join(base, rb)
            materialise(a, tree, cont, True)
            materialise(b, tree, cont, False)
            # what a project directory holds besides contracts (version control, tool configuration -- among it a
            # Solstat.toml nobody named on the command line): inert
            for base_dir in (a, b):
                for sub, _dirs, _files in list(os.walk(base_dir)):
                    if ".git" not in sub:
                        bindrive.furnish(sub)
            listing_differs = sorted(os.listdir(a)) == sorted(os.listdir(b)) and os.listdir(a) != os.listdir(b)

            def toml(names_of):
                return ("path = \"unused\"\noptimizations = %s\nvulnerabilities = %s\nqa = %s\n" % (
                    json.dumps(names_of("optimizations")), json.dumps(names_of("vulnerabilities")), json.dumps(names_of("qa"))))
            with open(os.path.join(base, "fwd.toml"), "w") as f:
                f.write(toml(lambda c: catalogue[c]))
            with open(os.path.join(base, "rev.toml"), "w") as f:
                f.write(toml(lambda c: list(reversed(catalogue[c]))))
            # a name listed twice, the two occurrences adjacent / apart: the same configured BAG in another order
            def twice(c, adjacent):
                ns = list(catalogue[c])
                return ([ns[0], ns[0]] + ns[1:]) if adjacent else ([ns[0]] + ns[1:] + [ns[0]])
            with open(os.path.join(base, "dup1.toml"), "w") as f:
                f.write(toml(lambda c: twice(c, True)))
            with open(os.path.join(base, "dup2.toml"), "w") as f:
                f.write(toml(lambda c: twice(c, False)))
            runs = [("listing-order", ["--path", a]), ("listing-order", ["--path", b]),
                    ("configured-pattern-order", ["--path", a, "--toml", os.path.join(base, "fwd.toml")]),
                    ("configured-pattern-order", ["--path", a, "--toml", os.path.join(base, "rev.toml")])]
            dup_runs = [["--path", a, "--toml", os.path.join(base, "dup1.toml")], ["--path", a, "--toml", os.path.join(base, "dup2.toml")]]
            blobs, ok = [], True
            for ri, (what, args) in enumerate(runs):
                cwd = os.path.join(base, "cwd%d" % ri)
                os.makedirs(cwd)
                code, _err = bindrive.run_solstat(sb, cwd, args)
                ok = ok and code == 0
                rp = os.path.join(cwd, "solstat_report.md")
                blobs.append(open(rp, "rb").read() if os.path.exists(rp) else None)
            differs = ""
            for ri in range(1, 4):
                if blobs[ri] != blobs[0] and not differs:
                    differs = runs[ri][0]
            dblobs = []
            for di, args in enumerate(dup_runs):
                cwd = os.path.join(base, "dcwd%d" % di)
                os.makedirs(cwd)
                code, _err = bindrive.run_solstat(sb, cwd, args)
                ok = ok and code == 0
                rp = os.path.join(cwd, "solstat_report.md")
                dblobs.append(open(rp, "rb").read() if os.path.exists(rp) else None)
            if dblobs[0] != dblobs[1] and not differs:
                differs = "order-of-a-repeated-pattern-name"
            # the same run once more in a working directory that holds the (longer) report of an earlier run
            scwd = os.path.join(base, "scwd")
            os.makedirs(scwd)
            with open(os.path.join(scwd, "solstat_report.md"), "wb") as f:
                f.write((blobs[0] or b"") * 2 + b"\n- Earlier.sol:1\n" * 30)
            code, _err = bindrive.run_solstat(sb, scwd, ["--path", a])
            ok = ok and code == 0
            srp = os.path.join(scwd, "solstat_report.md")
            sblob = open(srp, "rb").read() if os.path.exists(srp) else None
            if sblob != blobs[0] and not differs:
                differs = "a-report-left-by-an-earlier-run"
            if blobs[0] is not None:
                with open(os.path.join(reports, "w%05d.md" % ti), "wb") as f:
                    f.write(blobs[0])
            singles = []
            for si, (name, cid) in enumerate(eligible_files(tree)):
                sd = os.path.join(base, "single%d" % si)
                os.makedirs(os.path.join(sd, "only"))
                with open(os.path.join(sd, "only", name), "wb") as f:
                    f.write(cont[cid])
                code, _err = bindrive.run_solstat(sb, sd, ["--path", "only"])
                ok = ok and code == 0
                rp = os.path.join(sd, "solstat_report.md")
                if os.path.exists(rp):
                    key = "s%05d_%03d.md" % (ti, si)
                    shutil.copy(rp, os.path.join(reports, key))
                    singles.append(key)
            meta.append({"tree": tree, "ok": ok, "same": differs == "", "differs": differs or "nothing",
                         "whole": "w%05d.md" % ti if blobs[0] is not None else None, "singles": singles,
                         "listing_differs": listing_differs})
            shutil.rmtree(base, ignore_errors=True)
        parsed = bindrive.parse_reports(hb, reports)
        for m in meta:
            whole = parsed.get(m["whole"], {"parts": {}, "garbage": False}) if m["whole"] else {"parts": {}, "garbage": False}
            sp = [parsed[k] for k in m["singles"] if k in parsed]
            recs.append({"k": "pipe", "tree": m["tree"], "all_exit_zero": m["ok"], "same_bytes": m["same"], "differs_in": m["differs"],
                         "garbage": bool(whole["garbage"] or any(x["garbage"] for x in sp)),
                         "whole": whole["parts"], "singles": [x["parts"] for x in sp], "listing_differs": m["listing_differs"]})
    finally:
        shutil.rmtree(scratch, ignore_errors=True)
    return recs
