"""Shared machinery of the /verif checks (python3 stdlib only).

Exit protocol (DESIGN.md section 6):
  0  property held on everything explored (KNOWN-FINDING lines allowed)
  1  at least one violation not listed in known_findings.json; a line
     "VIOLATION property=<id> replay=<path>" is printed for each
  2  tool error (harness build failure, TLC failure on the specification itself,
     timeout, malformed behaviour file, ...) -- never a VIOLATION
"""
import hashlib
import json
import os
import re
import shutil
import subprocess
import sys
import time

ROOT = os.path.dirname(os.path.dirname(os.path.abspath(__file__)))
REPO = os.environ.get("SOLSTAT_REPO", "/repo")
WORK = os.path.join(ROOT, "work")
SPEC = os.path.join(ROOT, "spec")
EVID = os.path.join(ROOT, "evidence")
HARNESS_DIR = os.path.join(ROOT, "harness")
SCRATCH_BASE = "/dev/shm" if os.path.isdir("/dev/shm") else "/var/tmp"


class ToolError(Exception):
    pass


def log(*a):
    print("[check]", *a, file=sys.stderr, flush=True)


def seed():
    try:
        return int(os.environ.get("VERIF_SEED", "1"))
    except ValueError:
        return 1


def run(cmd, timeout=None, env=None, cwd=None, check=False, stdin=None):
    e = dict(os.environ)
    if env:
        e.update(env)
    try:
        p = subprocess.run(cmd, cwd=cwd, env=e, timeout=timeout, input=stdin,
                           stdout=subprocess.PIPE, stderr=subprocess.PIPE, text=True,
                           errors="replace")
    except subprocess.TimeoutExpired:
        raise ToolError("timeout after %ss: %s" % (timeout, " ".join(cmd)[:200]))
    if check and p.returncode != 0:
        raise ToolError("command failed (%d): %s\n%s\n%s" % (
            p.returncode, " ".join(cmd)[:300], p.stdout[-3000:], p.stderr[-3000:]))
    return p


# ---------------------------------------------------------------------------
# building
# ---------------------------------------------------------------------------

def _cargo_env():
    return {"CARGO_NET_OFFLINE": "true", "CARGO_TERM_COLOR": "never"}


def build_harness(profile="dev"):
    """(Re)build the harness against /repo's current working tree."""
    os.makedirs(WORK, exist_ok=True)
    lock = os.path.join(HARNESS_DIR, "Cargo.lock")
    if not os.path.exists(lock):
        shutil.copy(os.path.join(REPO, "Cargo.lock"), lock)
    cmd = ["cargo", "build", "--offline", "--quiet"]
    if profile == "release":
        cmd.append("--release")
    t0 = time.time()
    p = run(cmd, cwd=HARNESS_DIR, env=_cargo_env(), timeout=1800)
    if p.returncode != 0:
        raise ToolError("harness build failed (profile %s):\n%s" % (profile, p.stderr[-4000:]))
    log("harness (%s) built in %.1fs" % (profile, time.time() - t0))
    sub = "release" if profile == "release" else "debug"
    return os.path.join(WORK, "target", sub, "harness")


def build_solstat_bin():
    """Build the real solstat binary from /repo's working tree into work/target-bin."""
    tdir = os.path.join(WORK, "target-bin")
    t0 = time.time()
    p = run(["cargo", "build", "--offline", "--quiet", "--release", "--bin", "solstat",
             "--manifest-path", os.path.join(REPO, "Cargo.toml"), "--target-dir", tdir],
            env=_cargo_env(), timeout=1800)
    if p.returncode != 0:
        raise ToolError("solstat binary build failed:\n%s" % p.stderr[-4000:])
    log("solstat binary built in %.1fs" % (time.time() - t0))
    return os.path.join(tdir, "release", "solstat")


# ---------------------------------------------------------------------------
# TLC
# ---------------------------------------------------------------------------

class TlcResult:
    def __init__(self):
        self.generated = 0
        self.distinct = 0
        self.initial = 0
        self.depth = 0
        self.records = {}      # tag -> list of decoded JSON payloads
        self.out = ""
        self.violated = None   # name of violated invariant / property, if any
        self.wall = 0.0
        self.coverage = {}

    @property
    def transitions(self):
        return max(self.generated - self.initial, 0)


_TAG_RE = re.compile(r'^<<"([A-Z_]+)", (.*)>>$')


def _decode_payload(s):
    s = s.strip()
    if s.startswith('"'):
        inner = json.loads(s)          # TLA+ string escapes are JSON-compatible
        try:
            return json.loads(inner)
        except ValueError:
            return inner
    try:
        return json.loads(s)
    except ValueError:
        return s


def tlc(module, cfg=None, workers=8, timeout=900, env=None, simulate=None, depth=None,
        expect_violation=False, xmx="6g", coverage=False, dfs=False, tag="tlc"):
    """Run TLC on spec/<module>.tla with spec/<cfg>. Returns TlcResult.

    Raises ToolError on parse errors, evaluation errors, timeouts and -- unless
    expect_violation -- on any violated invariant / property: a failure of the
    specification itself is never reported as a VIOLATION of solstat.
    """
    cfg = cfg or (module + ".cfg")
    meta = os.path.join(WORK, "tlc", "%s-%s-%d" % (tag, module, os.getpid()))
    shutil.rmtree(meta, ignore_errors=True)
    os.makedirs(meta, exist_ok=True)
    jopts = ["-Xss1g", "-Xmx" + xmx, "-XX:+UseParallelGC"]
    if dfs:
        jopts.append("-Dtlc2.tool.queue.IStateQueue=StateDeque")
    cmd = ["java"] + jopts + [
        "-cp", "/opt/veriftools/tla/tla2tools.jar:/opt/veriftools/tla/CommunityModules-deps.jar",
        "tlc2.TLC", "-workers", str(workers), "-metadir", meta, "-cleanup",
        "-noGenerateSpecTE", "-config", cfg]
    if coverage:
        cmd += ["-coverage", "1"]
    if simulate:
        cmd += ["-simulate", "num=%d" % simulate, "-seed", str(seed())]
        if depth:
            cmd += ["-depth", str(depth)]
    cmd.append(module + ".tla")
    t0 = time.time()
    try:
        p = run(cmd, cwd=SPEC, env=env, timeout=timeout)
    finally:
        shutil.rmtree(meta, ignore_errors=True)
    r = TlcResult()
    r.wall = time.time() - t0
    r.out = p.stdout + p.stderr
    for line in p.stdout.splitlines():
        m = _TAG_RE.match(line)
        if m:
            try:
                r.records.setdefault(m.group(1), []).append(_decode_payload(m.group(2)))
            except ValueError:
                raise ToolError("cannot decode TLC record: %s" % line[:300])
            continue
        m = re.match(r"^(\d+) states generated, (\d+) distinct states found", line)
        if m:
            r.generated, r.distinct = int(m.group(1)), int(m.group(2))
        m = re.match(r"^Finished computing initial states: (\d+) distinct state", line)
        if m:
            r.initial = int(m.group(1))
        m = re.match(r"^The depth of the complete state graph search is (\d+)", line)
        if m:
            r.depth = int(m.group(1))
        m = re.match(r"^Error: Invariant (\S+) is violated", line)
        if m:
            r.violated = m.group(1)
        if line.startswith("Error: Action property") or line.startswith("Error: Temporal properties"):
            r.violated = r.violated or "property"
        m = re.match(r"^Error: The postcondition", line)
        if line.startswith("Error: ") and "ostcondition" in line:
            r.violated = r.violated or "postcondition"
    log("TLC %s/%s: %d generated, %d distinct, %.1fs, rc=%d" % (
        module, cfg, r.generated, r.distinct, r.wall, p.returncode))
    if expect_violation:
        return r
    if r.violated:
        raise ToolError("specification-level failure in %s (%s): %s violated\n%s" % (
            module, cfg, r.violated, p.stdout[-3000:]))
    if p.returncode != 0:
        err = ToolError("TLC failed on %s (%s), rc=%d\n%s" % (
            module, cfg, p.returncode, (p.stdout + p.stderr)[-4000:]))
        # what kind of failure (first lines of the error report) and how far TLC got, for the caller
        err.generated = r.generated
        m = re.search(r"^Error: (.*(?:\n(?!Error:).*){0,2})", p.stdout, re.M)
        err.first_error = (m.group(1) if m else "")[:600]
        m2 = re.search(r"(Attempted to[^\n]{0,200}|[^\n]{0,120}not in the domain[^\n]{0,80}|[^\n]{0,120}out of bounds[^\n]{0,40}"
                       r"|[^\n]{0,120}was not an element[^\n]{0,80})", p.stdout)
        if m2:
            err.first_error = m2.group(1)
        raise err
    return r


# ---------------------------------------------------------------------------
# harness invocation
# ---------------------------------------------------------------------------

def harness(binary, args, timeout=1800, stdin=None, env=None):
    """Run the harness; it prints exactly one JSON document on stdout."""
    env = dict(env or {})
    env.setdefault("VERIF_SCRATCH", SCRATCH_BASE)
    p = run([binary] + args, timeout=timeout, stdin=stdin, env=env)
    if p.returncode != 0:
        raise ToolError("harness %s failed rc=%d\n%s" % (args[:2], p.returncode, p.stderr[-4000:]))
    try:
        return json.loads(p.stdout)
    except ValueError:
        raise ToolError("harness %s printed no JSON: %s" % (args[:2], p.stdout[:500]))


def write_ndjson(path, records):
    os.makedirs(os.path.dirname(path), exist_ok=True)
    with open(path, "w") as f:
        for r in records:
            f.write(json.dumps(r, separators=(",", ":")))
            f.write("\n")


def read_ndjson(path):
    out = []
    with open(path) as f:
        for line in f:
            line = line.strip()
            if line:
                out.append(json.loads(line))
    return out


# ---------------------------------------------------------------------------
# findings, evidence, reporting
# ---------------------------------------------------------------------------

def known_findings(pid):
    path = os.path.join(ROOT, "known_findings.json")
    if not os.path.exists(path):
        return []
    with open(path) as f:
        doc = json.load(f)
    return [e for e in doc.get("findings", []) if e.get("property") == pid and e.get("status") == "known"]


class Check:
    """Collects what one run of one property's check did and reports it."""

    def __init__(self, pid, tier):
        self.pid = pid
        self.tier = tier
        self.t0 = time.time()
        self.violations = []      # dicts: sig, desc, replay
        self.states = 0
        self.transitions = 0
        self.traces = 0
        self.evaluations = 0
        self.nontrivial = 0
        self.samples = []
        self.rule = ""
        self.extra = {}
        self.assumptions = []
        self.exhaustive = False
        self.is_replay = False

    def add_tlc(self, r):
        self.states += r.distinct
        self.transitions += r.transitions

    def add_harness(self, res, count_traces=True):
        self.evaluations += int(res.get("evaluations", 0))
        self.nontrivial += int(res.get("nontrivial", 0))
        if count_traces:
            self.traces += int(res.get("evaluations", 0))
        for s in res.get("samples", []):
            if len(self.samples) < 8:
                self.samples.append(s)
        for v in res.get("violations", []):
            self.violate(v.get("sig", "?"), v.get("desc", ""), v.get("replay", {}))
        for k, v in res.get("extra", {}).items():
            self.extra[k] = v
        if res.get("tool_errors"):
            raise ToolError("harness reported tool errors: %s" % json.dumps(res["tool_errors"])[:2000])

    def violate(self, sig, desc, replay):
        self.violations.append({"sig": sig, "desc": desc, "replay": replay})

    def finish(self):
        known = known_findings(self.pid)
        unknown = []
        seen_known = set()
        for v in self.violations:
            hit = None
            for k in known:
                if re.fullmatch(k["signature"], v["sig"]):
                    hit = k
                    break
            if hit is not None:
                key = hit["signature"]
                if key not in seen_known:
                    seen_known.add(key)
                    print("KNOWN-FINDING: property=%s %s" % (self.pid, hit.get("what", v["desc"])))
            else:
                unknown.append(v)
        os.makedirs(os.path.join(EVID, "replay"), exist_ok=True)
        printed = set()
        for v in unknown:
            if v["sig"] in printed:
                continue
            printed.add(v["sig"])
            if len(printed) > 25:
                break
            h = hashlib.sha1((self.pid + v["sig"]).encode()).hexdigest()[:12]
            path = os.path.join(EVID, "replay", "%s-%s.json" % (self.pid, h))
            with open(path, "w") as f:
                json.dump({"property": self.pid, "signature": v["sig"], "description": v["desc"],
                           "case": v["replay"]}, f, indent=1)
            print("VIOLATION property=%s replay=%s" % (self.pid, path))
            print("  signature: %s" % v["sig"])
            print("  %s" % v["desc"][:600])
        cov = {
            "states": self.states,
            "transitions": self.transitions,
            "traces_validated_against_impl": self.traces,
            "samples": self.samples if self.samples else [{"note": "no sample recorded"}],
            "evaluations": self.evaluations,
            "distinct_nontrivial": self.nontrivial,
            "rule": self.rule,
            "exhaustive": self.exhaustive,
        }
        cov.update(self.extra)
        ev = {
            "property_id": self.pid,
            "tier": self.tier,
            "seed": seed(),
            "level": "model_checking",
            "coverage": cov,
            "assumptions": self.assumptions,
            "wall_s": round(time.time() - self.t0, 2),
            "violations": len(unknown),
            "known_findings_seen": sorted(seen_known),
        }
        os.makedirs(EVID, exist_ok=True)
        # a replay does not describe a run of the check: keep the evidence of the last real run
        target = os.path.join(EVID, "replay", self.pid + ".last-replay.json") if self.is_replay else os.path.join(EVID, self.pid + ".json")
        with open(target, "w") as f:
            json.dump(ev, f, indent=1)
        log("%s %s: %d evaluations, %d states, %d violations (%d known signatures) in %.1fs" % (
            self.pid, self.tier, self.evaluations, self.states, len(unknown), len(seen_known),
            time.time() - self.t0))
        return 1 if unknown else 0


def scratch_dir(name):
    d = os.path.join(SCRATCH_BASE, "solstat-verif-%s-%d" % (name, os.getpid()))
    shutil.rmtree(d, ignore_errors=True)
    os.makedirs(d)
    return d
