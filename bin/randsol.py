"""Random Solidity programs (a randomized driver for the trace specifications).

A program is drawn from a small grammar that contains every construct some detector looks at, with the things that the
TLC-generated trees keep fixed drawn at random here: identifier spellings, literal values, type widths, the number and
the position of declarations, parameters and statements, nesting, visibilities and modifiers.  The programs are inputs
only: the verdict on them is TLC's, evaluating Patterns.tla / RefDetect.tla / Walk.tla ... on the projected tree, so a
program can only produce an alarm if the specification rejects what solstat reports on it.

program(seed, k) is a pure function of its arguments.
"""
import random

UINTS = ["uint8", "uint16", "uint32", "uint64", "uint96", "uint128", "uint160", "uint248", "uint256", "uint"]
INTS = ["int8", "int64", "int128", "int256", "int"]
BYTESN = ["bytes1", "bytes4", "bytes8", "bytes16", "bytes31", "bytes32"]
VERSIONS = ["0.4.24", "0.5.17", "0.6.12", "0.7.6", "0.8.0", "0.8.3", "0.8.4", "0.8.9", "0.8.12", "0.8.13", "0.8.17", "0.8.19", "0.8.20"]
OPS = ["", "^", ">=", "=", "~", ">", "<=", "<"]
WORDS = ["owner", "total", "count", "balance", "amount", "value", "data", "items", "limit", "rate", "price", "user",
         "token", "start", "end", "fee", "x", "y", "z", "i", "j", "n", "acc", "tmp", "flag", "paused", "admin",
         "vault", "nonce", "seed", "cap", "minted", "reward", "stake", "info", "list", "ids", "who", "to", "from"]
MSG = "abcdefghijklmnopqrstuvwxyz ABCDEFGHIJKLMNOPQRSTUVWXYZ0123456789:_-"


class Gen:
    def __init__(self, seed, k):
        self.r = random.Random("randsol:%s:%s" % (seed, k))
        self.used = set()
        self.n = 0

    # ---- helpers -------------------------------------------------------------------------
    def pick(self, xs):
        return xs[self.r.randrange(len(xs))]

    def chance(self, p):
        return self.r.random() < p

    def fresh(self, style=None):
        """A file-wide unique identifier (the name-domain of the stateful detectors is 'names are unique')."""
        r = self.r
        while True:
            w = self.pick(WORDS)
            st = style or self.pick(["plain", "plain", "camel", "under", "upper", "num", "dunder", "tail"])
            if st == "camel":
                w = w + self.pick(WORDS).capitalize()
            elif st == "under":
                w = "_" + w
            elif st == "upper":
                w = (w + "_" + self.pick(WORDS)).upper()
            elif st == "num":
                w = w + str(r.randrange(0, 100))
            elif st == "dunder":
                w = "__" + w
            elif st == "tail":
                w = w + "_"
            if w not in self.used and w not in KEYWORDS:
                self.used.add(w)
                return w

    def cname(self):
        while True:
            w = self.pick(WORDS).capitalize() + self.pick(["", "Vault", "Token", "Lib", "Base", "V2", "Impl", "Mock", "Test", "Harness", "Script", "Proxy"]) + self.pick(["", "", str(self.r.randrange(9))])
            if w not in self.used:
                self.used.add(w)
                return w

    def string(self, n=None):
        if n is None:
            n = self.pick([0, 1, 5, 12, 20, 30, 31, 32, 33, 34, 40, 64])
        return '"' + "".join(self.pick(MSG) for _ in range(n)) + '"'

    # ---- types ----------------------------------------------------------------------------
    def elem(self):
        return self.pick([self.pick(UINTS), self.pick(UINTS), "uint256", "uint256", self.pick(INTS), "bool", "address", "address",
                          self.pick(BYTESN), "bytes32"])

    def ref_type(self):
        return self.pick(["uint256[]", "address[]", "bytes", "string", "uint8[]", "bytes32[]", "uint256[3]", "bool[]"])

    def state_type(self):
        c = self.r.random()
        if c < 0.62:
            return self.elem()
        if c < 0.78:
            return self.ref_type()
        if c < 0.9:
            return "mapping(%s => %s)" % (self.pick(["address", "uint256", "bytes32"]), self.pick([self.elem(), "uint256", "uint256[]", "mapping(address => uint256)"]))
        if c < 0.95 and self.structs:
            return self.pick(self.structs)
        return self.pick(["IERC20", "address payable"])

    def literal(self, ty):
        r = self.r
        if ty.startswith("uint") or ty.startswith("int"):
            return self.pick(["0", "1", "2", "3", "4", "7", "8", "10", "16", "32", "100", "255", "256", "1000", "1e18", "10**18", "0x10", "1 ether", "2 days", "340282366920938463463374607431768211457", "340282366920938463463374607431768211456", "18446744073709551616", "57896044618658097711785492504343953926634992332820282019728792003956564819967",
                              str(r.randrange(1000))])
        if ty == "bool":
            return self.pick(["true", "false"])
        if ty.startswith("address"):
            return self.pick(["address(0)", "address(0x0)", "address(this)", "msg.sender", "address(1)",
                              "0x5B38Da6a701c568545dCfcB03FcB875f56beddC4", "0x0000000000000000000000000000000000000000",
                              "address(0xdEaD)"])
        if ty.startswith("bytes") and ty != "bytes":
            return self.pick(['""', "0x00", 'keccak256("x")' if ty == "bytes32" else "0x01", "bytes32(0)" if ty == "bytes32" else "0x00"])
        if ty == "string":
            return self.string()
        if ty == "bytes":
            return self.pick(['""', 'hex"00ff"', '"abc"'])
        return None

    # ---- expressions ----------------------------------------------------------------------
    def num_atoms(self, sc):
        xs = [v for v, t in sc if t.startswith("uint") or t.startswith("int")]
        return xs

    def uexpr(self, sc, d=0):
        """An expression of integer type."""
        r = self.r
        atoms = self.num_atoms(sc)
        arrays = [v for v, t in sc if t.endswith("[]") or t.endswith("[3]")]
        maps = [v for v, t in sc if t.startswith("mapping(address => uint") or t.startswith("mapping(uint256 => uint")]
        c = r.random()
        if d >= 3 or c < 0.3:
            if atoms and self.chance(0.7):
                return self.pick(atoms)
            return self.literal("uint256")
        if c < 0.36 and arrays:
            a = self.pick(arrays)
            return self.pick(["%s.length" % a, "%s[%s]" % (a, self.uexpr(sc, 3)), "%s[0]" % a])
        if c < 0.40 and maps:
            m = self.pick(maps)
            return "%s[%s]" % (m, "msg.sender" if "address =>" in m or True and self.types.get(m, "").startswith("mapping(address") else self.uexpr(sc, 3))
        if c < 0.44:
            return self.pick(["block.timestamp", "block.number", "msg.value", "address(this).balance", "msg.sender.balance", "gasleft()",
                              "type(uint256).max", "uint256(uint160(msg.sender))"])
        if c < 0.50 and self.usesafe:
            return "%s.%s(%s)" % (self.paren(self.uexpr(sc, d + 1)), self.pick(["add", "sub", "mul", "div", "mod"]), self.uexpr(sc, d + 1))
        if c < 0.55:
            return "(%s)" % self.uexpr(sc, d + 1)
        if c < 0.58:
            return "uint256(%s)" % self.uexpr(sc, d + 1)
        if c < 0.62:
            return "(%s ? %s : %s)" % (self.bexpr(sc, d + 1), self.uexpr(sc, d + 1), self.uexpr(sc, d + 1))
        op = self.pick(["+", "-", "*", "/", "*", "/", "%", "**", "<<", ">>", "&", "|"])
        a, b = self.uexpr(sc, d + 1), self.uexpr(sc, d + 1)
        if op in ("*", "/", "**", "<<", ">>") and self.chance(0.5):
            b = self.pick(["2", "4", "8", "16", "3", "10", "1", "0", "32", "64", "256", "1024", "2**3", "1e18"])
        if op in ("*",) and self.chance(0.2):
            a, b = b, a
        return "%s %s %s" % (a, op, b)

    def paren(self, e):
        return e if e.replace("_", "a").replace(".", "a").isalnum() else "(%s)" % e

    def aexpr(self, sc):
        xs = [v for v, t in sc if t.startswith("address")]
        c = self.r.random()
        if xs and c < 0.55:
            return self.pick(xs)
        return self.pick(["msg.sender", "tx.origin", "address(0)", "address(this)", "address(0x0)", "owner" if ("owner", "address") in sc else "msg.sender",
                          "address(0)", "payable(msg.sender)", "address(uint160(1))", "block.coinbase"])

    def bexpr(self, sc, d=0):
        r = self.r
        bools = [v for v, t in sc if t == "bool"]
        c = r.random()
        if d >= 3:
            return self.pick(bools) if bools and self.chance(0.6) else self.pick(["true", "false"])
        if c < 0.36:
            op = self.pick(["<", "<=", ">", ">=", "==", "!=", "<", ">", ">=", "<="])
            return "%s %s %s" % (self.uexpr(sc, d + 2), op, self.uexpr(sc, d + 2))
        if c < 0.50:
            op = self.pick(["==", "!="])
            a, b = self.aexpr(sc), self.aexpr(sc)
            return "%s %s %s" % (a, op, b)
        if c < 0.62 and bools:
            b = self.pick(bools)
            return self.pick(["%s == true", "%s == false", "%s != true", "%s != false", "true == %s", "false == %s", "!%s", "%s"]) % b
        if c < 0.70:
            return "%s %s %s" % (self.bexpr(sc, d + 1), self.pick(["&&", "||"]), self.bexpr(sc, d + 1))
        if c < 0.74:
            return "!(%s)" % self.bexpr(sc, d + 1)
        if c < 0.78:
            return "(%s) == %s" % (self.bexpr(sc, d + 1), self.pick(["true", "false"]))
        if c < 0.82:
            return "keccak256(abi.encodePacked(%s)) == keccak256(abi.encodePacked(%s))" % (self.uexpr(sc, 2), self.uexpr(sc, 2))
        if bools:
            return self.pick(bools)
        return "%s > 0" % self.uexpr(sc, d + 2)

    def hexpr(self, sc):
        a = self.uexpr(sc, 2)
        b = self.aexpr(sc)
        return self.pick(["keccak256(abi.encodePacked(%s, %s))" % (a, b), "keccak256(abi.encode(%s))" % a, "keccak256(abi.encodePacked(%s))" % a,
                          "keccak256(bytes(%s))" % self.string(), "sha256(abi.encodePacked(%s))" % a, "keccak256(abi.encodePacked(%s, %s, %s))" % (a, b, a)])

    # ---- statements -----------------------------------------------------------------------
    def lvalue(self, sc, want):
        xs = [v for v, t in sc if want(t) and v in self.writable]
        return self.pick(xs) if xs else None

    def stmt(self, sc, d, inloop=False):
        r = self.r
        c = r.random() * 1.12
        if c > 1.0:
            x = self.extra_stmt(sc, d, inloop)
            if x:
                return x
            c = r.random()
        isnum = lambda t: t.startswith("uint") or t.startswith("int")
        arrays = [v for v, t in sc if t in ("uint256[]", "uint8[]", "uint256[3]") and v in self.writable]
        maps = [v for v, t in sc if t.startswith("mapping(address => uint") and v in self.writable]
        if c < 0.13:
            v = self.lvalue(sc, isnum)
            if v:
                op = self.pick(["=", "=", "+=", "-=", "*=", "/=", "%=", "|=", "<<="])
                e = self.uexpr(sc)
                if op == "=" and self.chance(0.4):
                    e = "%s %s %s" % (v, self.pick(["+", "-", "*", "/"]), self.uexpr(sc, 2))
                return ["%s %s %s;" % (v, op, e)]
        if c < 0.22:
            v = self.lvalue(sc, isnum)
            if v:
                s = self.pick(["%s++;", "++%s;", "%s--;", "--%s;", "%s += 1;", "%s -= 1;", "%s = %s + 1;"])
                s = s % ((v, v) if s.count("%s") == 2 else v)
                if self.chance(0.25):
                    return ["unchecked { %s }" % s] if self.chance(0.5) else ["unchecked {", "    " + s, "}"]
                return [s]
        if c < 0.30 and (arrays or maps):
            if arrays and (not maps or self.chance(0.5)):
                a = self.pick(arrays)
                idx = self.pick(["0", "1", self.pick(self.num_atoms(sc) or ["0"]), "%s.length - 1" % a])
            else:
                a = self.pick(maps)
                idx = self.pick(["msg.sender", self.aexpr(sc)])
            idx2 = idx if self.chance(0.8) else self.pick(["0", "msg.sender" if a in maps else "2"])
            e = self.uexpr(sc, 2)
            form = self.pick(["{a}[{i}] = {a}[{j}] + {e};", "{a}[{i}] = {a}[{j}] - {e};", "{a}[{i}] += {e};", "{a}[{i}] -= {e};", "{a}[{i}] = {e};",
                              "{a}[{i}] = {e} + {a}[{j}];", "{a}[{i}] = {a}[{j}] * {e};", "{a}[{i}]++;", "{a}[{i}] = ({a}[{j}] + {e});"])
            return [form.format(a=a, i=idx, j=idx2, e=e)]
        if c < 0.40:
            msg = self.pick(["", "", ', ' + self.string(), ', ' + self.string(), ', ' + self.string(self.pick([31, 32, 33]))])
            cond = self.bexpr(sc)
            k = self.pick(["require", "require", "require", "assert"])
            if k == "assert":
                msg = ""
            return ["%s(%s%s);" % (k, cond, msg)]
        if c < 0.44:
            if self.errors and self.chance(0.5):
                return ["if (%s) revert %s();" % (self.bexpr(sc), self.pick(self.errors))]
            return [self.pick(["if (%s) revert(%s);", "if (%s) { revert(%s); }"]) % (self.bexpr(sc), self.string())]
        if c < 0.52 and d < 3:
            body = self.block(sc, d + 1, inloop)
            out = ["if (%s) {" % self.bexpr(sc)] + ["    " + s for s in body] + ["}"]
            if self.chance(0.4):
                out[-1] = "} else {"
                out += ["    " + s for s in self.block(sc, d + 1, inloop)] + ["}"]
            return out
        if c < 0.62 and d < 3:
            return self.loop(sc, d)
        if c < 0.68:
            ty = self.pick(["uint256", "uint256", self.pick(UINTS), "bool", "address", "bytes32"])
            nm = self.fresh(self.pick(["plain", "camel", "num"]))
            if ty == "bool":
                e = self.bexpr(sc)
            elif ty == "address":
                e = self.aexpr(sc)
            elif ty == "bytes32":
                e = self.hexpr(sc)
            elif ty == "uint256":
                e = self.uexpr(sc)
            else:
                e = "%s(%s)" % (ty, self.uexpr(sc, 2))
            sc.append((nm, ty))
            self.writable.add(nm)
            return ["%s %s = %s;" % (ty, nm, e)]
        if c < 0.74 and self.tokens:
            t = self.pick(self.tokens)
            to, amt = self.aexpr(sc), self.uexpr(sc, 2)
            return [self.pick(["{t}.transfer({a}, {v});", "{t}.transferFrom(msg.sender, {a}, {v});", "{t}.approve({a}, {v});", "{t}.safeTransfer({a}, {v});",
                               "require({t}.transfer({a}, {v}));", "bool ok%d = {t}.transfer({a}, {v});" % self.bump(), "IERC20({t}).transfer({a}, {v});",
                               "{t}.balanceOf({a});", "{t}.safeApprove({a}, {v});", "payable({a}).transfer({v});"]).format(t=t, a=to, v=amt)]
        if c < 0.78 and self.events:
            return ["emit %s(%s);" % (self.pick(self.events), self.uexpr(sc, 2))]
        if c < 0.81:
            return [self.pick(["selfdestruct(payable(msg.sender));", "selfdestruct(payable(%s));" % self.aexpr(sc)])] if self.chance(0.5) else \
                   ["(bool s%d, ) = %s.call{value: %s}(\"\");" % (self.bump(), self.aexpr(sc), self.uexpr(sc, 3))]
        if c < 0.85:
            v = self.lvalue(sc, lambda t: t == "bytes32")
            if v:
                return ["%s = %s;" % (v, self.hexpr(sc))]
        if c < 0.90:
            v = self.lvalue(sc, lambda t: t == "bool")
            if v:
                return ["%s = %s;" % (v, self.bexpr(sc))]
        if c < 0.94:
            v = self.lvalue(sc, lambda t: t.startswith("address"))
            if v:
                return ["%s = %s;" % (v, self.aexpr(sc) if not self.types.get(v, "").endswith("payable") else "payable(msg.sender)")]
        if c < 0.955 and self.chance(0.9):
            x = self.extra_stmt(sc, d, inloop)
            if x:
                return x
        if inloop and self.chance(0.5):
            return [self.pick(["continue;", "break;"])]
        v = self.lvalue(sc, isnum)
        if v:
            return ["%s = %s;" % (v, self.uexpr(sc))]
        return ["require(%s);" % self.bexpr(sc)]

    def extra_stmt(self, sc, d, inloop):
        """Less common statement shapes: try/catch, tuples, delete, push/pop, member writes, named arguments,
        call options, assembly, do-while, adjacent string parts, spaced member access."""
        isnum = lambda t: t.startswith("uint") or t.startswith("int")
        k = self.pick(["try", "try", "tuple", "delete", "push", "member", "named-revert", "named-call", "assembly", "dowhile",
                       "adjacent", "spaced", "nested-map", "ternary-stmt", "new", "this-call", "tuple-decl", "return-early", "block", "emit-named",
                       "slice", "unary"])
        v = self.lvalue(sc, isnum)
        if k == "try" and self.tokens and d < 3:
            t = self.pick(self.tokens)
            call = self.pick(["%s.balanceOf(%s)" % (t, self.aexpr(sc)), "%s.transfer(%s, %s)" % (t, self.aexpr(sc), self.uexpr(sc, 3)),
                              "%s.safeTransfer(%s, %s)" % (t, self.aexpr(sc), self.uexpr(sc, 3))])
            rets = ""
            inner = list(sc)
            if "balanceOf" in call and self.chance(0.6):
                rv = self.fresh("num")
                rets = " returns (uint256 %s)" % rv
                inner.append((rv, "uint256"))
            elif ".transfer(" in call and self.chance(0.5):
                rets = " returns (bool)"
            body = self.block(inner, d + 1, inloop)
            cb = self.block(sc, d + 2, inloop) if self.chance(0.6) else []
            cl = self.pick(["catch", "catch Error(string memory why%d)" % self.bump(), "catch (bytes memory low%d)" % self.bump()])
            return ["try %s%s {" % (call, rets)] + ["    " + s for s in body] + ["} %s {" % cl] + ["    " + s for s in cb] + ["}"]
        if k == "tuple":
            nums = [x for x, t in sc if t == "uint256" and x in self.writable]
            if len(nums) >= 2:
                a, b = self.r.sample(nums, 2)
                return [self.pick(["(%s, %s) = (%s, %s);" % (a, b, b, a), "(%s, ) = (%s, %s);" % (a, self.uexpr(sc, 3), b), "(, %s) = (1, %s);" % (b, self.uexpr(sc, 3))])]
        if k == "delete":
            xs = [x for x, t in sc if x in self.writable and not t.startswith("mapping")]
            if xs:
                x = self.pick(xs)
                t = dict(sc)[x]
                if t.endswith("[]") and self.chance(0.5):
                    return ["delete %s[0];" % x]
                return ["delete %s;" % x]
        if k == "push":
            xs = [x for x, t in sc if t in ("uint256[]", "uint8[]", "address[]", "bytes32[]", "bool[]") and x in self.writable and x in self.types]
            if xs:
                x = self.pick(xs)
                t = dict(sc)[x][:-2]
                e = {"uint256": self.uexpr(sc, 2), "uint8": "uint8(%s)" % self.uexpr(sc, 3), "address": self.aexpr(sc), "bytes32": self.hexpr(sc), "bool": self.bexpr(sc, 2)}[t]
                return [self.pick(["%s.push(%s);" % (x, e), "%s.pop();" % x])]
        if k == "member":
            xs = [x for x, t in sc if t in self.structs and x in self.writable]
            if xs:
                x = self.pick(xs)
                fs = self.struct_fields.get(dict(sc)[x], [])
                fs = [f for f, t in fs if isnum(t)]
                if fs:
                    f = self.pick(fs)
                    return [self.pick(["%s.%s = %s;", "%s.%s += %s;"]) % (x, f, self.uexpr(sc, 2)) if self.chance(0.8) else "%s.%s++;" % (x, f)]
        if k == "named-revert" and self.named_errors:
            e, f = self.pick(self.named_errors)
            return ["if (%s) revert %s({%s: %s});" % (self.bexpr(sc), e, f, self.uexpr(sc, 2))]
        if k == "named-call" and self.tokens:
            t = self.pick(self.tokens)
            return [self.pick(["%s.transfer({to: %s, v: %s});", "%s.approve({s: %s, v: %s});"]) % (t, self.aexpr(sc), self.uexpr(sc, 3))]
        if k == "assembly" and v:
            return self.pick([["assembly { %s := add(%s, 1) }" % (v, v)],
                              ['assembly ("memory-safe") { %s := add(%s, 2) }' % (v, v)],
                              ["assembly {", "    let p := mload(0x40)", "    %s := mul(p, 2)" % v, "}"],
                              ["assembly {", "    let p := mload(0x40)", "    mstore(p, %s)" % v, "}"]])
        if k == "dowhile" and v and d < 3:
            return ["do {"] + ["    " + s for s in self.block(sc, d + 1, True)] + ["} while (%s %s %s);" % (v, self.pick(["<", ">", "<=", ">="]), self.uexpr(sc, 3))]
        if k == "adjacent":
            return ["require(%s, %s %s);" % (self.bexpr(sc), self.string(self.pick([3, 16, 20])), self.string(self.pick([3, 16, 20])))]
        if k == "spaced" and self.tokens:
            t = self.pick(self.tokens)
            return [self.pick(["%s. approve(%s, %s);", "%s .transfer(%s, %s);", "%s./* c */transferFrom(msg.sender, %s, %s);", "%s\n        .transfer(%s, %s);"]) % (t, self.aexpr(sc), self.uexpr(sc, 3))]
        if k == "nested-map":
            xs = [x for x, t in sc if t.startswith("mapping(address => mapping(address") and x in self.writable]
            if xs:
                x = self.pick(xs)
                return [self.pick(["%s[msg.sender][%s] = %s;", "%s[msg.sender][%s] += %s;", "%s[msg.sender][%s] = %s + 1;"]) % (x, self.aexpr(sc), self.uexpr(sc, 2))]
        if k == "ternary-stmt" and v:
            return ["%s = %s ? %s : %s;" % (v, self.bexpr(sc, 1), self.uexpr(sc, 2), self.uexpr(sc, 2))]
        if k == "new" and self.bases and self.chance(0.5):
            return ["address c%d = address(new %s());" % (self.bump(), self.pick(self.bases))]
        if k == "this-call" and self.external_fns:
            return ["this.%s();" % self.pick(self.external_fns)]
        if k == "tuple-decl":
            a, b = self.fresh("num"), self.fresh("num")
            sc.append((a, "uint256"))
            sc.append((b, "bool"))
            self.writable.update([a, b])
            return ["(uint256 %s, bool %s) = (%s, %s);" % (a, b, self.uexpr(sc[:-2], 2), self.bexpr(sc[:-2], 2))]
        if k == "slice":
            lo, hi = self.pick([("", ""), ("", ""), ("4", ""), ("", "4"), ("0", "32"), (self.uexpr(sc, 3), "")])
            return ["bytes memory cut%d = msg.data[%s:%s];" % (self.bump(), lo, hi)]
        if k == "unary" and v:
            return ["%s = %s%s;" % (v, self.pick(["+", "-", "~", "+"]), self.paren(self.uexpr(sc, 2)))]
        if k == "block" and d < 3:
            return ["{"] + ["    " + s for s in self.block(sc, d + 1, inloop)] + ["}"]
        if k == "emit-named" and self.events:
            return ["emit %s({v: %s});" % (self.pick(self.events), self.uexpr(sc, 2))]
        return None

    def bump(self):
        self.n += 1
        return self.n

    def loop(self, sc, d):
        arrays = [v for v, t in sc if t.endswith("[]") or t.endswith("[3]")]
        i = self.fresh(self.pick(["plain", "num"]))
        ity = self.pick(["uint256", "uint256", "uint", "uint8"])
        if arrays and self.chance(0.7):
            a = self.pick(arrays)
            bound = self.pick(["%s.length" % a, "%s.length" % a, "%s.length - 1" % a, "len%d" % self.bump()])
        else:
            bound = self.uexpr(sc, 3)
        pre = []
        if bound.startswith("len"):
            pre = ["uint256 %s = %s.length;" % (bound, a)]
        op = self.pick(["<", "<", "<=", "!=", ">"])
        step = self.pick(["%s++", "++%s", "%s += 1", "%s = %s + 1", "%s--", "%s += 2"])
        step = step % ((i, i) if step.count("%s") == 2 else i)
        inner = sc + [(i, ity)]
        self.writable.add(i)
        body = self.block(inner, d + 1, True)
        kind = self.pick(["for", "for", "for", "while", "forunchecked", "forever"])
        if kind == "forever":
            # no condition at all (and, every other time, no initialisation either)
            head = self.pick(["for (;;) {", "for (%s %s = 0;; %s) {" % (ity, i, step), "for (;; %s) {" % step if False else "for (;;) {"])
            return pre + ([] if "=" in head else ["%s %s = 0;" % (ity, i)]) + [head] + ["    " + s for s in body] + ["    if (%s %s %s) break;" % (i, op, bound), "}"]
        if kind == "for":
            init = self.pick(["%s %s = 0" % (ity, i), "%s %s" % (ity, i), "%s %s = 1" % (ity, i)])
            return pre + ["for (%s; %s %s %s; %s) {" % (init, i, op, bound, step)] + ["    " + s for s in body] + ["}"]
        if kind == "forunchecked":
            return pre + ["for (%s %s = 0; %s %s %s; ) {" % (ity, i, i, op, bound)] + ["    " + s for s in body] + ["    unchecked { ++%s; }" % i, "}"]
        return pre + ["%s %s = 0;" % (ity, i), "while (%s %s %s) {" % (i, op, bound)] + ["    " + s for s in body] + ["    %s;" % step, "}"]

    def block(self, sc, d, inloop=False):
        sc = list(sc)
        out = []
        for _ in range(self.pick([1, 1, 2, 2, 3, 4] if d else [1, 2, 3, 4, 5, 6])):
            out += self.stmt(sc, d, inloop)
        return out

    # ---- declarations ---------------------------------------------------------------------
    def struct(self, indent):
        nm = self.cname()
        n = self.pick([1, 2, 3, 3, 4, 5, 6])
        fields = []
        for _ in range(n):
            ty = self.pick([self.elem(), self.elem(), self.elem(), "uint256[]", "string", "mapping(address => uint256)" if indent else "bytes"])
            fn = self.fresh()
            fields.append("%s %s;" % (ty, fn))
            self.struct_fields.setdefault(nm, []).append((fn, ty))
        if self.chance(0.3):
            return nm, [indent + "struct %s { %s }" % (nm, " ".join(fields))]
        return nm, [indent + "struct %s {" % nm] + [indent + "    " + f for f in fields] + [indent + "}"]

    def state_var(self, ctx):
        ty = self.state_type()
        vis = self.pick(["", "", "public", "private", "internal", "private"])
        nm = self.fresh()
        mut = ""
        init = None
        lit = self.literal(ty)
        c = self.r.random()
        if lit is not None and ty not in ("string", "bytes") or ty == "string" and c < 0.3:
            if c < 0.18:
                mut, init = "constant", lit
            elif c < 0.30 and self.ver_ge_065 and ty not in ("string", "bytes"):
                mut = "immutable"
                init = lit if self.chance(0.4) else None
            elif c < 0.55:
                init = lit
        mods = [m for m in (vis, mut) if m]
        if len(mods) == 2 and self.chance(0.3):
            mods.reverse()
        decl = " ".join([ty] + mods + [nm]) + (" = %s" % init if init is not None else "") + ";"
        ctx["vars"].append((nm, ty))
        self.types[nm] = ty
        if mut == "immutable":
            ctx["imm"].append((nm, ty, init is None))
        elif mut == "":
            self.writable.add(nm)
        if ty == "IERC20":
            self.tokens.append(nm)
        return decl

    def params(self, external, allow_named=True):
        ps = []
        sc = []
        for _ in range(self.pick([0, 1, 1, 2, 2, 3, 4])):
            if self.chance(0.3):
                ty = self.ref_type()
                if ty == "uint256[3]" and False:
                    pass
                loc = self.pick(["memory", "memory", "calldata"]) if external else "memory"
                nm = self.fresh(self.pick(["plain", "under", "camel"])) if (allow_named and self.chance(0.92)) else ""
                ps.append(("%s %s %s" % (ty, loc, nm)).strip())
                if nm:
                    sc.append((nm, ty))
                    if loc == "memory":
                        self.writable.add(nm)
            else:
                ty = self.pick([self.elem(), "uint256", "address", "IERC20" if self.chance(0.2) else "uint256"])
                nm = self.fresh(self.pick(["plain", "under", "camel"])) if (allow_named and self.chance(0.92)) else ""
                ps.append(("%s %s" % (ty, nm)).strip())
                if nm:
                    sc.append((nm, ty))
                    self.writable.add(nm)
                    if ty == "IERC20":
                        self.tokens.append(nm)
        return ps, sc

    def function(self, ctx, kind="function"):
        vis = self.pick(["public", "external", "internal", "private", "public", "external"])
        if kind == "constructor":
            vis = self.pick(["", "", "public"]) if True else ""
        style = None
        if vis in ("internal", "private"):
            style = self.pick(["under", "plain", "camel", "under"])
        else:
            style = self.pick(["plain", "camel", "camel", "under"])
        nm = self.fresh(style) if kind == "function" else ""
        if kind == "function":
            # function names need not be unique: overloads in one contract, the same helper name in several contracts
            if self.fn_names and self.chance(0.15):
                nm = self.pick(self.fn_names)
            self.fn_names.append(nm)
        ps, sc = self.params(vis in ("public", "external") and kind == "function")
        mut = self.pick(["", "", "", "payable", "view"]) if vis in ("public", "external", "") else self.pick(["", "", "view"])
        mods = []
        if ctx["modifiers"] and self.chance(0.35):
            mods.append(self.pick(ctx["modifiers"]))
        rets = ""
        retty = None
        if kind == "function" and self.chance(0.35):
            retty = self.pick(["uint256", "bool", "address", "bytes32"])
            rets = " returns (%s%s)" % (retty, self.pick(["", "", " r%d" % self.bump()]))
        head_mods = [m for m in [vis, mut] + mods if m]
        if self.chance(0.25):
            self.r.shuffle(head_mods)
        gap = self.pick(["", "", "", " ", "\n        ", "/*c*/"])
        head = ("function %s" % nm if kind == "function" else "constructor") + gap + "(%s) %s%s" % (", ".join(ps), " ".join(head_mods), rets)
        head = head.rstrip()
        if kind == "function" and not ps and vis in ("public", "external"):
            self.external_fns.append(nm)
        scope = list(ctx["vars"]) + sc
        saved = set(self.writable)
        body = []
        if kind == "constructor":
            for (v, ty, need) in ctx["imm"]:
                if need or self.chance(0.0):
                    self.writable.add(v)
                    body.append("%s = %s;" % (v, self.literal(ty)))
        if kind == "constructor" and self.chance(0.35):
            # tuple assignments in a constructor: state variables next to parameters, locals, holes, variables of other types
            svars = [v for v, t in ctx["vars"] if (t.startswith("uint") or t.startswith("int")) and v in self.writable]
            others = [v for v, t in sc if t.startswith("uint")] + [v for v, t in ctx["vars"] if t in ("IERC20", "address", "bool") and v in self.writable]
            if svars:
                a = self.pick(svars)
                if others and self.chance(0.7):
                    b = self.pick(others)
                    tb = dict(list(ctx["vars"]) + sc)[b]
                    rhs = {"IERC20": "IERC20(address(0))", "address": "msg.sender", "bool": "true"}.get(tb, "2")
                    body.append(self.pick(["(%s, %s) = (1, %s);" % (a, b, rhs), "(%s, %s) = (%s, 1);" % (b, a, rhs)]))
                else:
                    loc = self.fresh("num")
                    body.append("uint256 %s;" % loc)
                    body.append(self.pick(["(%s, %s) = (3, 4);" % (a, loc), "(, %s) = (5, 6);" % a, "(%s, ) = (7, 8);" % a, "(%s, %s) = (%s, %s);" % (loc, a, a, loc)]))
        if mut == "view":
            # no state writes in a view function: locals only
            self.writable = {v for v in self.writable if v not in dict(ctx["vars"])}
            body += self.block(scope, 0)
        else:
            body += self.block(scope, 0)
        if retty:
            e = {"uint256": self.uexpr(scope), "bool": self.bexpr(scope), "address": self.aexpr(scope), "bytes32": self.hexpr(scope)}[retty]
            body.append("return %s;" % e)
        self.writable = saved
        if self.chance(0.12) and kind == "function" and vis in ("public", "external"):
            return [head.replace(" {", "") + " {}"] if self.chance(0.5) else [head + " {", "}"]
        return [head + " {"] + ["    " + s for s in body] + ["}"]

    def modifier(self, ctx):
        nm = self.pick(["onlyOwner", "onlyAdmin", "whenNotPaused", "nonReentrant", "only" + self.cname(), "check" + self.cname(), "auth", "onlyowner"])
        if nm in self.used:
            nm = nm + str(self.bump())
        self.used.add(nm)
        ctx["modifiers"].append(nm)
        owner = [v for v, t in ctx["vars"] if t == "address"]
        cond = "msg.sender == %s" % self.pick(owner) if owner and self.chance(0.7) else self.bexpr(ctx["vars"])
        body = self.pick([["require(%s);" % cond, "_;"], ["require(%s, %s);" % (cond, self.string()), "_;"], ["_;"], ["if (%s) {" % cond, "    _;", "}"],
                          ["_;", "require(%s);" % cond]])
        return ["modifier %s() {" % nm] + ["    " + s for s in body] + ["}"]

    def contract(self):
        kind = self.pick(["contract", "contract", "contract", "contract", "abstract contract", "library"])
        if kind == "abstract contract" and not self.ver_ge_060:
            kind = "contract"
        nm = self.cname()
        ctx = {"vars": [], "imm": [], "modifiers": []}
        members = []
        inherit = ""
        if kind != "library" and self.bases and self.chance(0.3):
            inherit = " is " + self.pick(self.bases)
        if self.usesafe and kind != "library":
            members.append(["using SafeMath for uint256;"])
        nvars = self.pick([0, 1, 2, 3, 4, 5, 6, 8]) if kind != "library" else 0
        decls = []
        for _ in range(nvars):
            decls.append([self.state_var(ctx)])
        for _ in range(self.pick([0, 0, 1, 1, 2])):
            s, lines = self.struct("")
            self.structs.append(s)
            decls.append(lines)
        for _ in range(self.pick([0, 0, 1, 2])):
            ev = self.cname()
            self.events.append(ev)
            decls.append(["event %s(uint256 %s);" % (ev, self.pick(["indexed v", "v", ""]))])
        if self.chance(0.12):
            # text that looks like a version elsewhere in the file
            decls.append([self.pick(['string public constant VERSION = "0.1.0";', 'string constant SEMVER = "1.2.3";', '// migrated from 0.4.26, audited at v0.7.6'])])
        if self.ver_ge_084 and self.chance(0.4):
            er = self.cname()
            self.errors.append(er)
            decls.append(["error %s();" % er])
            if self.chance(0.5):
                er2 = self.cname()
                self.named_errors.append((er2, "code"))
                decls.append(["error %s(uint256 code);" % er2])
        if kind != "library":
            for _ in range(self.pick([0, 0, 1, 1, 2])):
                decls.append(self.modifier(ctx))
        fns = []
        for _ in range(self.pick([1, 2, 2, 3, 4, 5])):
            fns.append(self.function(ctx))
        need_ctor = any(need for (_, _, need) in ctx["imm"])
        if kind != "library" and (need_ctor or self.chance(0.5)):
            ctor = self.function(ctx, "constructor")
            pos = self.r.randrange(len(fns) + 1) if self.chance(0.5) else 0
            fns.insert(pos, ctor)
        if kind != "library" and self.chance(0.2):
            fns.insert(self.r.randrange(len(fns) + 1), [self.pick(["receive() external payable {}", "fallback() external payable {}", "fallback() external {}"])
                                                         if self.ver_ge_060 else "function() external payable {}"])
        # declarations first, mostly; sometimes interleaved
        if self.chance(0.3):
            rest = decls + fns
            self.r.shuffle(rest)
        else:
            self.r.shuffle(decls)
            rest = decls + fns
        members += rest
        out = ["%s %s%s {" % (kind, nm, inherit)]
        for m in members:
            if self.chance(0.15):
                out.append("    " + self.pick(["// x++; selfdestruct(msg.sender); token.transfer(a, b);", "/* constructor( require(x == true, \"long\"); */",
                                               "/// @notice a / b * c and i++ in a comment", "/*", " * pragma solidity ^0.8.0; uint256 constant x = 1;", " */"])
                           if False else "    " + self.pick(["// x++; selfdestruct(msg.sender); token.transfer(a, b);",
                                                             "/* constructor( require(x == true, \"long\"); */",
                                                             "/// @notice a / b * c and i++ in a comment",
                                                             "/* pragma solidity ^0.8.0; uint256 constant x = 1; */",
                                                             "// solstat-ignore-next-line", "// solhint-disable-next-line no-inline-assembly",
                                                             "/* solstat-ignore */ // slither-disable-next-line all",
                                                             "/* \u65e5\u672c\u8a9e\u306e\u30b3\u30e1\u30f3\u30c8\u3067\u3059\u3001\u3053\u308c\u306f\u9577\u3044 \U0001F600\U0001F600\U0001F600 */",
                                                             "// \u00c4\u00d6\u00dc \u2014 \u0435\u0449\u0451 \u2014 \u4e2d\u6587\u6ce8\u91ca\u4e2d\u6587\u6ce8\u91ca"]))
            out += ["    " + s for s in m]
            if self.chance(0.5):
                out.append("")
        out.append("}")
        if kind == "contract" or kind == "abstract contract":
            self.bases.append(nm)
        elems = [t for _, t in ctx["vars"] if self.literal(t) is not None and t not in ("string", "bytes")]
        if len(elems) >= 2 and self.chance(0.25):
            # a second contract declaring variables of the same types in another order
            perm = list(elems)
            self.r.shuffle(perm)
            out += ["", "contract %s {" % self.cname()] + ["    %s %s;" % (t, self.fresh()) for t in perm] + ["}"]
        return out

    def program(self):
        r = self.r
        out = []
        if self.chance(0.7):
            out.append("// SPDX-License-Identifier: " + self.pick(["MIT", "UNLICENSED", "GPL-3.0"]))
        ver = self.pick(VERSIONS)
        vt = tuple(int(x) for x in ver.split("."))
        self.ver_ge_060 = vt >= (0, 6, 0)
        self.ver_ge_065 = vt >= (0, 6, 5)
        self.ver_ge_084 = vt >= (0, 8, 4)
        op = self.pick(OPS)
        has_pragma = self.chance(0.93)
        unrelated = ["pragma abicoder v2;", "pragma experimental ABIEncoderV2;", 'pragma experimental "v0.5.0";', "pragma experimental SMTChecker;"]
        if self.chance(0.12):
            out.append(self.pick(unrelated))
        if has_pragma:
            sp = self.pick([" ", " ", "", "  "]) if op else " "
            v = op + (sp if op else "") + ver
            if self.chance(0.15):
                v = ">=" + ver + " <" + self.pick(["0.9.0", "0.8.30", "1.0.0"])
            out.append("pragma solidity %s;" % v)
        else:
            self.ver_ge_060 = self.ver_ge_065 = self.ver_ge_084 = True
        if self.chance(0.15):
            out.append(self.pick(["pragma abicoder v2;", "pragma experimental ABIEncoderV2;"]))
        if self.chance(0.3):
            out.append(self.pick(['import "./IERC20.sol";', 'import {SafeMath} from "./SafeMath.sol";', 'import * as L from "./lib.sol";', 'import "hardhat/console.sol";',
                                    'import "@openzeppelin/contracts@3.4.2/math/SafeMath.sol";', 'import "lib/v0.8.19/Base.sol";']))
        out.append("")
        self.structs, self.events, self.errors, self.tokens, self.bases = [], [], [], [], []
        self.struct_fields, self.named_errors, self.external_fns = {}, [], []
        self.fn_names = []
        self.types = {}
        self.writable = set()
        self.usesafe = self.chance(0.35)
        self.used.update(["IERC20", "SafeMath"])
        out += ["interface IERC20 {",
                "    function transfer(address to, uint256 v) external returns (bool);",
                "    function transferFrom(address f, address to, uint256 v) external returns (bool);",
                "    function approve(address s, uint256 v) external returns (bool);",
                "    function balanceOf(address a) external view returns (uint256);",
                "    function safeTransfer(address to, uint256 v) external;",
                "    function safeApprove(address to, uint256 v) external;",
                "}", ""]
        if self.usesafe:
            out += ["library SafeMath {",
                    "    function add(uint256 a, uint256 b) internal pure returns (uint256) { return a + b; }",
                    "    function sub(uint256 a, uint256 b) internal pure returns (uint256) { return a - b; }",
                    "    function mul(uint256 a, uint256 b) internal pure returns (uint256) { return a * b; }",
                    "    function div(uint256 a, uint256 b) internal pure returns (uint256) { return a / b; }",
                    "    function mod(uint256 a, uint256 b) internal pure returns (uint256) { return a % b; }",
                    "}", ""]
        if self.chance(0.25):
            s, lines = self.struct("")
            self.structs.append(s)
            out += lines + [""]
        for _ in range(self.pick([1, 1, 1, 2, 2, 3])):
            out += self.contract() + [""]
        if self.chance(0.15):
            lib = self.pick(["SafeTransferLib", "SafeERC20", "TransferHelper", "SafeApprove%d" % self.bump()])
            out += ["library %s {" % lib,
                    "    function pull(IERC20 t, address from, uint256 v) internal { require(t.transferFrom(from, address(this), v)); }",
                    "    function sel() internal pure returns (bytes4) { return IERC20.transfer.selector; }",
                    "}", ""]
            for _ in range(self.pick([1, 1, 2])):
                out += ["function %s(IERC20 t, address to, uint256 v) {" % self.fresh("camel"),
                        "    " + self.pick(["t.transfer(to, v);", "t.approve(to, v);", "t.transferFrom(msg.sender, to, v / 2 * 2);"]), "}", ""]
        if self.chance(0.15) and self.ver_ge_084:
            out += ["function %s(uint256 a, uint256 b) pure returns (uint256) {" % self.fresh("camel"), "    return %s;" % self.uexpr([("a", "uint256"), ("b", "uint256")]), "}", ""]
        text = "\n".join(out) + "\n"
        c = r.random()
        if c < 0.10:
            text = self.pick(["\n", "\n\n", "\r\n\r\n", " \n\t\n", "\ufeff" if False else "\n\n\n"]) + text
        elif c < 0.16:
            text = text.replace("\n", "\r\n")
        elif c < 0.20:
            text = text.rstrip("\n")
        elif c < 0.26:
            text = "// \u65e5\u672c\u8a9e\u306e\u30b3\u30e1\u30f3\u30c8 \u00e9\u00e8 \U0001F600\n" + text
        return text


KEYWORDS = {"from", "to", "end", "start", "x", "type", "value", "data", "balance", "token", "i", "j", "n", "y", "z"} - \
    {"from", "to", "end", "start", "x", "value", "data", "balance", "token", "i", "j", "n", "y", "z"}
KEYWORDS |= {"seconds", "days", "after", "of", "in", "final", "match", "error"}


def program(seed, k):
    return Gen(seed, k).program()


BOUNDARY_LITS = ["0", "1", "2", "10", "256", "0x0", "1e18", "2**256",
                 "115792089237316195423570985008687907853269984665640564039457584007913129639936"]
BOUNDARY_OPS = ["+", "-", "*", "/", "%", "**", "<<", ">>", "&", "|", "^"]
MATRIX_PARTS = 30


def literal_matrix(version, part):
    """Every pair of binary operators over every pair of boundary literals next to a variable, in all four bracketings
    (part `part` of MATRIX_PARTS): analysis must not abort on any of them (C04), whatever a detector computes from the
    values of the literals."""
    lines = []
    k = 0
    for o1 in BOUNDARY_OPS:
        for o2 in BOUNDARY_OPS:
            for a in BOUNDARY_LITS:
                for b in BOUNDARY_LITS:
                    k += 1
                    if k % MATRIX_PARTS != part:
                        continue
                    lines.append("        y = %s %s %s %s x;" % (a, o1, b, o2))
                    lines.append("        y = (%s %s %s) %s x;" % (a, o1, b, o2))
                    lines.append("        y = x %s (%s %s %s);" % (o2, a, o1, b))
                    lines.append("        y = x %s %s %s %s;" % (o2, a, o1, b))
    head = ["pragma solidity %s;" % version, "contract LiteralMatrix {", "    uint256 y;", "    uint256[] arr;",
            "    function f(uint256 x) public {"]
    tail = ["        arr[0] = arr[0] + 0;", "        arr[2**256] = arr[2**256] / 0 * x;",
            "        for (uint256 i = 0; i < arr.length / 0; i += 0) { y = y / 0; }",
            "        require(x / 0 * 0 == 0 % 0, \"\");", "        require(x > 0 / 0, \"\" \"\");",
            "    }", "}"]
    return "\n".join(head + lines + tail) + "\n"


STRING_FORMS = ['"\\n"', '"\\t\\r"', '"\\\\"', '"\\""', "'single'", "'it\\'s'", '"\\x41\\x00\\xff"', '"\\ud800"', '"\\udfff"', '"\U0001F600"',
                '"\\uD83D"', '"\\u{1F600}"', '"\\0"', '"\\q"', 'unicode"\U0001F600 ok"', 'unicode"caf\u00e9"', 'hex"00ff"', 'hex"00_ff"', "hex''",
                'hex"0"', '"caf\u00e9"', '"tab\tinside"', '"a" "b"', 'unicode"a" unicode"b"', 'hex"00" hex"ff"', '"\\\ncontinued"', '"\\x4"',
                '"\\u00"', '""', "''", '"\\b\\f\\v"', '"\\u000a"', '"\\ud83d\\ud83d"', '"\\ude00\\ud83d"', '"\\ud83d\\ude00"', '"\uffff\ufffe"',
                '"%s {} {0} \\{"']


def string_matrix(version):
    """Every form of string literal the lexer accepts (escapes of every kind, lone and paired surrogates, unicode and
    hex literals, adjacent parts, a line continuation), short and padded beyond 32 bytes, in every place a detector
    looks at a string: analysis must not abort on any of them (C04) whatever it computes from the text of the literal."""
    body = []
    k = 0
    for form in STRING_FORMS:
        longer = form
        if form[0] in "\"'" and len(form) >= 2 and " " not in form[1:-1].replace("\\", ""):
            longer = form[0] + "p" * 33 + form[1:]
        for lit in (form, longer):
            k += 1
            body += ["        require(a > %d, %s);" % (k, lit),
                     "        if (a == %d) { revert(%s); }" % (k, lit),
                     "        h = keccak256(%s);" % (lit if not lit.startswith("unicode") else "bytes(%s)" % lit),
                     "        emit Said(%s);" % lit]
    head = ["pragma solidity %s;" % version, "library SafeMath { function add(uint256 x, uint256 y) internal pure returns (uint256) { return x + y; } }",
            "contract StringMatrix {", "    using SafeMath for uint256;", "    bytes32 h;", "    event Said(string what);",
            "    function f(uint256 a) public {"]
    return "\n".join(head + body + ["        a.add(1);", "    }", "}"]) + "\n"


LVALUE_BASES = ["arr", "s.arr", "s.t.arr", "pools[id].reserves", "pools[id][k].reserves", "getPool().reserves", "this.arr", "(arr)", "(s).arr",
                "lib.Store(slot).arr", "users[msg.sender].balances", "grid[1]", "abi.decode(data, (uint256[]))", "new uint256[](3)", "f(x)[0].arr",
                "super.arr", "type(C).name", "msg.data"]
LVALUE_INDEXES = ["0", "1", "i", "i + 1", "id", "arr.length - 1", "0x0", "1e0", "uint8(0)", "k++"]


def lvalue_matrix(version):
    """Every shape of assignment target and of updated element (identifier, member chains, calls, casts, `this`,
    parentheses, nested indexes) under every form of update: analysis must not abort on any of them (C04)."""
    body = []
    for b in LVALUE_BASES:
        for ix in LVALUE_INDEXES:
            e = "%s[%s]" % (b, ix)
            body += ["        %s = %s + 1;" % (e, e), "        %s = 1 + %s;" % (e, e), "        %s = %s - x;" % (e, e), "        %s += 1;" % e, "        %s++;" % e,
                     "        delete %s;" % e, "        (%s, x) = (1, 2);" % e, "        x = %s / 2 * 2;" % e, "        require(%s >= x, \"\");" % e]
        body += ["        %s = %s;" % (b, b), "        %s.push(1);" % b, "        for (uint256 i = 0; i < %s.length; i++) {}" % b]
    head = ["pragma solidity %s;" % version, "contract LvalueMatrix {", "    uint256[] arr;", "    uint256 x;", "    function f(uint256 id, uint256 k, bytes memory data) public {"]
    return "\n".join(head + body + ["    }", "}"]) + "\n"


def write_many(outdir, seed, count, prefix="g"):
    import os
    names = []
    for k in range(count):
        nm = "%s_%s_%04d.sol" % (prefix, seed, k)
        with open(os.path.join(outdir, nm), "wb") as f:
            f.write(program(seed, k).encode("utf-8"))
        names.append(nm)
    return names


if __name__ == "__main__":
    import sys
    if len(sys.argv) >= 4:
        import os
        os.makedirs(sys.argv[1], exist_ok=True)
        print(len(write_many(sys.argv[1], sys.argv[2], int(sys.argv[3]))))
    else:
        print(program(sys.argv[1] if len(sys.argv) > 1 else "0", int(sys.argv[2]) if len(sys.argv) > 2 else 0))
