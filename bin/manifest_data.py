NOTES = ("Model-based verification with an explicit TLA+ specification (spec/), TLC and conformance checks "
         "through a Rust harness (harness/). Exit codes: 0 held, 1 VIOLATION, 2 tool error. See DESIGN.md.")

NOT_APPLICABLE = {}

CHECKS = {
    "C10": {
        "text": "TLC exhaustively checks the Greedy slot-counting machine against a declarative layout rule and the true optimum over all permutations for every size sequence within the bound; every generated sequence is replayed into storage_slots_used and the two packing detectors, and recorded results on corpus containers and all type spellings are validated by the TV_C10 trace specification.",
        "design_ref": "section 7 C10",
        "note": "Bounded: all sequences up to length 3 (quick) / 4 plus boundary sizes up to 6 (thorough) over the 32 byte-granular sizes; trusts TLC, solang-parser and the harness' type-class projection.",
        "technique": "TLA+ spec (Slots.tla) + TLC exhaustive enumeration + replay into real code + TLC trace validation",
    },
    "C09": {
        "text": "TLC checks exclusivity, monotonicity and placement-independence of the version gates on the pragma-scan machine for every version triple in 0.0.0..2.12.40, operator spelling and header shape; every generated header is rendered and replayed into the four real detectors and the real version extraction; corpus programs under sampled versions are validated by the TV_C09 trace specification.",
        "design_ref": "section 7 C09",
        "note": "Exhaustive over the stated box of versions (quick: all versions bare, boundary versions for all spellings); fixed file body; trusts TLC and solang-parser.",
        "technique": "TLA+ spec (Version.tla) + TLC exhaustive enumeration + replay into real code + TLC trace validation",
    },
    "C02": {
        "text": "TLC checks the offset->line Scan machine against the declarative LineOf on every small text and token-start offset, and the Emit layout machine against LineOf on every gap pattern; texts/offsets are replayed into get_line_number; corpus programs re-laid out with stress layouts and TLC-generated gap patterns are analysed by all 30 detectors and validated by the TV_C02 trace specification.",
        "design_ref": "section 7 C02",
        "note": "Which construct is flagged is decided by C05-C08; here lines must follow the flag tokens observed on the one-token-per-line layout. Bounded text length (6/7 byte classes) and gap patterns (period <= 2).",
        "technique": "TLA+ spec (Lines.tla) + TLC exhaustive enumeration + replay into real code + TLC trace validation",
    },
    "C17": {
        "text": "Corpus programs and variants with code-like string contents are re-laid out with injective gap patterns enumerated by TLC (comments with code-like and multi-byte text, CRLF, tabs, blank lines); the TV_C02 trace specification accepts a run only if exactly the same tokens are flagged as on the one-token-per-line layout and the lines moved with them.",
        "design_ref": "section 7 C17",
        "note": "Compares two runs of the same build; token identity via solang's public lexer; comments next to a pragma value are not generated.",
        "technique": "TLA+ spec (Lines.tla Emit machine) + TLC-generated layouts + TLC trace validation of recorded runs",
    },
}
