NOTES = ("Model-based verification with an explicit TLA+ specification (spec/), TLC and conformance checks "
         "through a Rust harness (harness/). Exit codes: 0 held, 1 VIOLATION, 2 tool error. See DESIGN.md.")

NOT_APPLICABLE = {}

CHECKS = {
    "C10": {
        "text": "TLC exhaustively checks the Greedy slot-counting machine against a declarative layout rule and the true optimum over all permutations for every size sequence within the bound; every generated sequence is replayed into storage_slots_used and the two packing detectors, and recorded results on corpus containers and all type spellings are validated by the TV_C10 trace specification.",
        "design_ref": "section 7 C10",
        "note": "Bounded: all sequences up to length 3 (quick) / 4 plus boundary sizes up to 6 (thorough) over the 32 byte-granular sizes; trusts TLC, solang-parser and the harness' type-class projection.",
        "technique": "TLA+ spec (Slots.tla) + TLC exhaustive enumeration + replay into real code + TLC trace validation",
    },
}
