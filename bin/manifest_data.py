NOTES = ("Model-based verification with an explicit TLA+ specification (spec/), TLC and conformance checks "
         "through a Rust harness (harness/). Exit codes: 0 held, 1 VIOLATION, 2 tool error. See DESIGN.md.")

NOT_APPLICABLE = {}

CHECKS = {
    "C10": {
        "text": "TLC exhaustively checks the Greedy slot-counting machine against a declarative layout rule and the true optimum over all permutations for every size sequence within the bound; every generated sequence is replayed into storage_slots_used and the two packing detectors, and recorded results on corpus containers and all type spellings are validated by the TV_C10 trace specification.",
        "design_ref": "section 7 C10",
        "note": "Bounded: all sequences up to length 3 (quick) / 4 plus boundary sizes up to 6 (thorough) over the 32 byte-granular sizes; trusts TLC, solang-parser and the harness' type-class projection.",
        "technique": "TLA+ spec (Slots.tla) + TLC exhaustive enumeration + replay into real code + TLC trace validation",
    },
    "C09": {
        "text": "TLC checks exclusivity, monotonicity and placement-independence of the version gates on the pragma-scan machine for every version triple in 0.0.0..2.12.40, operator spelling and header shape; every generated header is rendered and replayed into the four real detectors and the real version extraction; corpus programs under sampled versions are validated by the TV_C09 trace specification.",
        "design_ref": "section 7 C09",
        "note": "Exhaustive over the stated box of versions (quick: all versions bare, boundary versions for all spellings); fixed file body; trusts TLC and solang-parser.",
        "technique": "TLA+ spec (Version.tla, VersionGates.tla, GatedContent.tla) + TLC exhaustive enumeration + replay into real code + TLC trace validation of corpus and random programs (gate x tree-derived content); gate lemmas for all naturals proved with TLAPS (VersionProofs.tla)",
    },
    "C02": {
        "text": "TLC checks the offset->line Scan machine against the declarative LineOf on every small text and token-start offset, and the Emit layout machine against LineOf on every gap pattern; texts/offsets are replayed into get_line_number; corpus programs re-laid out with stress layouts and TLC-generated gap patterns are analysed by all 30 detectors and validated by the TV_C02 trace specification.",
        "design_ref": "section 7 C02",
        "note": "Which construct is flagged is decided by C05-C08; here lines must follow the flag tokens observed on the one-token-per-line layout. Bounded text length (6/7 byte classes) and gap patterns (period <= 2).",
        "technique": "TLA+ spec (Lines.tla) + TLC exhaustive enumeration + replay into real code + TLC trace validation",
    },
    "C17": {
        "text": "Corpus programs and variants with code-like string contents are re-laid out with injective gap patterns enumerated by TLC (comments with code-like and multi-byte text, CRLF, tabs, blank lines); the TV_C02 trace specification accepts a run only if exactly the same tokens are flagged as on the one-token-per-line layout and the lines moved with them.",
        "design_ref": "section 7 C17",
        "note": "Compares two runs of the same build; token identity via solang's public lexer; comments next to a pragma value are not generated.",
        "technique": "TLA+ spec (Lines.tla Emit machine) + TLC-generated layouts + TLC trace validation of recorded runs",
    },
    "C11": {
        "text": "TLC checks the renderer machine (any iteration order of the map) for round trip, section-iff and well-formedness over all findings maps within the bound; every map, each pattern alone, each pair, random large maps and end-to-end generate_report runs are rendered by the real code, tokenised with section texts read from /repo, and the TV_Report trace specification evaluates the same predicates on what the code wrote.",
        "design_ref": "section 7 C11",
        "note": "Bounded findings maps in the model; file names from a hostile pool without line breaks; section texts trusted as found in src/report/report_sections.",
        "technique": "TLA+ spec (Report.tla) + TLC + real renderings read back + TLC trace validation",
    },
    "C12": {
        "text": "As C11 with the totals / category / severity predicates: TLC checks them on the renderer machine with three severity buffers for all 16 subsets of the vulnerability patterns crossed with file/line multiplicities; TV_Report evaluates them on the real renderings and on which category parts solstat_report.md contains.",
        "design_ref": "section 7 C12",
        "note": "Maps as analyze_dir produces them (no pattern with an empty file list).",
        "technique": "TLA+ spec (Report.tla) + TLC + real renderings read back + TLC trace validation",
    },
    "C13": {
        "text": "TLC checks that the canonical renderer is a function of the bag of findings and refines the permissive renderer; each bag is rendered 1+k times by the real code from maps filled in different orders (fresh hash keys) and with permuted file vectors, compared byte for byte, and the recorded item sequences are validated by TV_Report.",
        "design_ref": "section 7 C13",
        "note": "Hash seeds vary per HashMap instance inside one process; binary-level repetition across processes and creation histories is exercised by the directory checks.",
        "technique": "TLA+ spec (Report.tla, MC_Report RenderCanon) + TLC + repeated real renderings + TLC trace validation",
    },
    "C03": {
        "text": "TLC checks the explicit-stack directory-walk machine (enter, skip, analyse file, descend, return-and-merge) against the declarative union over every small tree, listing order, name class and ordered pattern selection; every tree is created on tmpfs with the matching creation history, analysed by the real analyze_dir, and TV_DirWalk accepts the recorded run iff the returned map is exactly the union of the per-file results measured on the same build; random corpus trees in addition.",
        "design_ref": "section 7 C03",
        "note": "Listing order is observed, not assumed (tmpfs lists in reverse creation order; the evidence counts how many trees were listed as requested). Bounded tree shapes in the model; random trees up to depth 3 / 25 files.",
        "technique": "TLA+ spec (DirWalk.tla) + TLC exhaustive enumeration + materialised trees through the real analyze_dir + TLC trace validation",
    },
    "C16": {
        "text": "Same machine with the eligibility predicate: TLC checks Inert (result = result of the tree without ineligible files); trees mixing eligible files with hostile ineligible ones are analysed twice by the real analyze_dir (as is / physically pruned) and TV_DirWalk accepts iff both results equal the union over the eligible files; a panic is a violation.",
        "design_ref": "section 7 C16",
        "note": "Valid-Unicode names from a pool of 22 spellings; names containing '.t.sol' elsewhere than at the end are outside the statement and not generated.",
        "technique": "TLA+ spec (DirWalk.tla Eligible/Inert) + TLC + materialised hostile trees through the real analyze_dir + TLC trace validation",
    },
    "C14": {
        "text": "TLC checks the option-resolution machine (abort-iff, abort-before-write, directory precedence) over a family of inputs built from the catalogue of documented names extracted from /repo at check time; the real binary is run on every input in a scratch cwd with three identifiable witness directories that trigger all 30 patterns; exit status, report presence, directory identity and sections read back are validated by TV_Config; the name tables are checked for injectivity and coverage of the defaults.",
        "design_ref": "section 7 C14",
        "note": "Catalogue = first column of docs/identified-*.md plus the lists of Solstat.toml as found at check time; selection is observed through report sections, so the witness contracts must make every pattern fire.",
        "technique": "TLA+ specs (Config.tla; Solstat.tla = the whole run as one machine) + TLC model checking + TLC-generated inputs run through the real binary + TLC trace validation (TV_Config, TV_Solstat)",
    },
    "C15": {
        "text": "TLC enumerates every Begin/End interleaving of a caller with 2-3 threads; each schedule is enforced on real threads calling the real analyze_for_* with overlapping computations, all ordered detector pairs are run sequentially, random directory trees vary siblings, position and co-selected patterns; every result is validated by TV_Calls / TV_DirWalk against the baseline of the same call made alone in a fresh process.",
        "design_ref": "section 7 C15",
        "note": "Interleavings are controlled at call boundaries; a race inside the library would be visible only through a wrong result.",
        "technique": "TLA+ spec (Calls.tla) + TLC schedule enumeration + enforced schedules on real threads + TLC trace validation",
    },
    "C18": {
        "text": "TLC enumerates every history of runs over four working directories and every initial state of the report files; each history is executed with the real binary on a scratch tree snapshotted before and after every run; TV_RunFs accepts a run iff only cwd/solstat_report.md changed and its bytes equal the report produced from a clean state.",
        "design_ref": "section 7 C18",
        "note": "Snapshots compare type, size, SHA-256 and mode of every path under the scratch root; mtimes are not compared.",
        "technique": "TLA+ spec (RunFs.tla) + TLC history enumeration + real binary with file-system snapshots + TLC trace validation",
    },
    "C01": {
        "text": "Sig (SolAst.tla) states what the full tree is, from pt.rs. TLC generates a tree for every (kind, slot, position) frame (thorough: every pair of frames), runs the explicit-stack search machine and checks it against the declarative pre-order filter; every tree is rendered, parsed, projected back (round trip) and searched by the real extract_target(s)_from_node from every node; corpus programs likewise; TV_Walk accepts a recorded search iff it returns exactly the subtree's nodes of the target kinds, once each, in source order.",
        "design_ref": "section 7 C01, Appendix A",
        "note": "Trusted: the projector (rustc-checked exhaustive destructuring of the parse tree), solang-parser; node identity by structural equality including all source locations.",
        "technique": "TLA+ spec (SolAst/Walk/Gen) + TLC tree generation and machine check + real search replay + TLC trace validation",
    },
    "C05": {
        "text": "TLC generates every instance of the 11 detectors' pattern families (canonical, variants, near misses) in the syntactic positions of Gen.tla inside several kinds of host function; each file is rendered, parsed, projected (round trip) and analysed by the real detectors; TV_Patterns evaluates MustLines/MayLines of Patterns.tla on the projected tree and accepts iff Must <= reported <= May; corpus programs likewise.",
        "design_ref": "section 7 C05, section 8",
        "note": "Verdicts are bounds (Must <= reported <= May) evaluated by TLC on the projected tree of what solang parsed; regions the statement leaves open are don't-care; detectors that panic on a file are C04's subject and left out of the record.",
        "technique": "TLA+ spec (Patterns.tla, RefDetect.tla, PatGen/DeclGen, Gen frames) + TLC-generated files, corpus and random programs through the real detectors + TLC trace validation",
    },
    "C06": {
        "text": "TLC generates the attribute products of function-like and state-variable declarations in every contract kind / member position and all arrangements of members crossed with neighbourhoods of other top-level items; the real detectors' verdicts are validated by TV_Patterns against the iff-characterisations of Patterns.tla (Must = May on the domain), so a verdict influenced by another item is rejected.",
        "design_ref": "section 7 C06, section 8",
        "note": "Verdicts are bounds (Must <= reported <= May) evaluated by TLC on the projected tree of what solang parsed; regions the statement leaves open are don't-care; detectors that panic on a file are C04's subject and left out of the record.",
        "technique": "TLA+ spec (Patterns.tla, RefDetect.tla, PatGen/DeclGen, Gen frames) + TLC-generated files, corpus and random programs through the real detectors + TLC trace validation",
    },
    "C07": {
        "text": "TLC generates ERC20 member names, division/multiplication chains in all positions, pragma families and selfdestruct shapes (function kind x visibility x modifiers x msg.sender usage x call position); TV_Patterns validates the four real detectors against the Must / MustNot characterisations of Patterns.tla.",
        "design_ref": "section 7 C07, section 8",
        "note": "Verdicts are bounds (Must <= reported <= May) evaluated by TLC on the projected tree of what solang parsed; regions the statement leaves open are don't-care; detectors that panic on a file are C04's subject and left out of the record.",
        "technique": "TLA+ spec (Patterns.tla, RefDetect.tla, PatGen/DeclGen, Gen frames) + TLC-generated files, corpus and random programs through the real detectors + TLC trace validation",
    },
    "C08": {
        "text": "TLC generates the 15 kinds of write to a state variable in every syntactic position of every kind of host function (and in free functions), the state-variable attribute product, the immutable matrix (assigned in constructor x written elsewhere x type x right-hand side) and the calldata matrix (function kind x storage x named x kind and place of write); TV_Patterns validates the four real detectors against Patterns.tla, restricted to files in which state-variable names are unique and not shadowed.",
        "design_ref": "section 7 C08, section 8",
        "note": "Verdicts are bounds (Must <= reported <= May) evaluated by TLC on the projected tree of what solang parsed; regions the statement leaves open are don't-care; detectors that panic on a file are C04's subject and left out of the record.",
        "technique": "TLA+ spec (Patterns.tla, RefDetect.tla, PatGen/DeclGen, Gen frames) + TLC-generated files, corpus and random programs through the real detectors + TLC trace validation",
    },
    "C04": {
        "text": "TLC generates the product of input classes that reach the fallible sites of the detectors (pragma classes, item kinds, numeric literals of every size and spelling in operator slots, call arities of special callees, up to 300 functions before a constructor, odd declarations) plus the trees of C01 and the pattern families of C05-C08; every file and corpus program goes through all 30 detectors under catch_unwind and a watchdog in a build with and a build without overflow checks; TV_Totality accepts iff every detector returned a set and the builds agree.",
        "design_ref": "section 7 C04",
        "note": "A robustness claim: the model contributes the systematic input space; nothing is proved about inputs no generated or corpus file reaches. Nesting deeper than 64 is outside the property.",
        "technique": "TLA+ spec (MC_Totality input-class product) + TLC generation + all detectors in two builds + TLC trace validation",
    },
    "C19": {
        "text": "TLC generates files of two and three top-level items in every order from a pool of items with disjoint names; every file, multi-item corpus file and random concatenation is analysed whole and with all but one item blanked out (line feeds and pragmas kept) by the 28 detectors in scope; TV_Compose checks on the projected tree that the items are independent and accepts iff whole = union of the parts.",
        "design_ref": "section 7 C19",
        "note": "Compares runs of the same build; files whose items mention each other's state-variable names are recognised by the trace specification and left out.",
        "technique": "TLA+ spec (Compose.tla) + TLC-generated item combinations + blanked re-analysis with the real detectors + TLC trace validation",
    },
}
