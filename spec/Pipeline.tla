------------------------------ MODULE Pipeline ------------------------------
(***************************************************************************)
(* The whole run, observed through the binary only: options -> directory    *)
(* walk x 3 -> rendering -> solstat_report.md.  Two end-to-end properties:   *)
(*  - C03 at the binary: the entries of the report of a directory are the    *)
(*    bag union of the entries of the reports obtained by running solstat on *)
(*    each eligible file alone (in a directory of its own);                  *)
(*  - C13 at the binary: runs that differ only in the creation history of    *)
(*    the tree (listing order), in the order of the configured pattern lists *)
(*    or in the process produce byte-identical reports.                      *)
(* A report is given as the abstract items of Report.tla per category.       *)
(***************************************************************************)
EXTENDS Report

Cats == <<"vulnerabilities", "optimizations", "qa">>

\* all (category, pattern, file, line) entries of a parsed report
EntriesOfReport(parts) ==
    LET RECURSIVE Go(_)
        Go(k) == IF k > Len(Cats) THEN <<>>
                 ELSE (IF Cats[k] \in DOMAIN parts
                       THEN LET rb == ReadBack(parts[Cats[k]]) IN [i \in 1 .. Len(rb) |-> <<Cats[k], rb[i][1], rb[i][2], rb[i][3]>>]
                       ELSE <<>>) \o Go(k + 1)
    IN Go(1)

RECURSIVE ConcatAll(_, _)
ConcatAll(reports, i) == IF i > Len(reports) THEN <<>> ELSE EntriesOfReport(reports[i]) \o ConcatAll(reports, i + 1)

\* C03: whole = bag union of the single-file runs
UnionOfSingles(whole, singles) == BagOfSeq(EntriesOfReport(whole)) = BagOfSeq(ConcatAll(singles, 1))
=============================================================================
