------------------------------- MODULE DeclGen -------------------------------
(***************************************************************************)
(* Declaration-level instance families (C06, C07 selfdestruct / pragma,     *)
(* C08 immutable and calldata matrices, constructor order arrangements):    *)
(* attribute products and whole-file scenarios, as abstract trees.           *)
(***************************************************************************)
EXTENDS PatGen

Attr(kind, v) == [kind |-> kind, value |-> v]
VisAttr(v) == IF v = "" THEN <<>> ELSE <<Attr("visibility", v)>>
MutAttr(m) == IF m = "" THEN <<>> ELSE <<Attr("mutability", m)>>
ModAttr(nm, nargs) == [kind |-> "modifier", name |-> nm, args |-> nargs]

FnDecl(fty, name, attributes, params, attrKids, hasBody, stmts) ==
    N("CP.FunctionDefinition", [fty |-> fty, name |-> name, params |-> params[1], attributes |-> attributes, returns |-> <<>>],
      <<params[2], attrKids, <<>>, IF hasBody THEN <<Block(stmts)>> ELSE <<>>>>)
NoParams == <<<<>>, <<>>>>

Vis5 == {"", "public", "external", "internal", "private"}
Mut4 == {"", "pure", "view", "payable"}

\* C06: the attribute product of function-like declarations ----------------------------------------
FnProduct ==
    {I("fn:" \o x[1] \o ":" \o x[2] \o ":" \o x[3] \o ":" \o x[4] \o (IF x[5] THEN ":body" ELSE ":nobody"), "CP",
       FnDecl(x[1], x[2], VisAttr(x[3]) \o MutAttr(x[4]), NoParams, <<>>, x[5], <<>>))
       : x \in ({"function"} \X {"ff", "_ff"} \X Vis5 \X Mut4 \X BOOLEAN)
              \cup ({"constructor", "fallback", "receive"} \X {""} \X Vis5 \X Mut4 \X BOOLEAN)
              \cup ({"modifier"} \X {"mm", "_mm"} \X {""} \X {""} \X BOOLEAN)}

\* C06 / C08: the attribute product of state variables ----------------------------------------------
VarTypes == {<<"uint256", U256>>, <<"address", Ty("address", 0)>>, <<"bool", Ty("bool", 0)>>, <<"bytes32", Ty("bytesN", 32)>>,
             <<"payable", Ty("address payable", 0)>>, <<"int128", Ty("int", 128)>>, <<"bytes", Ty("bytes", 0)>>,
             <<"string", Ty("string", 0)>>, <<"user", Var("Foo")>>, <<"array", N("E.ArraySubscript", A0, <<<<U256>>, <<>>>>)>>,
             <<"mapping", N("E.Type", [ty |-> "mapping", n |-> 0], <<<<Ty("address", 0)>>, <<U256>>>>)>>}
OverrideOrders == << <<"public", "constant", "override">>, <<"public", "override", "constant">>, <<"override", "constant", "public">>,
                     <<"internal", "constant", "override">>, <<"constant", "override">>, <<"public", "override">>, <<"public", "immutable", "override">>,
                     <<"private", "constant", "override">> >>
VarProduct ==
    {I("var:" \o x[1][1] \o ":" \o x[2] \o ":" \o x[3] \o ":" \o x[4], "CP",
       StateVar(x[4], x[1][2],
                (IF x[2] = "" THEN <<>> ELSE <<x[2]>>) \o (IF x[3] = "plain" THEN <<>> ELSE <<x[3]>>),
                IF x[3] = "constant" THEN <<Num("1")>> ELSE <<>>))
       : x \in VarTypes \X {"", "public", "internal", "private"} \X {"plain", "constant", "immutable"} \X {"vv", "_vv"}}
    \* ... names in capitals (as constants are usually named) for variables that are NOT constant: judged like any name
    \cup {I("var:caps:" \o x[1] \o ":" \o x[2] \o ":" \o x[3], "CP",
             StateVar(x[3], U256, (IF x[1] = "" THEN <<>> ELSE <<x[1]>>) \o (IF x[2] = "plain" THEN <<>> ELSE <<x[2]>>), <<>>))
           : x \in {"", "public", "internal", "private"} \X {"plain", "immutable"} \X {"VV", "_VV", "MAX_V", "_MAX_V1"}}
    \* ... with an `override` specifier among the attributes, in every order: one more attribute, nothing else
    \cup {I("var:override:" \o ToString(k) \o ":" \o nm, "CP", StateVar(nm, U256, OverrideOrders[k], IF \E j \in 1 .. Len(OverrideOrders[k]) : OverrideOrders[k][j] = "constant" THEN <<Num("1")>> ELSE <<>>))
           : k \in 1 .. Len(OverrideOrders), nm \in {"vv", "_vv"}}

\* C06: constructor order -- arrangements of members in one contract ---------------------------------
MemberOf(tag, i) ==
    CASE tag = "function" -> FnDecl("function", "fn" \o ToString(i), VisAttr("public") \o MutAttr("payable"), NoParams, <<>>, TRUE, <<>>)
      [] tag = "modifier" -> FnDecl("modifier", "md" \o ToString(i), <<>>, NoParams, <<>>, TRUE, <<>>)
      [] tag = "constructor" -> FnDecl("constructor", "", <<>>, NoParams, <<>>, TRUE, <<>>)
      [] tag = "fallback" -> FnDecl("fallback", "", VisAttr("external") \o MutAttr("payable"), NoParams, <<>>, TRUE, <<>>)
      [] tag = "receive" -> FnDecl("receive", "", VisAttr("external") \o MutAttr("payable"), NoParams, <<>>, TRUE, <<>>)
      [] tag = "variable" -> StateVar("_mv" \o ToString(i), U256, <<"private", "constant">>, <<Num("1")>>)
      [] tag = "struct" -> N("CP.StructDefinition", [name |-> "Sx" \o ToString(i), fields |-> <<[name |-> "fa", storage |-> ""]>>], <<<<U256>>>>)
MemberTags == {"function", "modifier", "constructor", "fallback", "receive", "variable", "struct"}
ContractOfMembers(name, cty, tags) ==
    N("SUP.ContractDefinition", [cty |-> cty, name |-> name, bases |-> <<>>],
      <<<<>>, [i \in 1 .. Len(tags) |-> MemberOf(tags[i], i)]>>)
Arrangements(maxLen) == UNION {[1 .. k -> MemberTags] : k \in 1 .. maxLen}
TagLabel(tags) == LET RECURSIVE Go(_)
                      Go(i) == IF i > Len(tags) THEN "" ELSE (IF i > 1 THEN "," ELSE "") \o tags[i] \o Go(i + 1)
                  IN Go(1)

\* neighbours that must not influence the verdict on the arrangement's contract
NbFn      == ContractOfMembers("NbWithFunction", "contract", <<"function", "function">>)
NbCtor    == ContractOfMembers("NbCtorOnly", "contract", <<"constructor">>)
NbBad     == ContractOfMembers("NbBadOrder", "contract", <<"function", "constructor">>)
NbLib     == ContractOfMembers("NbLibrary", "library", <<"function">>)
NbIface   == N("SUP.ContractDefinition", [cty |-> "interface", name |-> "NbIface", bases |-> <<>>],
               <<<<>>, <<FnDecl("function", "ping", VisAttr("external"), NoParams, <<>>, FALSE, <<>>)>>>>)
NbFree    == N("SUP.FunctionDefinition", [fty |-> "function", name |-> "nbFree", params |-> <<>>, attributes |-> <<>>, returns |-> <<>>],
               <<<<>>, <<>>, <<>>, <<B0>>>>)
Neighbourhoods(x) == {<<x>>, <<NbFn, x>>, <<x, NbCtor>>, <<NbBad, x>>, <<x, NbBad>>, <<NbLib, x, NbIface>>, <<NbFree, x>>, <<NbFn, x, NbCtor>>}

\* C07: pragma families -------------------------------------------------------------------------------
PragmaOf(id, value) == N("SUP.PragmaDirective", [pragmaId |-> id, value |-> value], <<>>)
PragmaValues == {"^0.8.0", "0.8.0", "=0.8.0", ">=0.8.0", "~0.8.0", ">=0.8.0 <0.9.0", ">=0.4.0 ^0.8.0", "^0.4.24",
                 \* versions of fewer than three components, a blank after the caret, a pre-release tag: floating all the same
                 "^0.8", "^0", "0.8", "^ 0.8.19", "^0.8.0-rc1", "^0.7.6 || ^0.8.0", "^1.0.0", "^0.8.00"}
PragmaFiles ==
    {I("pragma:" \o v, "SU", N("SU.SourceUnit", A0, <<<<PragmaOf("solidity", v), Item0("Plain")>>>>)) : v \in PragmaValues}
    \cup {I("pragma:abicoder-first:" \o v, "SU", N("SU.SourceUnit", A0, <<<<PragmaOf("abicoder", "v2"), PragmaOf("solidity", v), Item0("Plain")>>>>)) : v \in {"^0.8.0", "0.8.0"}}
    \cup {I("pragma:experimental-last:" \o v, "SU", N("SU.SourceUnit", A0, <<<<PragmaOf("solidity", v), Item0("Plain"), PragmaOf("experimental", "ABIEncoderV2")>>>>)) : v \in {"^0.8.0", "0.8.0"}}
    \cup {I("pragma:none", "SU", N("SU.SourceUnit", A0, <<<<Item0("Plain")>>>>))}
    \* flattened / concatenated sources: a second version pragma further down the file
    \cup {I("pragma:second:" \o v1 \o "|" \o v2, "SU",
             N("SU.SourceUnit", A0, <<<<PragmaOf("solidity", v1), Item0("Plain"), PragmaOf("solidity", v2), Item0("Other")>>>>))
           : v1 \in {"0.8.16", "^0.8.1"}, v2 \in {"^0.8.0", "0.8.0"}}
    \cup {I("pragma:adjacent:" \o v1 \o "|" \o v2, "SU",
             N("SU.SourceUnit", A0, <<<<PragmaOf("solidity", v1), PragmaOf("solidity", v2), Item0("Plain")>>>>))
           : v1 \in {"0.8.16", "^0.8.1"}, v2 \in {"^0.8.0"}}

\* C07: selfdestruct families -------------------------------------------------------------------------
Payable(e) == Call(Ty("payable", 0), <<e>>)
Owner == Var("owner")
DestructCall(nm, arg) == ExprStmt(CallNamed(nm, <<arg>>))
SenderUses ==     \* <<label, guard statements before the call, payout argument>>
    {<<"none", <<>>, Payable(Owner)>>,
     <<"payout", <<>>, MsgSender>>,
     <<"payable-payout", <<>>, Payable(MsgSender)>>,
     <<"address-conv", <<LocalVar("who", Ty("address", 0), <<AddrOf(MsgSender)>>)>>, Payable(Owner)>>,
     <<"require-eq", <<ExprStmt(CallNamed("require", <<Bin("E.Equal", MsgSender, Owner)>>))>>, Payable(Owner)>>,
     <<"require-eq-rev", <<ExprStmt(CallNamed("require", <<Bin("E.Equal", Owner, MsgSender), Str("no")>>))>>, Payable(Owner)>>,
     <<"check-call", <<ExprStmt(CallNamed("check", <<MsgSender>>))>>, Payable(Owner)>>,
     \* the sender in a later argument position, in a nested call, as the later argument of a comparison-taking call
     <<"check-call-2nd", <<ExprStmt(CallNamed("checkRole", <<Var("ADMIN"), MsgSender>>))>>, Payable(Owner)>>,
     <<"require-nested-2nd", <<ExprStmt(CallNamed("require", <<CallNamed("hasRole", <<Var("ADMIN"), MsgSender>>), Str("no")>>))>>, Payable(Owner)>>,
     <<"enforce-3rd", <<ExprStmt(CallNamed("enforce", <<Var("ADMIN"), Num("1"), Bin("E.Equal", MsgSender, Owner)>>))>>, Payable(Owner)>>,
     <<"if-revert", <<N("S.If", A0, <<<<Bin("E.NotEqual", MsgSender, Owner)>>, <<N("S.Revert", [error |-> ""], <<<<>>>>)>>, <<>>>>)>>, Payable(Owner)>>,
     <<"check-in-payout", <<>>, CallNamed("pick", <<MsgSender>>)>>,
     \* other calls of the function whose arguments are member accesses on something that is not an identifier path
     <<"transfer-balance", <<ExprStmt(Call(Member(Owner, "transfer"), <<Member(AddrOf(This), "balance")>>))>>, Payable(Owner)>>,
     <<"call-result-member", <<ExprStmt(CallNamed("log", <<Member(CallNamed("config", <<>>), "addr"), Member(Index(Var("admins"), Num("0")), "addr")>>))>>, Payable(Owner)>>}
ModifierSets == {<<"none", <<>>, <<>>>>, <<"onlyOwner", <<ModAttr("onlyOwner", 0 - 1)>>, <<>>>>,
                 <<"onlyRole", <<ModAttr("onlyRole", 1)>>, <<Var("ADMIN")>>>>,
                 <<"auth", <<ModAttr("auth", 0 - 1)>>, <<>>>>, <<"nonReentrant", <<ModAttr("nonReentrant", 0 - 1)>>, <<>>>>,
                 \* several modifiers: the 'only' one first, last, in the middle; none of them
                 <<"nonReentrant+onlyOwner", <<ModAttr("nonReentrant", 0 - 1), ModAttr("onlyOwner", 0 - 1)>>, <<>>>>,
                 <<"onlyOwner+nonReentrant", <<ModAttr("onlyOwner", 0 - 1), ModAttr("nonReentrant", 0 - 1)>>, <<>>>>,
                 <<"auth+onlyRole+whenOpen", <<ModAttr("auth", 0 - 1), ModAttr("onlyRole", 1), ModAttr("whenOpen", 0 - 1)>>, <<Var("ADMIN")>>>>,
                 <<"auth+nonReentrant", <<ModAttr("auth", 0 - 1), ModAttr("nonReentrant", 0 - 1)>>, <<>>>>,
                 <<"virtual+onlyOwner", <<[kind |-> "virtual"], ModAttr("onlyOwner", 0 - 1)>>, <<>>>>}
DestructShapes ==
    {I("destruct:" \o x[1] \o ":" \o x[2] \o ":" \o x[3][1] \o ":" \o x[4][1] \o ":" \o x[5], "CP",
       FnDecl(x[1], IF x[1] = "function" THEN "kill" ELSE "", VisAttr(x[2]) \o x[3][2], NoParams, x[3][3], TRUE,
              x[4][2] \o <<DestructCall(x[5], x[4][3])>>))
       : x \in {"function", "constructor", "fallback"} \X Vis5 \X ModifierSets \X SenderUses \X {"selfdestruct", "suicide"}}
    \* a state-mutability keyword among the attributes changes nothing (payable functions are the usual place of a sweep)
    \cup {I("destruct:payable:" \o x[1] \o ":" \o x[2] \o ":" \o x[3][1] \o ":" \o x[4][1], "CP",
             FnDecl(x[1], IF x[1] = "function" THEN "sweep" ELSE "", VisAttr(x[2]) \o MutAttr("payable") \o x[3][2], NoParams, x[3][3], TRUE,
                    x[4][2] \o <<DestructCall("selfdestruct", x[4][3])>>))
           : x \in {"function", "fallback", "receive"} \X {"public", "external", "internal"}
                   \X {m \in ModifierSets : m[1] \in {"none", "onlyOwner", "auth"}} \X {u \in SenderUses : u[1] \in {"none", "payable-payout", "require-eq"}}}
\* the same call placed in every statement position of a public function
DestructStmt == DestructCall("selfdestruct", Payable(MsgSender))

\* C08: immutable matrix (whole files) -------------------------------------------------------------
RhsClasses == {<<"literal", Num("7")>>, <<"variable", Var("initial")>>, <<"string", Str("txt")>>,
               <<"abi", Call(Member(Var("abi"), "encode"), <<Var("initial")>>)>>, <<"bytes", Call(Ty("bytes", 0), <<Str("b")>>)>>,
               \* value-typed conversions and calls: still values
               <<"bytes32-conv", Call(Ty("bytesN", 32), <<Var("initial")>>)>>, <<"uint-conv", Call(Ty("uint", 128), <<Var("initial")>>)>>,
               <<"keccak", CallNamed("keccak256", <<Call(Member(Var("abi"), "encode"), <<Var("initial")>>)>>)>>, <<"sender", MsgSender>>}
ImmTypes == {<<"uint256", U256>>, <<"address", Ty("address", 0)>>, <<"bool", Ty("bool", 0)>>, <<"bytes32", Ty("bytesN", 32)>>,
             <<"string", Ty("string", 0)>>, <<"bytes", Ty("bytes", 0)>>}
Elsewhere == {"none", "function", "modifier", "fallback", "compound-in-function", "incr-in-function"}
\* (pragma = "" : the usual header)
ImmWrap(contract, pragma) == IF pragma = "" THEN InFile(<<contract>>) ELSE N("SU.SourceUnit", A0, <<<<PragmaOf("solidity", pragma), contract>>>>)
ImmFileP(ty, inCtor, rhs, elsewhere, writerFirst, pragma) ==
    LET target == Var("cand")
        ctorBody == IF inCtor THEN <<ExprStmt(Bin("E.Assign", target, rhs))>> ELSE <<ExprStmt(Bin("E.Assign", Var("other"), Num("1")))>>
        other == CASE elsewhere = "none" -> <<>>
                   [] elsewhere = "function" -> <<FnDecl("function", "setIt", VisAttr("public") \o MutAttr("payable"), NoParams, <<>>, TRUE, <<ExprStmt(Bin("E.Assign", target, rhs))>>)>>
                   [] elsewhere = "modifier" -> <<FnDecl("modifier", "touch", <<>>, NoParams, <<>>, TRUE, <<ExprStmt(Bin("E.Assign", target, rhs))>>)>>
                   [] elsewhere = "fallback" -> <<FnDecl("fallback", "", VisAttr("external") \o MutAttr("payable"), NoParams, <<>>, TRUE, <<ExprStmt(Bin("E.Assign", target, rhs))>>)>>
                   [] elsewhere = "compound-in-function" -> <<FnDecl("function", "bump", VisAttr("public") \o MutAttr("payable"), NoParams, <<>>, TRUE, <<ExprStmt(Bin("E.AssignAdd", target, Num("1")))>>)>>
                   [] elsewhere = "incr-in-function" -> <<FnDecl("function", "inc", VisAttr("public") \o MutAttr("payable"), NoParams, <<>>, TRUE, <<ExprStmt(Un("E.PreIncrement", target))>>)>>
    IN ImmWrap(N("SUP.ContractDefinition", [cty |-> "contract", name |-> "Imm", bases |-> <<>>],
                  <<<<>>, LET ctor == <<FnDecl("constructor", "", <<>>, <<<<[present |-> TRUE, storage |-> "", name |-> "initial"]>>, <<U256>>>>, <<>>, TRUE, ctorBody)>>
                          IN <<StateVar("cand", ty, <<>>, <<>>), StateVar("other", U256, <<>>, <<>>)>>
                             \o (IF writerFirst THEN other \o ctor ELSE ctor \o other)>>), pragma)
ImmFile(ty, inCtor, rhs, elsewhere, writerFirst) == ImmFileP(ty, inCtor, rhs, elsewhere, writerFirst, "")
ImmFiles ==
    {I("imm:" \o x[1][1] \o (IF x[2] THEN ":ctor:" ELSE ":noctor:") \o x[3][1] \o ":" \o x[4], "SU", ImmFile(x[1][2], x[2], x[3][2], x[4], FALSE))
       : x \in ImmTypes \X BOOLEAN \X RhsClasses \X Elsewhere}
    \* the other writer declared BEFORE the constructor (the order of the members must not matter)
    \cup {I("imm:" \o x[1][1] \o ":ctor:" \o x[2][1] \o ":" \o x[3] \o ":writer-first", "SU", ImmFile(x[1][2], TRUE, x[2][2], x[3], TRUE))
           : x \in {y \in ImmTypes : y[1] \in {"uint256", "address", "bytes32"}} \X {y \in RhsClasses : y[1] \in {"literal", "variable"}} \X (Elsewhere \ {"none"})}
    \* the suggestion does not depend on the compiler version the file asks for, however it is spelled
    \cup {I("imm:" \o x[1][1] \o ":ctor:literal:" \o x[2] \o ":pragma:" \o x[3], "SU", ImmFileP(x[1][2], TRUE, Num("7"), x[2], FALSE, x[3]))
           : x \in {y \in ImmTypes : y[1] \in {"uint256", "address"}} \X {"none", "function"} \X {"^0.6.0", "^0.8", ">=0.7 <0.9", ">=0.4.22 <0.6.0", "0.5.17"}}
    \* assigned outside any constructor while some contract has an unrelated constructor
    \cup {I("imm:assigned-in-initializer", "SU",
            InFile(<<N("SUP.ContractDefinition", [cty |-> "contract", name |-> "Imm2", bases |-> <<>>],
                       <<<<>>, <<StateVar("cand", U256, <<>>, <<>>), StateVar("side", U256, <<>>, <<Paren(Bin("E.Assign", Var("cand"), Num("3")))>>),
                                 FnDecl("constructor", "", <<>>, NoParams, <<>>, TRUE, <<>>)>>>>)>>)),
          I("imm:assigned-in-free-function", "SU",
            InFile(<<N("SUP.FunctionDefinition", [fty |-> "function", name |-> "freeSet", params |-> <<>>, attributes |-> <<>>, returns |-> <<>>],
                       <<<<>>, <<>>, <<>>, <<Block(<<LocalVar("tmp", U256, <<>>), ExprStmt(Bin("E.Assign", Var("cand"), Num("3")))>>)>>>>),
                     N("SUP.ContractDefinition", [cty |-> "contract", name |-> "Imm3", bases |-> <<>>],
                       <<<<>>, <<StateVar("cand", U256, <<>>, <<>>), FnDecl("constructor", "", <<>>, NoParams, <<>>, TRUE, <<>>)>>>>)>>))}

\* C08: memory_to_calldata matrix -------------------------------------------------------------------
ParamStorages == {"memory", "calldata", "storage", ""}
ArrTy == N("E.ArraySubscript", A0, <<<<U256>>, <<>>>>)
PWrites == {<<"none", ExprStmt(Bin("E.Assign", Var("sink"), Index(Var("data"), Num("0"))))>>,
            <<"assign", ExprStmt(Bin("E.Assign", Var("data"), Var("other")))>>,
            <<"index-assign", ExprStmt(Bin("E.Assign", Index(Var("data"), Num("0")), Num("1")))>>,
            <<"member-assign", ExprStmt(Bin("E.Assign", Member(Var("data"), "x"), Num("1")))>>,
            <<"index-incr", ExprStmt(Un("E.PostIncrement", Index(Var("data"), Num("0"))))>>,
            <<"compound", ExprStmt(Bin("E.AssignAdd", Index(Var("data"), Num("0")), Num("1")))>>,
            <<"nested-assign", N("S.If", A0, <<<<Var("flag")>>, <<Block(<<ExprStmt(Bin("E.Assign", Index(Var("data"), Num("0")), Num("1")))>>)>>, <<>>>>)>>,
            <<"in-catch", N("S.Try", [returns |-> <<>>, catches |-> <<[kind |-> "simple", id |-> "", param |-> NoParam]>>],
                            <<<<CallWith(va)>>, <<>>, <<>>, <<Block(<<ExprStmt(Bin("E.Assign", Var("data"), Var("other")))>>)>>>>)>>}
CalldataFns ==
    {I("calldata:" \o x[1] \o ":" \o x[2] \o ":" \o x[3] \o ":" \o x[4][1] \o (IF x[5] THEN ":body" ELSE ":nobody"), "CP",
       FnDecl(IF x[1] = "constructor" THEN "constructor" ELSE "function", IF x[1] = "constructor" THEN "" ELSE "take",
              IF x[1] = "constructor" THEN <<>> ELSE VisAttr(x[1]) \o MutAttr("payable"),
              <<<<[present |-> TRUE, storage |-> x[2], name |-> x[3]], [present |-> TRUE, storage |-> "", name |-> "flag"]>>, <<ArrTy, Ty("bool", 0)>>>>,
              <<>>, x[5], <<x[4][2]>>))
       : x \in {"public", "external", "internal", "private", "constructor"} \X ParamStorages \X {"data", ""} \X PWrites \X BOOLEAN}

\* two memory parameters: written both / first only / second only / neither, through `=` and through an index
TwoParams == <<<<[present |-> TRUE, storage |-> "memory", name |-> "first"], [present |-> TRUE, storage |-> "memory", name |-> "second"]>>, <<ArrTy, ArrTy>>>>
WriteTo(nm, how) == IF how = "assign" THEN ExprStmt(Bin("E.Assign", Var(nm), Var("other")))
                    ELSE IF how = "index" THEN ExprStmt(Bin("E.Assign", Index(Var(nm), Num("0")), Num("1")))
                    ELSE ExprStmt(Bin("E.Assign", Var("sink"), Index(Var(nm), Num("0"))))
CalldataTwo ==
    {I("calldata2:" \o x[1] \o ":" \o x[2] \o ":" \o x[3], "CP",
       FnDecl("function", "takeTwo", VisAttr(x[1]) \o MutAttr("payable"), TwoParams, <<>>, TRUE, <<WriteTo("first", x[2]), WriteTo("second", x[3])>>))
       : x \in {"public", "external"} \X {"assign", "index", "read"} \X {"assign", "index", "read"}}

\* two function-like members of one contract, in both orders: what the scan of one leaves behind (a parameter table,
\* a candidate that was not suggested: constructor, internal, bodyless) must not reach the verdict on the next
OneMem(nm) == <<<<[present |-> TRUE, storage |-> "memory", name |-> nm]>>, <<ArrTy>>>>
Reads(nm) == ExprStmt(Bin("E.Assign", Var("sink"), Index(Var(nm), Num("0"))))
CalldataLeavers ==
    {<<"ctor", FnDecl("constructor", "", <<>>, OneMem("data"), <<>>, TRUE, <<Reads("data")>>)>>,
     <<"internal", FnDecl("function", "inner", VisAttr("internal"), OneMem("data"), <<>>, TRUE, <<Reads("data")>>)>>,
     <<"bodyless", FnDecl("function", "declared", VisAttr("external"), OneMem("data"), <<>>, FALSE, <<>>)>>,
     <<"writer", FnDecl("function", "writes", VisAttr("public") \o MutAttr("payable"), OneMem("data"), <<>>, TRUE, <<WriteTo("data", "assign")>>)>>}
CalldataFollowers ==
    {<<"no-params", FnDecl("function", "plain", VisAttr("public") \o MutAttr("payable"), NoParams, <<>>, TRUE, <<>>)>>,
     <<"other-param", FnDecl("function", "other", VisAttr("external") \o MutAttr("payable"), OneMem("blob"), <<>>, TRUE, <<Reads("blob")>>)>>,
     <<"same-name", FnDecl("function", "again", VisAttr("external") \o MutAttr("payable"), OneMem("data"), <<>>, TRUE, <<Reads("data")>>)>>}
CalldataSeqFiles ==
    {I("calldata-seq:" \o x[1][1] \o ">" \o x[2][1], "SU", InFile(<<InContract(<<x[1][2], x[2][2]>>)>>)) : x \in CalldataLeavers \X CalldataFollowers}
    \cup {I("calldata-seq:" \o x[2][1] \o ">" \o x[1][1], "SU", InFile(<<InContract(<<x[2][2], x[1][2]>>)>>)) : x \in CalldataLeavers \X CalldataFollowers}
    \cup {I("calldata-seq:other-contract:" \o x[1][1] \o ">" \o x[2][1], "SU",
             InFile(<<N("SUP.ContractDefinition", [cty |-> "contract", name |-> "Earlier", bases |-> <<>>], <<<<>>, <<x[1][2]>>>>),
                      N("SUP.ContractDefinition", [cty |-> "contract", name |-> "Later", bases |-> <<>>], <<<<>>, <<x[2][2]>>>>)>>))
           : x \in CalldataLeavers \X CalldataFollowers}

DeclInstancesCP == FnProduct \cup VarProduct \cup DestructShapes \cup CalldataFns
=============================================================================
