----------------------------- MODULE TV_RunFs -----------------------------
EXTENDS RunFs, TLC, Json, IOUtils
Rec == ndJsonDeserialize(IOEnv.TRACE)
VARIABLES l, bad
vars == <<l, bad>>
Why(r) == IF RunAllowed(r.obs) THEN ""
          ELSE IF r.obs.exit # 0 THEN "run-failed"
          ELSE IF \E i \in 1 .. Len(r.obs.changed) : r.obs.changed[i] # r.obs.report_path THEN "other-path-changed"
          ELSE "report-depends-on-previous-state"
Init == l = 1 /\ bad = <<>>
Next == /\ l <= Len(Rec) /\ l' = l + 1
        /\ LET w == Why(Rec[l]) IN bad' = IF w = "" \/ Len(bad) >= 100 THEN bad ELSE Append(bad, <<l, w>>)
Spec == Init /\ [][Next]_vars
Report == (l = Len(Rec) + 1) => PrintT(<<"TVRESULT", ToJson([n |-> Len(Rec), bad |-> bad])>>)
=============================================================================
