------------------------------ MODULE TV_C02 ------------------------------
(***************************************************************************)
(* Trace validation for C02 and C17.  A record is one real program, re-laid *)
(* out with a recorded gap sequence, together with - per detector - the     *)
(* flag tokens F observed on the one-token-per-line layout and the lines     *)
(* reported on the re-laid-out text.  Accepted iff the reported lines are    *)
(* exactly the lines on which the flag tokens now stand (C02) and, when      *)
(* every token is on its own line, exactly the same tokens are flagged (C17).*)
(***************************************************************************)
EXTENDS Lines, TLC, Json, IOUtils

Rec == ndJsonDeserialize(IOEnv.TRACE)

VARIABLES l, bad
vars == <<l, bad>>

\* first detector of the record that is not explained ("" if all are)
FirstBad(r) ==
    LET tl == IF "inner" \in DOMAIN r /\ r.inner # <<>> THEN TokLinesInner(r.gaps, r.inner, r.n) ELSE TokLines(r.gaps, r.n)
        Bad(d) == \/ ~LinesFollowTokens(tl, d.F, d.rep)
                  \/ (r.inj /\ ~SameTokens(tl, r.n, d.F, d.rep))
        B == {i \in 1 .. Len(r.dets) : Bad(r.dets[i])}
    IN IF Len(r.gaps) # r.n + 1 THEN "malformed"
       ELSE IF B = {} THEN ""
       ELSE r.dets[CHOOSE i \in B : \A j \in B : i <= j].d

Init == l = 1 /\ bad = <<>>
Next == /\ l <= Len(Rec)
        /\ l' = l + 1
        /\ LET fb == FirstBad(Rec[l]) IN
           bad' = IF fb = "" \/ Len(bad) >= 200 THEN bad ELSE Append(bad, <<l, fb>>)
Spec == Init /\ [][Next]_vars
Report == (l = Len(Rec) + 1) => PrintT(<<"TVRESULT", ToJson([n |-> Len(Rec), bad |-> bad])>>)
=============================================================================
