----------------------------- MODULE TV_Config -----------------------------
(***************************************************************************)
(* Trace validation for C14: one record per run of the real solstat binary  *)
(* (input and what was observed: exit status, whether a report was written, *)
(* which directory's files and which sections occur in it).                  *)
(***************************************************************************)
EXTENDS Config, TLC

Rec == ndJsonDeserialize(IOEnv.TRACE)

VARIABLES l, bad
vars == <<l, bad>>

Why(r) ==
    IF r.k = "names" THEN
        \* library level: documented names resolve, to pairwise distinct patterns, covering the defaults
        (IF r.unresolved # <<>> THEN "documented-name-rejected"
         ELSE IF r.collisions # <<>> THEN "names-collide"
         ELSE IF r.defaults_without_name # <<>> THEN "default-not-selectable"
         \* ... and a string that is no documented name of the category in any casing (Config!Known) selects nothing
         ELSE IF r.accepted_unknown # <<>> THEN "unknown-name-accepted"
         ELSE "")
    ELSE IF Allowed(r.input, r.obs) THEN ""
    ELSE IF Aborts(r.input) THEN (IF r.obs.exit = 0 THEN "unknown-name-accepted" ELSE "report-written-on-abort")
    ELSE IF r.obs.exit # 0 THEN "documented-input-rejected"
    ELSE IF ~(SetOf(r.obs.dirs) \subseteq {DirOf(r.input)}) THEN "wrong-directory"
    ELSE "wrong-patterns"

Init == l = 1 /\ bad = <<>>
Next == /\ l <= Len(Rec)
        /\ l' = l + 1
        /\ LET w == Why(Rec[l]) IN
           bad' = IF w = "" \/ Len(bad) >= 100 THEN bad ELSE Append(bad, <<l, w>>)
Spec == Init /\ [][Next]_vars
Report == (l = Len(Rec) + 1) => PrintT(<<"TVRESULT", ToJson([n |-> Len(Rec), bad |-> bad])>>)
=============================================================================
