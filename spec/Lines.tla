------------------------------- MODULE Lines -------------------------------
(***************************************************************************)
(* Text and layout model (properties C02, C17).                             *)
(*                                                                          *)
(* Byte level: a text is a sequence of byte classes                          *)
(*     "LF" line feed, "CR" carriage return, "W" other white space,          *)
(*     "A" ASCII, "H" lead byte, "T" continuation byte of a 2-byte character *)
(* and LineOf(text, off) is the definition in the statement of C02:          *)
(* one plus the number of line feeds that precede byte offset `off`.         *)
(*                                                                          *)
(* Layout level: a layout is a sequence of gaps (gap k precedes token k, a   *)
(* final gap follows the last token); a gap is a sequence of atoms.          *)
(* TokLines(gaps) is the line of every token, computed by the Emit machine's *)
(* counter `lfs`.                                                            *)
(***************************************************************************)
EXTENDS Naturals, Sequences, FiniteSets

ByteClasses == {"LF", "CR", "W", "A", "H", "T"}

LineOf(text, off) == 1 + Cardinality({i \in 1 .. off : i <= Len(text) /\ text[i] = "LF"})

-----------------------------------------------------------------------------
(* Layout atoms.  Codes are what the harness writes in traces.              *)
(*  1 space   2 tab   3 "\n"   4 "\r\n"   5 lone "\r"                         *)
(*  6 line comment + "\n"      7 line comment + "\r\n"                        *)
(*  8 block comment on one line   9 block comment containing two "\n"         *)
(* 10 block comment with multi-byte text                                      *)
(* Comments carry code-like text: x++; selfdestruct(msg.sender); ...          *)
Atoms == 1 .. 10
AtomLF == <<0, 0, 1, 1, 0, 1, 1, 0, 2, 0>>
AtomIsComment == <<FALSE, FALSE, FALSE, FALSE, FALSE, TRUE, TRUE, TRUE, TRUE, TRUE>>

\* byte-class expansion of an atom (abbreviated comment bodies; what matters is where LF/CR/H/T fall)
AtomBytes ==
    << <<"W">>, <<"W">>, <<"LF">>, <<"CR", "LF">>, <<"CR">>,
       <<"W", "A", "A", "LF">>, <<"W", "A", "A", "CR", "LF">>,
       <<"W", "A", "A", "W">>, <<"W", "A", "LF", "A", "LF", "A", "W">>,
       <<"W", "A", "H", "T", "A", "W">> >>

RECURSIVE GapLF(_, _)
GapLF(g, i) == IF i > Len(g) THEN 0 ELSE AtomLF[g[i]] + GapLF(g, i + 1)

\* lines of tokens 1..n for gaps 1..n(+1): prefix sums, built left to right like Emit
RECURSIVE TokLinesFrom(_, _, _, _, _)
TokLinesFrom(gaps, n, k, lfs, acc) ==
    IF k > n THEN acc
    ELSE LET here == lfs + GapLF(gaps[k], 1) IN
         TokLinesFrom(gaps, n, k + 1, here, Append(acc, 1 + here))
TokLines(gaps, n) == TokLinesFrom(gaps, n, 1, 0, <<>>)

\* the same when some tokens CONTAIN line feeds (the value of a version pragma is one token for the lexer, and the gap
\* between its comparators is layout): inner = sequence of <<token index, line feeds inside it>>
InnerLF(inner, k) == LET S == {i \in 1 .. Len(inner) : inner[i][1] = k} IN IF S = {} THEN 0 ELSE inner[CHOOSE i \in S : TRUE][2]
RECURSIVE TokLinesInnerFrom(_, _, _, _, _, _)
TokLinesInnerFrom(gaps, inner, n, k, lfs, acc) ==
    IF k > n THEN acc
    ELSE LET here == lfs + GapLF(gaps[k], 1) IN
         TokLinesInnerFrom(gaps, inner, n, k + 1, here + InnerLF(inner, k), Append(acc, 1 + here))
TokLinesInner(gaps, inner, n) == TokLinesInnerFrom(gaps, inner, n, 1, 0, <<>>)

\* every token after the first is on a line of its own
Injective(gaps, n) == \A k \in 2 .. n : GapLF(gaps[k], 1) >= 1

SetOf(s) == {s[i] : i \in 1 .. Len(s)}

\* C02 / C17: the reported lines are exactly the lines of the flag tokens
LinesFollowTokens(tl, F, reported) == SetOf(reported) = {tl[F[i]] : i \in 1 .. Len(F)}
\* C17 on injective layouts: the same tokens are flagged
SameTokens(tl, n, F, reported) == {k \in 1 .. n : tl[k] \in SetOf(reported)} = SetOf(F)
=============================================================================
