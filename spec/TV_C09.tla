------------------------------ MODULE TV_C09 ------------------------------
(***************************************************************************)
(* Trace validation for C09.  A record is one corpus program analysed by   *)
(* the four version-gated detectors under a list of sampled versions.  It   *)
(* is accepted iff there are version-independent line sets S (SafeMath call *)
(* sites), R (string requires), L (long strings) such that every sample is  *)
(* exactly what the gates of Version.tla prescribe.                          *)
(***************************************************************************)
EXTENDS Version, GatedContent, Json, IOUtils

Rec == ndJsonDeserialize(IOEnv.TRACE)

VARIABLES l, bad
vars == <<l, bad>>

Ver(smp) == <<smp.ver[1], smp.ver[2], smp.ver[3]>>

AcceptSamples(r, smps) ==
    LET Idx == 1 .. Len(smps)
        S == UNION {SetOf(smps[i].pre) \cup SetOf(smps[i].post) : i \in Idx}
        R == UNION {SetOf(smps[i].se) : i \in Idx}
        L == UNION {SetOf(smps[i].srs) : i \in Idx}
        On(d, smp, X) == IF Gate(d, Ver(smp)) THEN X ELSE {}
    IN  /\ L \subseteq R
        /\ \A i \in Idx :
             LET smp == smps[i] IN
             /\ SetOf(smp.pre)  = On("safe_math_pre_080", smp, S)
             /\ SetOf(smp.post) = On("safe_math_post_080", smp, S)
             /\ SetOf(smp.se)   = On("string_errors", smp, R)
             /\ SetOf(smp.srs)  = On("short_revert_string", smp, L)

\* ... and, when the record carries the projected tree of the program (lines shifted by r.shift when a pragma line had to
\* be put in front), the sets are the ones GatedContent.tla derives from the tree
Shifted(X, k) == {x + k : x \in X}
AcceptContentOf(r, smps) ==
    LET T == r.tree
        S == Shifted(SafeMathLines(T), r.shift)
        R == Shifted(StringReqLines(T), r.shift)
        Lmust == Shifted(LongMustLines(T), r.shift)
        Lmay == Shifted(LongMayLines(T), r.shift)
        On(d, smp, X) == IF Gate(d, Ver(smp)) THEN X ELSE {}
    IN \A i \in 1 .. Len(smps) :
         LET smp == smps[i] IN
         /\ SetOf(smp.pre)  = On("safe_math_pre_080", smp, S)
         /\ SetOf(smp.post) = On("safe_math_post_080", smp, S)
         /\ SetOf(smp.se)   = On("string_errors", smp, R)
         /\ On("short_revert_string", smp, Lmust) \subseteq SetOf(smp.srs)
         /\ SetOf(smp.srs) \subseteq On("short_revert_string", smp, Lmay)

\* the samples measured file by file, and the same texts measured side by side in one directory through analyze_dir
AcceptProgram(r) == AcceptSamples(r, r.samples) /\ AcceptSamples(r, r.dir_samples)
AcceptContent(r) == AcceptContentOf(r, r.samples) /\ AcceptContentOf(r, r.dir_samples)
Accept(r) == CASE r.k = "program" -> /\ Len(r.dir_samples) = Len(r.samples)
                                     /\ AcceptProgram(r) /\ (r.tree_ok => AcceptContent(r))
               [] OTHER -> FALSE

Init == l = 1 /\ bad = <<>>
Next == /\ l <= Len(Rec)
        /\ l' = l + 1
        /\ bad' = IF Accept(Rec[l]) \/ Len(bad) >= 50 THEN bad ELSE Append(bad, l)
Spec == Init /\ [][Next]_vars
Report == (l = Len(Rec) + 1) => PrintT(<<"TVRESULT", ToJson([n |-> Len(Rec), bad |-> bad])>>)
=============================================================================
