------------------------------ MODULE TV_C09 ------------------------------
(***************************************************************************)
(* Trace validation for C09.  A record is one corpus program analysed by   *)
(* the four version-gated detectors under a list of sampled versions.  It   *)
(* is accepted iff there are version-independent line sets S (SafeMath call *)
(* sites), R (string requires), L (long strings) such that every sample is  *)
(* exactly what the gates of Version.tla prescribe.                          *)
(***************************************************************************)
EXTENDS Version, GatedContent, Json, IOUtils

Rec == ndJsonDeserialize(IOEnv.TRACE)

VARIABLES l, bad
vars == <<l, bad>>

Ver(smp) == <<smp.ver[1], smp.ver[2], smp.ver[3]>>

AcceptProgram(r) ==
    LET Idx == 1 .. Len(r.samples)
        S == UNION {SetOf(r.samples[i].pre) \cup SetOf(r.samples[i].post) : i \in Idx}
        R == UNION {SetOf(r.samples[i].se) : i \in Idx}
        L == UNION {SetOf(r.samples[i].srs) : i \in Idx}
        On(d, smp, X) == IF Gate(d, Ver(smp)) THEN X ELSE {}
    IN  /\ L \subseteq R
        /\ \A i \in Idx :
             LET smp == r.samples[i] IN
             /\ SetOf(smp.pre)  = On("safe_math_pre_080", smp, S)
             /\ SetOf(smp.post) = On("safe_math_post_080", smp, S)
             /\ SetOf(smp.se)   = On("string_errors", smp, R)
             /\ SetOf(smp.srs)  = On("short_revert_string", smp, L)

\* ... and, when the record carries the projected tree of the program (lines shifted by r.shift when a pragma line had to
\* be put in front), the sets are the ones GatedContent.tla derives from the tree
Shifted(X, k) == {x + k : x \in X}
AcceptContent(r) ==
    LET T == r.tree
        S == Shifted(SafeMathLines(T), r.shift)
        R == Shifted(StringReqLines(T), r.shift)
        Lmust == Shifted(LongMustLines(T), r.shift)
        Lmay == Shifted(LongMayLines(T), r.shift)
        On(d, smp, X) == IF Gate(d, Ver(smp)) THEN X ELSE {}
    IN \A i \in 1 .. Len(r.samples) :
         LET smp == r.samples[i] IN
         /\ SetOf(smp.pre)  = On("safe_math_pre_080", smp, S)
         /\ SetOf(smp.post) = On("safe_math_post_080", smp, S)
         /\ SetOf(smp.se)   = On("string_errors", smp, R)
         /\ On("short_revert_string", smp, Lmust) \subseteq SetOf(smp.srs)
         /\ SetOf(smp.srs) \subseteq On("short_revert_string", smp, Lmay)

Accept(r) == CASE r.k = "program" -> AcceptProgram(r) /\ (r.tree_ok => AcceptContent(r)) [] OTHER -> FALSE

Init == l = 1 /\ bad = <<>>
Next == /\ l <= Len(Rec)
        /\ l' = l + 1
        /\ bad' = IF Accept(Rec[l]) \/ Len(bad) >= 50 THEN bad ELSE Append(bad, l)
Spec == Init /\ [][Next]_vars
Report == (l = Len(Rec) + 1) => PrintT(<<"TVRESULT", ToJson([n |-> Len(Rec), bad |-> bad])>>)
=============================================================================
