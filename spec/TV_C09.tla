------------------------------ MODULE TV_C09 ------------------------------
(***************************************************************************)
(* Trace validation for C09.  A record is one corpus program analysed by   *)
(* the four version-gated detectors under a list of sampled versions.  It   *)
(* is accepted iff there are version-independent line sets S (SafeMath call *)
(* sites), R (string requires), L (long strings) such that every sample is  *)
(* exactly what the gates of Version.tla prescribe.                          *)
(***************************************************************************)
EXTENDS Version, TLC, Json, IOUtils

Rec == ndJsonDeserialize(IOEnv.TRACE)

VARIABLES l, bad
vars == <<l, bad>>

SetOf(s) == {s[i] : i \in 1 .. Len(s)}
Ver(smp) == <<smp.ver[1], smp.ver[2], smp.ver[3]>>

AcceptProgram(r) ==
    LET N == 1 .. Len(r.samples)
        S == UNION {SetOf(r.samples[i].pre) \cup SetOf(r.samples[i].post) : i \in N}
        R == UNION {SetOf(r.samples[i].se) : i \in N}
        L == UNION {SetOf(r.samples[i].srs) : i \in N}
        On(d, smp, X) == IF Gate(d, Ver(smp)) THEN X ELSE {}
    IN  /\ L \subseteq R
        /\ \A i \in N :
             LET smp == r.samples[i] IN
             /\ SetOf(smp.pre)  = On("safe_math_pre_080", smp, S)
             /\ SetOf(smp.post) = On("safe_math_post_080", smp, S)
             /\ SetOf(smp.se)   = On("string_errors", smp, R)
             /\ SetOf(smp.srs)  = On("short_revert_string", smp, L)

Accept(r) == CASE r.k = "program" -> AcceptProgram(r) [] OTHER -> FALSE

Init == l = 1 /\ bad = <<>>
Next == /\ l <= Len(Rec)
        /\ l' = l + 1
        /\ bad' = IF Accept(Rec[l]) \/ Len(bad) >= 50 THEN bad ELSE Append(bad, l)
Spec == Init /\ [][Next]_vars
Report == (l = Len(Rec) + 1) => PrintT(<<"TVRESULT", ToJson([n |-> Len(Rec), bad |-> bad])>>)
=============================================================================
