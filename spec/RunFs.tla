------------------------------- MODULE RunFs -------------------------------
(***************************************************************************)
(* File-system effects of a run (property C18).                             *)
(* The world: an analysed tree (never changed), and one possible report      *)
(* file per working directory.  Working directories: "in" = the analysed     *)
(* directory itself, "parent" = its parent, "sub" = a sub-directory of it,   *)
(* "other" = unrelated.  Report contents are abstract: "absent", "junk"      *)
(* (other content), "long" (other content longer than any report), "sol"     *)
(* (text that looks like Solidity), "R" / "R1" = the report of the tree for   *)
(* all patterns / for one selected pattern, produced from a clean state.      *)
(***************************************************************************)
EXTENDS Naturals, Sequences, FiniteSets

Cwds == {"in", "parent", "sub", "other"}
\* "long": other content, longer than any report; "samelen": other content of exactly the length of the report that
\* the next run in this directory will write (a size-only "is it up to date" test must not keep it)
Stale == {"absent", "junk", "long", "sol", "R", "samelen"}
\* all patterns / a configuration selecting one pattern / a configuration selecting none (no finding at all):
\* reports "R", "R1" and the empty report "R0" -- which is still written
Modes == {"full", "one", "none"}
\* how the run is told what to analyse: "flag" = --path (patterns, if restricted, from a --toml file elsewhere),
\* "toml" = only --toml, the file (kept in ANOTHER directory than the working directory, except for "parent") names
\* the directory and the patterns, "default" = no option at all, ./contracts of the working directory
Vias == {"flag", "toml", "default"}
\* the default directory exists only below "other", and without --toml every pattern is active
Applicable(c, mode, via) == via = "default" => (c = "other" /\ mode = "full")
\* the report is a function of the analysed tree and the selected patterns -- not of how they were named
ReportOf(mode, via) == IF via = "default" THEN "RD" ELSE IF mode = "full" THEN "R" ELSE IF mode = "one" THEN "R1" ELSE "R0"

\* what a run in working directory c does to the map of report files: nothing but the report of c
RunEffect(rep, c, mode, via) == [rep EXCEPT ![c] = ReportOf(mode, via)]

\* observation of one real run: which paths changed, and whether the report equals the clean one
\* obs = [exit, changed (sequence of paths), report_is_clean, report_path]
RunAllowed(obs) ==
    /\ obs.exit = 0
    /\ \A i \in 1 .. Len(obs.changed) : obs.changed[i] = obs.report_path
    /\ obs.report_is_clean
=============================================================================
