------------------------------- MODULE RunFs -------------------------------
(***************************************************************************)
(* File-system effects of a run (property C18).                             *)
(* The world: an analysed tree (never changed), and one possible report      *)
(* file per working directory.  Working directories: "in" = the analysed     *)
(* directory itself, "parent" = its parent, "sub" = a sub-directory of it,   *)
(* "other" = unrelated.  Report contents are abstract: "absent", "junk"      *)
(* (other content), "sol" (text that looks like Solidity), "R" = the report  *)
(* of the tree produced from a clean state.                                  *)
(***************************************************************************)
EXTENDS Naturals, Sequences, FiniteSets

Cwds == {"in", "parent", "sub", "other"}
Stale == {"absent", "junk", "sol", "R"}

\* what a run in working directory c does to the map of report files
RunEffect(rep, c) == [rep EXCEPT ![c] = "R"]

\* observation of one real run: which paths changed, and whether the report equals the clean one
\* obs = [exit, changed (sequence of paths), report_is_clean, report_path]
RunAllowed(obs) ==
    /\ obs.exit = 0
    /\ \A i \in 1 .. Len(obs.changed) : obs.changed[i] = obs.report_path
    /\ obs.report_is_clean
=============================================================================
