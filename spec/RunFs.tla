------------------------------- MODULE RunFs -------------------------------
(***************************************************************************)
(* File-system effects of a run (property C18).                             *)
(* The world: an analysed tree (never changed), and one possible report      *)
(* file per working directory.  Working directories: "in" = the analysed     *)
(* directory itself, "parent" = its parent, "sub" = a sub-directory of it,   *)
(* "other" = unrelated.  Report contents are abstract: "absent", "junk"      *)
(* (other content), "long" (other content longer than any report), "sol"     *)
(* (text that looks like Solidity), "R" / "R1" = the report of the tree for   *)
(* all patterns / for one selected pattern, produced from a clean state.      *)
(***************************************************************************)
EXTENDS Naturals, Sequences, FiniteSets

Cwds == {"in", "parent", "sub", "other"}
Stale == {"absent", "junk", "long", "sol", "R"}       \* "long": other content, longer than any report
\* all patterns / a configuration selecting one pattern / a configuration selecting none (no finding at all):
\* reports "R", "R1" and the empty report "R0" -- which is still written
Modes == {"full", "one", "none"}
ReportOf(mode) == IF mode = "full" THEN "R" ELSE IF mode = "one" THEN "R1" ELSE "R0"

\* what a run in working directory c does to the map of report files
RunEffect(rep, c, mode) == [rep EXCEPT ![c] = ReportOf(mode)]

\* observation of one real run: which paths changed, and whether the report equals the clean one
\* obs = [exit, changed (sequence of paths), report_is_clean, report_path]
RunAllowed(obs) ==
    /\ obs.exit = 0
    /\ \A i \in 1 .. Len(obs.changed) : obs.changed[i] = obs.report_path
    /\ obs.report_is_clean
=============================================================================
