SPECIFICATION Spec
CONSTANTS
  Prop = "C08"
  Full = FALSE
INVARIANTS WellFormed DumpBehaviour
CHECK_DEADLOCK FALSE
