SPECIFICATION Spec
CONSTANTS
  MaxRuns = 2
  AppendMode = FALSE
  ReadsStale = FALSE
INVARIANTS OnlyReport Overwrite DumpBehaviour
CHECK_DEADLOCK FALSE
