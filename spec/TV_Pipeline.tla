----------------------------- MODULE TV_Pipeline -----------------------------
EXTENDS Pipeline, TLC, Json, IOUtils
Rec == ndJsonDeserialize(IOEnv.TRACE)
VARIABLES l, bad
vars == <<l, bad>>
Why(r) == IF r.garbage THEN "report-unreadable"
          ELSE IF ~r.all_exit_zero THEN "run-failed"
          ELSE IF ~r.same_bytes THEN "report-depends-on-" \o r.differs_in
          ELSE IF ~UnionOfSingles(r.whole, r.singles) THEN "report-not-union-of-single-file-reports"
          ELSE ""
Init == l = 1 /\ bad = <<>>
Next == /\ l <= Len(Rec) /\ l' = l + 1
        /\ LET w == Why(Rec[l]) IN bad' = IF w = "" \/ Len(bad) >= 100 THEN bad ELSE Append(bad, <<l, w>>)
Spec == Init /\ [][Next]_vars
Report == (l = Len(Rec) + 1) => PrintT(<<"TVRESULT", ToJson([n |-> Len(Rec), bad |-> bad])>>)
=============================================================================
