------------------------------ MODULE TV_C10 ------------------------------
(***************************************************************************)
(* Trace validation for C10: every record written by `harness c10-record`  *)
(* (one per return of get_type_size / storage_slots_used / the two packing  *)
(* detectors on a corpus container) must be a result the specification      *)
(* allows.  Rejected record indexes are collected (not only the first), so  *)
(* the rest of the trace is still checked.                                   *)
(***************************************************************************)
EXTENDS Slots, Json, IOUtils

Rec == ndJsonDeserialize(IOEnv.TRACE)

VARIABLES l, bad
vars == <<l, bad>>

RECURSIVE SumSeq(_, _)
SumSeq(s, i) == IF i > Len(s) THEN 0 ELSE s[i] + SumSeq(s, i + 1)
LowerBound(s) == (SumSeq(s, 1) + Word - 1) \div Word

AcceptContainer(r) ==
    LET s == r.sizes IN
    /\ Len(r.types) = Len(s)
    /\ \A i \in 1 .. Len(s) : s[i] = SizeOf(r.types[i])
    /\ r.slots = GreedySlots(s)
    /\ Len(s) <= 9 => r.slots = Slots(s)
    /\ IF Len(s) <= 6 THEN VerdictAllowed(s, r.reported)
       ELSE /\ Must(s) => r.reported
            /\ GreedySlots(s) = LowerBound(s) => ~r.reported

Accept(r) ==
    CASE r.k = "type"      -> r.size = SizeOf(r.ty)
      [] r.k = "container" -> AcceptContainer(r)
      [] OTHER             -> FALSE

Init == l = 1 /\ bad = <<>>
Next == /\ l <= Len(Rec)
        /\ l' = l + 1
        /\ bad' = IF Accept(Rec[l]) \/ Len(bad) >= 50 THEN bad ELSE Append(bad, l)
Spec == Init /\ [][Next]_vars

Report == (l = Len(Rec) + 1) => PrintT(<<"TVRESULT", ToJson([n |-> Len(Rec), bad |-> bad])>>)
=============================================================================
