------------------------------- MODULE PatGen -------------------------------
(***************************************************************************)
(* Pattern instance families for C05 - C08 (DESIGN.md section 8): for every *)
(* detector its canonical forms, documented variants and near misses, as     *)
(* abstract trees that MC_Patterns places in the frames of Gen.tla (every    *)
(* syntactic position) inside host functions of every kind.  What must / may *)
(* be reported on the resulting file is NOT decided here: the trace           *)
(* specification evaluates Patterns.tla on the projected tree of the file     *)
(* the real parser produced.                                                  *)
(***************************************************************************)
EXTENDS Gen

I(label, sort, tree) == [label |-> label, sort |-> sort, tree |-> tree]

va == Var("aa")
vb == Var("bb")
vc == Var("cc")
sv == Var("sv")          \* a state variable of the host contract (uint256)
arr == Var("arr")        \* a state array
This == N("E.This", A0, <<>>)
AddrOf(e) == Call(Ty("address", 0), <<e>>)
NumE(v, e) == N("E.NumberLiteral", [value |-> v, exp |-> e], <<>>)
Hex(v) == N("E.HexNumberLiteral", [value |-> v], <<>>)
UnitOf(e, u) == N("E.Unit", [unit |-> u], <<<<e>>>>)
MsgSender == Member(Var("msg"), "sender")
CallNamed(f, as) == Call(Var(f), as)

-----------------------------------------------------------------------------
\* C05 ----------------------------------------------------------------------
BalanceInst ==
    {I("balance:this", "E", Member(AddrOf(This), "balance")),
     I("balance:var", "E", Member(AddrOf(va), "balance")),
     I("balance:bare", "E", Member(va, "balance")),
     I("balance:balanceOf", "E", Member(AddrOf(va), "balanceOf")),
     I("balance:payable", "E", Member(Call(Ty("payable", 0), <<va>>), "balance"))}

Zero == AddrOf(Num("0"))
AddrZeroInst ==
    {I("addr0:eq", "E", Bin("E.Equal", va, Zero)), I("addr0:ne-left", "E", Bin("E.NotEqual", Zero, va)),
     I("addr0:one", "E", Bin("E.Equal", va, AddrOf(Num("1")))),
     I("addr0:uint160", "E", Bin("E.Equal", va, Call(Ty("uint", 160), <<Num("0")>>))),
     I("addr0:plain", "E", Bin("E.Equal", va, vb)),
     I("addr0:paren", "E", Bin("E.Equal", Paren(Zero), va)),
     I("addr0:hex", "E", Bin("E.Equal", va, AddrOf(Hex("0x0")))),
     I("addr0:hex-small", "E", Bin("E.NotEqual", va, AddrOf(Hex("0x01")))),
     I("addr0:hex-dead", "E", Bin("E.Equal", AddrOf(Hex("0x000000000000000000000000000000000000dEaD")), va)),
     I("addr0:hex-20-bytes", "E", Bin("E.Equal", va, AddrOf(Hex("0xEeeeeEeeeEeEeeEeEeEeeEEEeeeeEeeeeeeeEEeE")))),
     I("addr0:hex-65-bits", "E", Bin("E.NotEqual", va, AddrOf(Hex("0x10000000000000000")))),
     I("addr0:big-decimal", "E", Bin("E.Equal", va, AddrOf(Num("18446744073709551616")))),
     I("addr0:payable-one", "E", Bin("E.Equal", va, Call(Ty("payable", 0), <<Num("1")>>))),
     I("addr0:noargs", "E", Bin("E.Equal", va, Call(Ty("address", 0), <<>>))),
     I("addr0:lt", "E", Bin("E.Less", va, Zero))}

\* operand matrix of the two symmetric comparison detectors: the pattern operand on either side, every class of
\* other operand on the other side (a verdict on one operand must not be undone by the check of the other)
EqNeKinds == {<<"eq", "E.Equal">>, <<"ne", "E.NotEqual">>}
BoolLits == {<<"true", BoolLit(TRUE)>>, <<"false", BoolLit(FALSE)>>}
BoolOthers == {<<"var", va>>, <<"paren-and", Paren(Bin("E.And", va, vb))>>, <<"call", CallNamed("fn", <<va>>)>>,
               <<"paren-lit", Paren(BoolLit(TRUE))>>, <<"not", Un("E.Not", va)>>, <<"index", Index(arr, Num("1"))>>}
BoolEqMatrix ==
    {I("booleq:m:" \o k[1] \o ":" \o xy[1][1] \o ":" \o xy[2][1], "E", Bin(k[2], xy[1][2], xy[2][2]))
       : k \in EqNeKinds, xy \in (BoolLits \X BoolOthers) \cup (BoolOthers \X BoolLits) \cup (BoolLits \X BoolLits)}
AddrZeros == {<<"zero", Zero>>}
AddrOthers == {<<"var", va>>, <<"paren-var", Paren(va)>>, <<"call", CallNamed("fn", <<va>>)>>, <<"paren-zero", Paren(Zero)>>,
               <<"one", AddrOf(Num("1"))>>, <<"member", Member(va, "owner")>>, <<"addr-of-var", AddrOf(vb)>>}
AddrZeroMatrix ==
    {I("addr0:m:" \o k[1] \o ":" \o xy[1][1] \o ":" \o xy[2][1], "E", Bin(k[2], xy[1][2], xy[2][2]))
       : k \in EqNeKinds, xy \in (AddrZeros \X AddrOthers) \cup (AddrOthers \X AddrZeros) \cup (AddrZeros \X AddrZeros)}

BoolEqInst ==
    {I("booleq:true", "E", Bin("E.Equal", va, BoolLit(TRUE))), I("booleq:false-left", "E", Bin("E.NotEqual", BoolLit(FALSE), va)),
     I("booleq:plain", "E", Bin("E.Equal", va, vb)), I("booleq:and", "E", Bin("E.And", va, BoolLit(TRUE))),
     I("booleq:paren", "E", Bin("E.Equal", Paren(BoolLit(TRUE)), va))}

UpdOps == {"E.Add", "E.Subtract", "E.Multiply", "E.Divide", "E.Modulo", "E.ShiftLeft", "E.ShiftRight", "E.BitwiseAnd", "E.BitwiseOr", "E.BitwiseXor"}
ArrayUpdInst ==
    {I("arrupd:" \o op, "E", Bin("E.Assign", Index(arr, Num("1")), Bin(op, Index(arr, Num("1")), va))) : op \in UpdOps}
    \cup {I("arrupd:other-index", "E", Bin("E.Assign", Index(arr, Num("1")), Bin("E.Add", Index(arr, Num("2")), Num("1")))),
          \* different arrays and different indexes whose name and index spell the same text when put together (a1[2] / a[12])
          I("arrupd:spelled-alike", "E", Bin("E.Assign", Index(Var("a1"), Num("2")), Bin("E.Add", Index(Var("a"), Num("12")), Num("1")))),
          I("arrupd:spelled-alike-rev", "E", Bin("E.Assign", Index(Var("slot"), Num("10")), Bin("E.Multiply", Index(Var("slot1"), Num("0")), Num("3")))),
          I("arrupd:other-array", "E", Bin("E.Assign", Index(Var("brr"), Num("1")), Bin("E.Add", Index(arr, Num("1")), Num("1")))),
          I("arrupd:call", "E", Bin("E.Assign", Index(arr, Num("1")), CallNamed("fn", <<Index(arr, Num("1"))>>))),
          I("arrupd:var-index", "E", Bin("E.Assign", Index(arr, va), Bin("E.Add", Index(arr, va), Num("1")))),
          I("arrupd:right-operand", "E", Bin("E.Assign", Index(arr, Num("1")), Bin("E.Add", va, Index(arr, Num("1"))))),
          I("arrupd:compound", "E", Bin("E.AssignAdd", Index(arr, Num("1")), va))}
    \* operators that have no compound assignment
    \cup {I("arrupd:no-compound:" \o op, "E", Bin("E.Assign", Index(arr, Num("1")), Bin(op, Index(arr, Num("1")), va)))
           : op \in {"E.Or", "E.And", "E.Power", "E.Less", "E.Equal"}}

ForStmt(init, cond, next, body) == N("S.For", A0, <<init, cond, next, body>>)
Len_(e) == Member(e, "length")
CacheLenInst ==
    {I("cachelen:cond", "S", ForStmt(<<ExprStmt(Bin("E.Assign", va, Num("0")))>>, <<Bin("E.Less", va, Len_(arr))>>, <<ExprStmt(Un("E.PreIncrement", va))>>, <<B0>>)),
     I("cachelen:cond-nested", "S", ForStmt(<<>>, <<Bin("E.And", Bin("E.Less", va, Bin("E.Subtract", Len_(Member(vb, "items")), Num("1"))), vc)>>, <<>>, <<B0>>)),
     I("cachelen:body-only", "S", ForStmt(<<>>, <<Bin("E.Less", va, vb)>>, <<>>, <<Block(<<ExprStmt(Bin("E.Assign", vc, Len_(arr)))>>)>>)),
     I("cachelen:init-only", "S", ForStmt(<<ExprStmt(Bin("E.Assign", va, Len_(arr)))>>, <<Bin("E.More", va, Num("0"))>>, <<ExprStmt(Un("E.PreDecrement", va))>>, <<B0>>)),
     I("cachelen:init-and-cond", "S", ForStmt(<<ExprStmt(Bin("E.Assign", va, Len_(Var("brr"))))>>, <<Bin("E.Less", va, Len_(arr))>>, <<ExprStmt(Un("E.PreIncrement", va))>>, <<B0>>)),
     I("cachelen:update-only", "S", ForStmt(<<>>, <<Bin("E.Less", va, vb)>>, <<ExprStmt(Bin("E.AssignAdd", va, Len_(arr)))>>, <<B0>>)),
     I("cachelen:cond-left", "S", ForStmt(<<>>, <<Bin("E.More", Len_(arr), va)>>, <<>>, <<B0>>)),
     I("cachelen:cond-in-nested-for", "S", ForStmt(<<>>, <<Bin("E.Less", va, vb)>>, <<>>, <<Block(<<ForStmt(<<>>, <<Bin("E.LessEqual", vc, Len_(arr))>>, <<>>, <<B0>>)>>)>>)),
     \* several reads in one condition: each of them is a read of its own
     I("cachelen:cond-two", "S", ForStmt(<<>>, <<Bin("E.And", Bin("E.Less", va, Len_(arr)), Bin("E.Less", va, Len_(Var("brr"))))>>, <<>>, <<B0>>)),
     I("cachelen:cond-both-sides", "S", ForStmt(<<>>, <<Bin("E.Less", Bin("E.Add", Len_(arr), va), Len_(Var("brr")))>>, <<>>, <<B0>>)),
     I("cachelen:cond-three", "S", ForStmt(<<>>, <<Bin("E.Or", Bin("E.Less", va, Len_(arr)), Bin("E.And", Bin("E.Less", vb, Len_(Var("brr"))), Bin("E.More", Len_(Var("crr")), vc)))>>, <<>>, <<B0>>)),
     I("cachelen:while", "S", N("S.While", A0, <<<<Bin("E.Less", va, Len_(arr))>>, <<B0>>>>)),
     I("cachelen:outside", "S", ExprStmt(Bin("E.Assign", vc, Len_(arr)))),
     I("cachelen:other-member", "S", ForStmt(<<>>, <<Bin("E.Less", va, Member(arr, "length_"))>>, <<>>, <<B0>>))}

IncDecKinds == {"E.PostIncrement", "E.PostDecrement", "E.PreIncrement", "E.PreDecrement"}
IncDecInst ==
    {I("incdec:" \o k, "E", Un(k, va)) : k \in IncDecKinds}
    \cup {I("incdec:index:" \o k, "E", Un(k, Index(arr, va))) : k \in IncDecKinds}
    \cup {I("incdec:unchecked:" \o k, "S", Unchecked(<<ExprStmt(Un(k, va))>>)) : k \in IncDecKinds}
    \cup {I("incdec:unchecked-nested:" \o k, "S", Unchecked(<<Block(<<ExprStmt(Un(k, va))>>)>>)) : k \in IncDecKinds}
    \cup {I("incdec:nested-operand", "E", Un("E.PreIncrement", Index(arr, Un("E.PostIncrement", vb))))}

RequireInst ==
    {I("require:and", "E", CallNamed("require", <<Bin("E.And", va, vb)>>)),
     I("require:and-msg", "E", CallNamed("require", <<Bin("E.And", va, vb), Str("both")>>)),
     I("require:plain", "E", CallNamed("require", <<va, Str("aa")>>)),
     I("require:assert", "E", CallNamed("assert", <<Bin("E.And", va, vb)>>)),
     I("require:paren", "E", CallNamed("require", <<Paren(Bin("E.And", va, vb))>>)),
     I("require:not", "E", CallNamed("require", <<Un("E.Not", Paren(Bin("E.And", va, vb)))>>)),
     I("require:or", "E", CallNamed("require", <<Bin("E.Or", va, vb)>>)),
     I("require:member", "E", Call(Member(va, "require"), <<Bin("E.And", va, vb)>>))}

\* operand classes for the detectors that flag an operator whatever its operands are
OperandClasses == {<<"var", va>>, <<"num", Num("100")>>, <<"hex", Hex("0xff")>>, <<"paren-num", Paren(Num("7"))>>,
                   <<"call", CallNamed("fn", <<vb>>)>>, <<"index", Index(arr, vb)>>, <<"member", Member(vb, "x")>>}
OperandPairs == {xy \in OperandClasses \X OperandClasses : xy[1][1] = "var" \/ xy[2][1] = "var"}
                \cup {<<<<"num", Num("100")>>, <<"num2", Num("3")>>>>, <<<<"call", CallNamed("fn", <<vb>>)>>, <<"num", Num("100")>>>>}
CmpExtra == {I("cmp:two", "E", Bin("E.And", Bin("E.MoreEqual", va, vb), Bin("E.LessEqual", vc, Num("10")))),
                 I("cmp:not", "E", Un("E.Not", Paren(Bin("E.LessEqual", va, vb)))),
                 I("cmp:ternary", "E", N("E.Ternary", A0, <<<<Bin("E.MoreEqual", va, vb)>>, <<va>>, <<vb>>>>))}
CmpInst == {I("cmp:" \o k, "E", Bin(k, va, vb)) : k \in {"E.MoreEqual", "E.LessEqual", "E.More", "E.Less", "E.Equal"}}
           \cup CmpExtra
CmpMatrix == {I("cmp:m:" \o k \o ":" \o xy[1][1] \o ":" \o xy[2][1], "E", Bin(k, xy[1][2], xy[2][2]))
                  : k \in {"E.MoreEqual", "E.LessEqual", "E.More"}, xy \in OperandPairs}

ShiftInst ==
    {I("shift:mul2", "E", Bin("E.Multiply", va, Num("2"))), I("shift:4mul", "E", Bin("E.Multiply", Num("4"), va)),
     I("shift:div8", "E", Bin("E.Divide", va, Num("8"))), I("shift:mul2p31", "E", Bin("E.Multiply", va, Num("2147483648"))),
     I("shift:mul3", "E", Bin("E.Multiply", va, Num("3"))), I("shift:div10", "E", Bin("E.Divide", va, Num("10"))),
     I("shift:mul1e18", "E", Bin("E.Multiply", va, NumE("1", "18"))), I("shift:mul6", "E", Bin("E.Multiply", va, Num("6"))),
     I("shift:mod2", "E", Bin("E.Modulo", va, Num("2"))), I("shift:shl2", "E", Bin("E.ShiftLeft", va, Num("2"))),
     I("shift:mul1", "E", Bin("E.Multiply", va, Num("1"))), I("shift:2div", "E", Bin("E.Divide", Num("2"), va)),
     I("shift:mulhex", "E", Bin("E.Multiply", va, Hex("0x10"))), I("shift:mulunit", "E", Bin("E.Multiply", va, UnitOf(Num("4"), "wei"))),
     I("shift:mulparen", "E", Bin("E.Multiply", va, Paren(Num("2")))), I("shift:mul2e0", "E", Bin("E.Multiply", va, NumE("2", "0"))),
     I("shift:mul2p32", "E", Bin("E.Multiply", va, Num("4294967296"))), I("shift:mul2p64", "E", Bin("E.Multiply", va, Num("18446744073709551616"))),
     I("shift:mulhuge", "E", Bin("E.Multiply", va, Num("100000000000000000000000000000000000000000000000000000000000000000000000000000001"))),
     \* neighbours of powers of two beyond 64 and 128 bits (exactly a power of two or exactly not: no rounding)
     I("shift:mul2p64plus1", "E", Bin("E.Multiply", va, Num("18446744073709551617"))), I("shift:mul2p128", "E", Bin("E.Multiply", va, Num("340282366920938463463374607431768211456"))),
     I("shift:mul2p128plus1", "E", Bin("E.Multiply", va, Num("340282366920938463463374607431768211457"))), I("shift:div2p128minus1", "E", Bin("E.Divide", va, Num("340282366920938463463374607431768211455"))),
     I("shift:mul2p255minus1", "E", Bin("E.Multiply", va, Num("57896044618658097711785492504343953926634992332820282019728792003956564819967"))), I("shift:div2p200plus", "E", Bin("E.Divide", va, Num("1606938044258990275541962092341162602522202993782792835313721"))),
     I("shift:mul2p255", "E", Bin("E.Multiply", va, Num("57896044618658097711785492504343953926634992332820282019728792003956564819968"))),
     I("shift:mul0", "E", Bin("E.Multiply", va, Num("0"))), I("shift:mul1_000", "E", Bin("E.Divide", va, Num("1_024"))),
     I("shift:mul3e2", "E", Bin("E.Multiply", va, NumE("3", "2"))), I("shift:mul2e1", "E", Bin("E.Multiply", va, NumE("2", "1"))),
     \* both operands literal: either one being a power of two suffices
     I("shift:2mul7", "E", Bin("E.Multiply", Num("2"), Num("7"))), I("shift:10mul8", "E", Bin("E.Multiply", Num("10"), Num("8"))),
     I("shift:8mul16", "E", Bin("E.Multiply", Num("8"), Num("16"))), I("shift:3mul5", "E", Bin("E.Multiply", Num("3"), Num("5"))),
     I("shift:1000div1024", "E", Bin("E.Divide", Num("1000"), Num("1024"))), I("shift:7div3", "E", Bin("E.Divide", Num("7"), Num("3")))}

KeccakInst ==
    {I("keccak:call", "E", CallNamed("keccak256", <<va>>)), I("keccak:sha", "E", CallNamed("sha256", <<va>>)),
     I("keccak:member", "E", Call(Member(va, "keccak256"), <<vb>>)), I("keccak:noargs", "E", CallNamed("keccak256", <<>>)),
     I("keccak:nested", "E", CallNamed("keccak256", <<Call(Member(Var("abi"), "encode"), <<va, CallNamed("keccak256", <<vb>>)>>)>>))}

\* arithmetic nested in arithmetic: every operation is an occurrence of its own
MathNested ==
         {I("math:nested:a+b*c", "E", Bin("E.Add", va, Bin("E.Multiply", vb, vc))),
          I("math:nested:(c-a)/b*a", "E", Bin("E.Multiply", Bin("E.Divide", Paren(Bin("E.Subtract", vc, va)), vb), va)),
          I("math:nested:call-arg", "E", Bin("E.Multiply", va, CallNamed("fn", <<Bin("E.Divide", Paren(Bin("E.Subtract", vc, va)), vb)>>))),
          I("math:nested:index", "E", Bin("E.Subtract", Index(arr, Bin("E.Add", va, Num("1"))), vb))}
MathInst ==
    {I("math:" \o k, "E", Bin(k, va, vb)) : k \in {"E.Add", "E.Subtract", "E.Multiply", "E.Divide", "E.Modulo", "E.Power", "E.AssignAdd", "E.ShiftLeft"}}
    \cup {I("math:neg", "E", Un("E.UnaryMinus", va))}
    \cup MathNested
MathMatrix ==
    {I("math:m:" \o k \o ":" \o xy[1][1] \o ":" \o xy[2][1], "E", Bin(k, xy[1][2], xy[2][2]))
           : k \in {"E.Add", "E.Subtract", "E.Multiply", "E.Divide"}, xy \in OperandPairs}

\* C07 ----------------------------------------------------------------------
Erc20Inst ==
    {I("erc20:" \o m, "E", Call(Member(Var("token"), m), <<va, vb>>)) : m \in {"transfer", "transferFrom", "approve", "safeTransfer", "transfered", "Transfer", "send"}}
    \cup {I("erc20:bare-member", "E", Member(Var("token"), "transfer"))}
    \* the member access is the pattern, however it is called: call options, named arguments, a cast or indexed receiver
    \cup {I("erc20:call-options:" \o m, "E",
             Call(N("E.FunctionCallBlock", A0, <<<<Member(Var("token"), m)>>, <<N("S.Args", [names |-> <<"gas">>], <<<<Num("50000")>>>>)>>>>), <<va, vb>>))
           : m \in {"transfer", "approve"}}
    \cup {I("erc20:named-args:" \o m, "E", N("E.NamedFunctionCall", [names |-> <<"to", "amount">>], <<<<Member(Var("token"), m)>>, <<va, vb>>>>))
           : m \in {"transfer", "transferFrom"}}
    \cup {I("erc20:cast-receiver", "E", Call(Member(CallNamed("IERC20", <<va>>), "transferFrom"), <<va, vb, vc>>)),
          I("erc20:index-receiver", "E", Call(Member(Index(arr, Num("0")), "approve"), <<va, vb>>)),
          I("erc20:selector", "E", Member(Member(Var("token"), "transfer"), "selector"))}

DivMulInst ==
    {I("divmul:a/b*c", "E", Bin("E.Multiply", Bin("E.Divide", va, vb), vc)),
     I("divmul:(a/b)*c", "E", Bin("E.Multiply", Paren(Bin("E.Divide", va, vb)), vc)),
     I("divmul:a/b*c*d", "E", Bin("E.Multiply", Bin("E.Multiply", Bin("E.Divide", va, vb), vc), Var("dd"))),
     I("divmul:a*b/c", "E", Bin("E.Divide", Bin("E.Multiply", va, vb), vc)),
     I("divmul:a*(b/c)", "E", Bin("E.Multiply", va, Paren(Bin("E.Divide", vb, vc)))),
     I("divmul:(a/b+c)*d", "E", Bin("E.Multiply", Paren(Bin("E.Add", Bin("E.Divide", va, vb), vc)), Var("dd"))),
     I("divmul:x/=a*b", "E", Bin("E.AssignDivide", Var("xx"), Bin("E.Multiply", va, vb))),
     I("divmul:x/=(a*b)+c", "E", Bin("E.AssignDivide", Var("xx"), Bin("E.Add", Paren(Bin("E.Multiply", va, vb)), vc))),
     I("divmul:x/=a*b-c", "E", Bin("E.AssignDivide", Var("xx"), Bin("E.Subtract", Bin("E.Multiply", va, vb), vc))),
     I("divmul:x/=a+b*c", "E", Bin("E.AssignDivide", Var("xx"), Bin("E.Add", va, Bin("E.Multiply", vb, vc)))),
     I("divmul:x/=a/b", "E", Bin("E.AssignDivide", Var("xx"), Bin("E.Divide", va, vb))),
     I("divmul:x*=a/b", "E", Bin("E.AssignMultiply", Var("xx"), Bin("E.Divide", va, vb)))}

\* every chain of <= 3 steps through `* (left operand)` and parentheses that ends in a division, and every chain of
\* <= 2 steps through the left operands of the nine `/=` chain operators and parentheses that ends in a multiplication
RECURSIVE MulChains(_)
MulChains(n) == IF n = 0 THEN {Bin("E.Divide", va, vb)}
                ELSE LET prev == MulChains(n - 1) IN prev \cup {Paren(x) : x \in prev} \cup {Bin("E.Multiply", W(x, 4), vc) : x \in prev}
ChainOpKinds == {"E.Divide", "E.Add", "E.Subtract", "E.Modulo", "E.BitwiseAnd", "E.BitwiseOr", "E.BitwiseXor", "E.ShiftLeft", "E.ShiftRight"}
RECURSIVE DivChains(_)
DivChains(n) == IF n = 0 THEN {Bin("E.Multiply", va, vb)}
                ELSE LET prev == DivChains(n - 1) IN prev \cup {Paren(x) : x \in prev} \cup {Bin(k, W(x, LeftLevel(k)), vc) : x \in prev, k \in ChainOpKinds}
DivMulChainInst ==
    {I("divmul:mulchain", "E", Bin("E.Multiply", W(x, 4), Var("dd"))) : x \in MulChains(3)}
    \cup {I("divmul:divchain", "E", Bin("E.AssignDivide", Var("xx"), x)) : x \in DivChains(2)}

ExprInstances == BalanceInst \cup AddrZeroInst \cup BoolEqInst \cup ArrayUpdInst \cup IncDecInst \cup RequireInst \cup CmpInst
                 \cup ShiftInst \cup KeccakInst \cup MathInst \cup Erc20Inst \cup DivMulInst
StmtInstances == CacheLenInst \cup {i \in IncDecInst : i.sort = "S"}

\* C08: writes of the 15 kinds to the state variable sv (and to a parameter / local) ------------------
WriteAssignKinds == {"E.Assign", "E.AssignOr", "E.AssignAnd", "E.AssignXor", "E.AssignShiftLeft", "E.AssignShiftRight",
                     "E.AssignAdd", "E.AssignSubtract", "E.AssignMultiply", "E.AssignDivide", "E.AssignModulo"}
WriteInst ==
    {I("write:" \o k, "E", Bin(k, sv, va)) : k \in WriteAssignKinds}
    \cup {I("write:" \o k, "E", Un(k, sv)) : k \in IncDecKinds}
    \cup {I("write:index", "E", Bin("E.Assign", Index(arr, va), vb)),
          I("write:member", "E", Bin("E.Assign", Member(Var("st"), "x"), vb)),
          I("write:tuple", "E", Bin("E.Assign", N("E.List", [entries |-> <<[present |-> TRUE, storage |-> "", name |-> ""], [present |-> TRUE, storage |-> "", name |-> ""]>>], <<<<sv, Var("other")>>>>), CallNamed("pair", <<>>))),
          \* a write nested INSIDE the target of another assignment: in the index of a member target, of a tuple component,
          \* of a parenthesised target, in the index of an indexed target
          I("write:in-member-target", "E", Bin("E.Assign", Member(Index(Var("recs"), Un("E.PostIncrement", sv)), "owner"), vb)),
          I("write:in-member-target-assign", "E", Bin("E.Assign", Member(Index(Var("recs"), Paren(Bin("E.Assign", sv, va))), "stamp"), vb)),
          I("write:in-tuple-target", "E", Bin("E.Assign", N("E.List", [entries |-> <<[present |-> TRUE, storage |-> "", name |-> ""], [present |-> TRUE, storage |-> "", name |-> ""]>>],
                                                            <<<<Index(Var("bals"), Un("E.PreIncrement", sv)), Var("other")>>>>), CallNamed("pair", <<>>))),
          I("write:in-paren-target", "E", Bin("E.Assign", Paren(Index(Var("bals"), Un("E.PostDecrement", sv))), vb)),
          I("write:in-index-target", "E", Bin("E.AssignAdd", Index(Var("bals"), Un("E.PostIncrement", sv)), vb)),
          I("write:delete", "E", Un("E.Delete", sv)),
          I("write:read-only", "E", Bin("E.Add", sv, va)),
          I("write:string-rhs", "E", Bin("E.Assign", Var("sname"), Str("text"))),
          I("write:abi-rhs", "E", Bin("E.Assign", Var("sbytes"), Call(Member(Var("abi"), "encode"), <<va>>))),
          I("write:bytes-rhs", "E", Bin("E.Assign", Var("sbytes"), Call(Ty("bytes", 0), <<Str("b")>>))),
          I("write:addr", "E", Bin("E.Assign", Var("sa"), MsgSender)),
          I("write:payable", "E", Bin("E.Assign", Var("spay"), Call(Ty("payable", 0), <<MsgSender>>))),
          I("write:bool", "E", Bin("E.Assign", Var("sflag"), BoolLit(TRUE))),
          I("write:int", "E", Bin("E.AssignSubtract", Var("sint"), Num("1"))),
          I("write:bytes4", "E", Bin("E.Assign", Var("sb4"), Var("sel")))}

-----------------------------------------------------------------------------
(* Hosts: a contract with state variables and one function of a given kind   *)
(* whose body is the plugged statement(s).                                    *)
StateVar(name, ty, vattrs, init) == N("CP.VariableDefinition", [name |-> name, vattrs |-> vattrs], <<<<ty>>, init>>)
HostDecls ==
    <<StateVar("sv", U256, <<>>, <<>>), StateVar("su", U256, <<>>, <<>>), StateVar("sa", Ty("address", 0), <<>>, <<>>),
      StateVar("sname", Ty("string", 0), <<>>, <<>>), StateVar("sbytes", Ty("bytes", 0), <<>>, <<>>),
      StateVar("spay", Ty("address payable", 0), <<>>, <<>>), StateVar("spayIdle", Ty("address payable", 0), <<>>, <<>>),
      StateVar("sflag", Ty("bool", 0), <<>>, <<>>), StateVar("sint", Ty("int", 64), <<>>, <<>>), StateVar("sb4", Ty("bytesN", 4), <<>>, <<>>),
      StateVar("arr", Index(U256, Num("4")), <<>>, <<>>), StateVar("sconst", U256, <<"constant">>, <<Num("5")>>),
      StateVar("simm", U256, <<"immutable">>, <<>>)>>

HostKinds == {"function", "constructor", "modifier", "fallback", "receive", "internal", "private", "view"}
HostFn(kind, stmts) ==
    LET fty == IF kind \in {"internal", "private", "view"} THEN "function" ELSE kind
        attrs == CASE kind = "function" -> FnAttrs("public")
                   [] kind = "internal" -> FnAttrs("internal")
                   [] kind = "private" -> FnAttrs("private")
                   [] kind = "view" -> <<[kind |-> "visibility", value |-> "external"], [kind |-> "mutability", value |-> "view"]>>
                   [] kind = "fallback" -> FnAttrs("external")
                   [] kind = "receive" -> <<[kind |-> "visibility", value |-> "external"], [kind |-> "mutability", value |-> "payable"]>>
                   [] OTHER -> <<>>
        name == IF fty = "function" THEN "hostFn" ELSE IF fty = "modifier" THEN "hostMod" ELSE ""
    IN N("CP.FunctionDefinition", [fty |-> fty, name |-> name, params |-> <<>>, attributes |-> attrs, returns |-> <<>>],
         <<<<>>, <<>>, <<>>, <<Block(stmts)>>>>)
HostFile(kind, stmts) ==
    InFile(<<N("SUP.ContractDefinition", [cty |-> "contract", name |-> "Host", bases |-> <<>>], <<<<>>, HostDecls \o <<HostFn(kind, stmts)>>>>)>>)
\* the same statement in a free function (no state variables in scope)
FreeFile(stmts) ==
    InFile(<<N("SUP.FunctionDefinition", [fty |-> "function", name |-> "freeHost", params |-> <<>>, attributes |-> <<>>, returns |-> <<>>],
               <<<<>>, <<>>, <<>>, <<Block(stmts)>>>>),
             N("SUP.ContractDefinition", [cty |-> "contract", name |-> "Other", bases |-> <<>>], <<<<>>, <<StateVar("sv", U256, <<>>, <<>>), HostFn("constructor", <<>>)>>>>)>>)

\* an expression / statement placed in a statement position of a host
AsStmt(t, sort) == IF sort = "E" THEN ExprStmt(t) ELSE t
FrameOut(f, t) == Plug(f, t)
\* wrap the result of a frame (sort f.out) into a statement list for a host function; frames whose result is a
\* declaration (CP / SUP / SU) are used with ToFile instead
IsStmtSort(s) == s \in {"E", "S", "B", "Simple"}
=============================================================================
