SPECIFICATION Spec
CONSTANTS
  Prop = "C05"
  Full = FALSE
INVARIANTS WellFormed DumpBehaviour
CHECK_DEADLOCK FALSE
