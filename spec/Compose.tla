------------------------------ MODULE Compose ------------------------------
(***************************************************************************)
(* Composition over top-level items (property C19): the lines reported for  *)
(* a file are the union of the lines reported when each top-level item is    *)
(* analysed on its own, at its original position, with the pragmas kept.     *)
(***************************************************************************)
EXTENDS Patterns

Kept == {"SUP.PragmaDirective", "SUP.ImportDirective"}
Items(T) == {n \in SetOf(T[1].ch) : K(T, n) \notin Kept}

StateVarsOf(T, i) == {A(T, v).name : v \in StateVars(T) \cap Under(T, i)}
\* every identifier an item mentions or declares
Idents(T, j) ==
    {A(T, m).name : m \in {x \in UnderOrSelf(T, j) : K(T, x) \in {"E.Variable", "S.VariableDefinition"}}}
    \cup UNION {ParamNames(T, f) : f \in {x \in UnderOrSelf(T, j) : K(T, x) \in {"CP.FunctionDefinition", "SUP.FunctionDefinition"}}}
Independent(T) == \A i, j \in Items(T) : i # j => StateVarsOf(T, i) \cap Idents(T, j) = {}

InScope(T) == Cardinality(Items(T)) >= 2 /\ Independent(T) /\ InDomain(T)

RECURSIVE UnionOf(_, _)
UnionOf(parts, k) == IF k > Len(parts) THEN {} ELSE SetOf(parts[k]) \cup UnionOf(parts, k + 1)
Composes(whole, parts) == SetOf(whole) = UnionOf(parts, 1)

\* the two SafeMath detectors are file-wide by design (their `using` directive)
Excluded == {"safe_math_pre_080", "safe_math_post_080"}
=============================================================================
