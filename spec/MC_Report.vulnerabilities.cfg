SPECIFICATION Spec
CONSTANTS
  Cat = "vulnerabilities"
  Pats <- PatsVul
  LowHeadingAlways = FALSE
  HashOrderEntries = FALSE
INVARIANTS Listed Totals Deterministic CanonIsARendering ValueIsReadBack DumpBehaviour
PROPERTY Terminates
CHECK_DEADLOCK FALSE
