SPECIFICATION Spec
CONSTANTS
  Threads = 2
  CallsPerThread = 1
  SharedScratch = TRUE
INVARIANTS Isolated DumpBehaviour
PROPERTY Terminates
CHECK_DEADLOCK FALSE
