SPECIFICATION Spec
CONSTANTS
  Threads = 3
  CallsPerThread = 1
  SharedScratch = FALSE
INVARIANTS Isolated DumpBehaviour
PROPERTY Terminates
CHECK_DEADLOCK FALSE
