------------------------------ MODULE MC_C10 ------------------------------
(***************************************************************************)
(* Model checking and behaviour generation for C10.                         *)
(* Sequences of sizes are grown item by item (phase "grow"); on each one    *)
(* the Greedy machine -- the loop of storage_slots_used -- is run action by *)
(* action (phase "run").  At "done" the invariants relate the machine to    *)
(* the declarative layout rule and to the verdict bounds, and one JSON line *)
(* per behaviour is printed for replay against the real code.               *)
(***************************************************************************)
EXTENDS Slots, Json

CONSTANTS Sizes, MaxLen, Dump, BadStep

VARIABLES seq, pos, used, cnt, phase
vars == <<seq, pos, used, cnt, phase>>

\* Long layouts (hundreds of members, 256 slots and more: whatever accumulates must not be narrow), started directly
LongSeqs == {[i \in 1 .. 256 |-> 256],
             [i \in 1 .. 300 |-> IF i % 2 = 0 THEN 256 ELSE 128],
             <<128>> \o [i \in 1 .. 253 |-> 256] \o <<128, 256>>,
             [i \in 1 .. 600 |-> 128],
             [i \in 1 .. 257 |-> 8],
             [i \in 1 .. 520 |-> IF i % 3 = 0 THEN 8 ELSE 248]}
Init == IF MaxLen = 0
        THEN seq \in LongSeqs /\ pos = 1 /\ used = 0 /\ cnt = 0 /\ phase = "run"
        ELSE seq = <<>> /\ pos = 1 /\ used = 0 /\ cnt = 0 /\ phase = "grow"

Grow(x) == /\ phase = "grow" /\ Len(seq) < MaxLen
           /\ seq' = Append(seq, x)
           /\ UNCHANGED <<pos, used, cnt, phase>>

Start == /\ phase = "grow"
         /\ phase' = "run"
         /\ UNCHANGED <<seq, pos, used, cnt>>

\* one iteration of `for variable_size in variables`
Step == /\ phase = "run" /\ pos <= Len(seq)
        /\ LET x == seq[pos] IN
             IF (IF BadStep THEN used + x >= Word ELSE used + x > Word)
             THEN cnt' = cnt + 1 /\ used' = x
             ELSE cnt' = cnt /\ used' = used + x
        /\ pos' = pos + 1
        /\ UNCHANGED <<seq, phase>>

\* `if bytes_used_in_slot > 0 { slots_used += 1 }`
Finish == /\ phase = "run" /\ pos > Len(seq)
          /\ cnt' = IF used > 0 THEN cnt + 1 ELSE cnt
          /\ phase' = "done"
          /\ UNCHANGED <<seq, pos, used>>

Next == (\E x \in Sizes : Grow(x)) \/ Start \/ Step \/ Finish
Spec == Init /\ [][Next]_vars /\ WF_vars(Step \/ Finish)

-----------------------------------------------------------------------------
TypeOK == /\ seq \in Seq(Sizes) /\ pos \in 1 .. (MaxLen + 1)
          /\ used \in 0 .. Word /\ cnt \in 0 .. MaxLen
          /\ phase \in {"grow", "run", "done"}

\* the slot currently being filled never overflows
UsedFits == used <= Word

Done == phase = "done"

GreedyIsLayout  == Done => /\ LayoutUnique(seq)
                           /\ cnt = Slots(seq)
                           /\ cnt = GreedySlots(seq)
ReportedSound   == Done => (Reported(seq) => Opt(seq) < cnt)
NeverWhenOptimal== Done => (cnt = Opt(seq) => ~Reported(seq))
MustImpliesRef  == Done => (Must(seq) => Reported(seq))
BoundsDisjoint  == Done => ~(Must(seq) /\ MustNot(seq))

\* the loop always finishes once started
Terminates == (phase = "run") ~> (phase = "done")

DumpBehaviour ==
    (Done /\ Dump) =>
        PrintT(<<"REPLAY", ToJson([sizes |-> seq, slots |-> cnt, opt |-> Opt(seq),
                                   asc |-> GreedySlots(SortAsc(seq)),
                                   desc |-> GreedySlots(SortDesc(seq)),
                                   verdict |-> Verdict(seq)])>>)

LongGreedy == Done => cnt = GreedySlots(seq)
DumpLong ==
    (Done /\ Dump) =>
        PrintT(<<"REPLAY", ToJson([sizes |-> seq, slots |-> cnt, opt |-> 0 - 1,
                                   asc |-> GreedySlots(SortAsc(seq)), desc |-> GreedySlots(SortDesc(seq)),
                                   verdict |-> IF GreedySlots(SortAsc(seq)) < cnt /\ GreedySlots(SortDesc(seq)) < cnt THEN "must" ELSE "free"])>>)

\* the transition table of the loop, for folding over longer sequences in the harness
StepTable ==
    [u \in {0} \cup Sizes \cup {a + b : a \in Sizes, b \in Sizes} |->
        [x \in Sizes |-> <<StepUsed(u, x), StepOpens(u, x)>>]]
=============================================================================
