SPECIFICATION Spec
CONSTANTS
  Cat = "qa"
  Pats <- PatsQa
  LowHeadingAlways = FALSE
  HashOrderEntries = FALSE
INVARIANTS Listed Totals Deterministic CanonIsARendering ValueIsReadBack DumpBehaviour
PROPERTY Terminates
CHECK_DEADLOCK FALSE
