------------------------------- MODULE Slots -------------------------------
(***************************************************************************)
(* Storage-slot model behind pack_storage_variables / pack_struct_variables *)
(* (property C10).                                                          *)
(*                                                                          *)
(*  - SizeOf: the size table of the statement (bool 8, address 160,        *)
(*    (u)intN N, bytesN 8N, anything else 256 bits).                        *)
(*  - Slots(s): Solidity's layout rule stated declaratively as the unique   *)
(*    partition of the sequence into maximal consecutive runs that fit in   *)
(*    one 256-bit word.                                                     *)
(*  - The machine Greedy (variables pos, used, cnt) is the loop of          *)
(*    utils.rs storage_slots_used, one action per loop iteration.           *)
(*  - Opt(s): the true optimum over all reorderings.                        *)
(*  - Must / MustNot: the verdict bounds of the property.                   *)
(***************************************************************************)
EXTENDS Naturals, Sequences, FiniteSets, TLC

Word == 256

-----------------------------------------------------------------------------
(* Size table.  A type is a record [t |-> class, n |-> number].            *)
SizeOf(ty) ==
    CASE ty.t = "bool"    -> 8
      [] ty.t = "address" -> 160
      [] ty.t = "payable" -> 160            \* "address payable"
      [] ty.t = "uint"    -> ty.n
      [] ty.t = "int"     -> ty.n
      [] ty.t = "bytesN"  -> 8 * ty.n
      [] OTHER            -> 256            \* string, bytes, arrays, mappings, user types, function types

-----------------------------------------------------------------------------
(* Declarative layout rule.                                                 *)
RECURSIVE SumRange(_, _, _)
SumRange(s, a, b) == IF a > b THEN 0 ELSE s[a] + SumRange(s, a + 1, b)

RunStarts(C)      == {1} \cup {c + 1 : c \in C}
RunEnd(n, C, a)   == CHOOSE e \in (C \cup {n}) : e >= a /\ \A f \in (C \cup {n}) : f >= a => e <= f

\* C is the set of positions after which a new slot is opened.
ValidLayout(s, C) ==
    LET n == Len(s) IN
    \A a \in RunStarts(C) :
        LET e == RunEnd(n, C, a) IN
        /\ SumRange(s, a, e) <= Word                       \* the run shares one slot
        /\ e < n => SumRange(s, a, e + 1) > Word           \* and the next item no longer fits

Layouts(s) == {C \in SUBSET (1 .. (Len(s) - 1)) : ValidLayout(s, C)}

Slots(s) == IF s = <<>> THEN 0 ELSE Cardinality(CHOOSE C \in Layouts(s) : TRUE) + 1

LayoutUnique(s) == s # <<>> => Cardinality(Layouts(s)) = 1

-----------------------------------------------------------------------------
(* The code's loop as a function: (used, x) |-> (used', opens a slot).      *)
StepUsed(used, x)  == IF used + x > Word THEN x ELSE used + x
StepOpens(used, x) == used + x > Word

RECURSIVE GreedyFrom(_, _, _, _)
GreedyFrom(s, i, used, cnt) ==
    IF i > Len(s) THEN (IF used > 0 THEN cnt + 1 ELSE cnt)
    ELSE GreedyFrom(s, i + 1, StepUsed(used, s[i]),
                    IF StepOpens(used, s[i]) THEN cnt + 1 ELSE cnt)
GreedySlots(s) == GreedyFrom(s, 1, 0, 0)

-----------------------------------------------------------------------------
(* Reorderings.                                                              *)
PermsOf(s) == {[i \in 1 .. Len(s) |-> s[p[i]]] : p \in Permutations(1 .. Len(s))}
MinOf(S)   == CHOOSE m \in S : \A x \in S : m <= x
Opt(s)     == MinOf({GreedySlots(p) : p \in PermsOf(s)})

SortAsc(s)  == SortSeq(s, LAMBDA a, b : a < b)
SortDesc(s) == SortSeq(s, LAMBDA a, b : a > b)

\* reference verdict (what the code does today: compare with the ascending sort)
Reported(s) == GreedySlots(s) > GreedySlots(SortAsc(s))

\* the bounds the property puts on any implementation
Must(s)    == /\ GreedySlots(SortAsc(s))  < GreedySlots(s)
              /\ GreedySlots(SortDesc(s)) < GreedySlots(s)
MustNot(s) == GreedySlots(s) = Opt(s)
Verdict(s) == IF Must(s) THEN "must" ELSE IF MustNot(s) THEN "mustnot" ELSE "free"

VerdictAllowed(s, reported) ==
    /\ Must(s) => reported
    /\ MustNot(s) => ~reported

=============================================================================
