------------------------------ MODULE TV_Calls ------------------------------
(***************************************************************************)
(* Trace validation for C15: a record is one run of a schedule on real       *)
(* threads: the Begin/End history actually realised, and for every call      *)
(* the file, the pattern and the lines it returned; `baseline` holds the     *)
(* result of the same call made alone in a fresh process.                    *)
(***************************************************************************)
EXTENDS Calls, TLC, Json, IOUtils

Rec == ndJsonDeserialize(IOEnv.TRACE)
Baseline == JsonDeserialize(IOEnv.BASELINE)

VARIABLES l, bad
vars == <<l, bad>>

Why(r) ==
    IF ~WellFormedHistory(r.history, r.threads) THEN "history"
    ELSE IF ~ResultsIsolated(r.calls, Baseline) THEN
        LET B == {i \in 1 .. Len(r.calls) : r.calls[i].result # Baseline[r.calls[i].file][r.calls[i].pattern]}
        IN r.calls[CHOOSE i \in B : \A j \in B : i <= j].pattern
    ELSE ""

Init == l = 1 /\ bad = <<>>
Next == /\ l <= Len(Rec)
        /\ l' = l + 1
        /\ LET w == Why(Rec[l]) IN
           bad' = IF w = "" \/ Len(bad) >= 100 THEN bad ELSE Append(bad, <<l, w>>)
Spec == Init /\ [][Next]_vars
Report == (l = Len(Rec) + 1) => PrintT(<<"TVRESULT", ToJson([n |-> Len(Rec), bad |-> bad])>>)
=============================================================================
