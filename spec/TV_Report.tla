----------------------------- MODULE TV_Report -----------------------------
(***************************************************************************)
(* Trace validation for C11 / C12 / C13 (selected by the environment        *)
(* variable MODE).  Records are written by `harness report-replay` at the   *)
(* return of the real generate_*_report / generate_report:                   *)
(*   render : the findings passed in and the items read back from the text  *)
(*   same   : two renderings (items) of the same bag of findings             *)
(*   file   : which category parts solstat_report.md contains                *)
(***************************************************************************)
EXTENDS Report, TLC, Json, IOUtils

Rec  == ndJsonDeserialize(IOEnv.TRACE)
Mode == IOEnv.MODE

VARIABLES l, bad
vars == <<l, bad>>

Cats == {"vulnerabilities", "optimizations", "qa"}

AcceptRender(r) ==
    CASE Mode = "C11" -> C11Holds(r.findings, r.items)
      [] Mode = "C12" -> C12Holds(r.findings, r.items)
      [] OTHER        -> TRUE

\* which conjunct fails first (for the violation's signature)
Why(r) ==
    IF r.k = "render" THEN
        IF Mode = "C11" THEN
            IF ~NoGarbage(r.items) THEN "garbage"
            ELSE IF ~WellFormed(r.items) THEN "malformed"
            ELSE IF ~SectionIff(r.findings, r.items) THEN "section-iff"
            ELSE "round-trip"
        ELSE
            IF ~OneOverview(r.items) THEN "overview"
            ELSE IF ~TotalAgrees(r.items) THEN "total"
            ELSE IF ~HeadingIff(r.findings, r.items) THEN "heading-iff"
            ELSE IF ~NoUnknownSeverity(r.items) THEN "unknown-severity"
            ELSE "own-severity"
    ELSE r.k

\* the written file: which category parts it holds
FilePresence(r) ==
    IF Mode = "C12" THEN ~r.garbage /\ (\A c \in Cats : r.present[c] = r.nonempty[c])
    \* C11 at the written file: no category's entries may be missing altogether
    ELSE IF Mode = "C11" THEN ~r.garbage /\ (\A c \in Cats : r.nonempty[c] => r.present[c])
    ELSE TRUE
\* where the record says how many findings the analysed files have (measured file by file), how many entries and which
\* total each part of the written report shows: all three agree
FileCounts(r) ==
    IF "expected" \in DOMAIN r
    THEN \A c \in Cats : (r.entries[c] = r.expected[c]) /\ ((r.present[c] /\ c # "qa") => (r.total[c] = r.entries[c]))
    ELSE TRUE

\* ... and the severity headings of the vulnerability part are those of the findings the analysed files have
FileSeverities(r) ==
    IF "sev_expected" \in DOMAIN r
    THEN {r.sev_present[i] : i \in 1 .. Len(r.sev_present)} = {r.sev_expected[i] : i \in 1 .. Len(r.sev_expected)}
    ELSE TRUE

Accept(r) ==
    CASE r.k = "render" -> AcceptRender(r)
      [] r.k = "same"   -> (Mode = "C13") => (r.bytes_equal /\ r.a = r.b)
      [] r.k = "file"   -> FilePresence(r) /\ FileCounts(r) /\ FileSeverities(r)
      [] OTHER          -> FALSE

Init == l = 1 /\ bad = <<>>
Next == /\ l <= Len(Rec)
        /\ l' = l + 1
        /\ bad' = IF Accept(Rec[l]) \/ Len(bad) >= 100 THEN bad ELSE Append(bad, <<l, Why(Rec[l])>>)
Spec == Init /\ [][Next]_vars
Report == (l = Len(Rec) + 1) => PrintT(<<"TVRESULT", ToJson([n |-> Len(Rec), bad |-> bad])>>)
=============================================================================
