----------------------------- MODULE TV_DirWalk -----------------------------
(***************************************************************************)
(* Trace validation for C03 / C16 / C15: one record per return of the real  *)
(* analyze_dir.  It carries the tree in the listing order the file system    *)
(* actually produced, the per-file results of the same build measured in     *)
(* isolation (Res) and the map analyze_dir returned.  Accepted iff the map   *)
(* is exactly the union DirWalk.tla specifies.                                *)
(***************************************************************************)
EXTENDS DirWalk, TLC, Json, IOUtils

Rec == ndJsonDeserialize(IOEnv.TRACE)

VARIABLES l, bad
vars == <<l, bad>>

SameBags(a, b) == /\ DOMAIN a = DOMAIN b
                  /\ \A p \in DOMAIN a : BagOfSeq(a[p]) = BagOfSeq(b[p])

HasPruned(r) == "pruned_result" \in DOMAIN r

Why(r) ==
    IF ~NoEmptyLineSet(r.result) THEN "empty-line-set"
    ELSE IF ~UnionExact(r.tree, r.res, r.pats, r.result) THEN
        (IF DOMAIN r.result # {p \in SetOf(r.pats) : Expected(r.tree, r.res, p) # <<>>} THEN "pattern-set"
         ELSE IF \E p \in DOMAIN r.result : Len(r.result[p]) < Len(Expected(r.tree, r.res, p)) THEN "entries-lost"
         ELSE IF \E p \in DOMAIN r.result : Len(r.result[p]) > Len(Expected(r.tree, r.res, p)) THEN "entries-added"
         ELSE "entries-differ")
    ELSE IF HasPruned(r) /\ ~SameBags(r.result, r.pruned_result) THEN "ineligible-not-inert"
    ELSE ""

Init == l = 1 /\ bad = <<>>
Next == /\ l <= Len(Rec)
        /\ l' = l + 1
        /\ LET w == Why(Rec[l]) IN
           bad' = IF w = "" \/ Len(bad) >= 100 THEN bad ELSE Append(bad, <<l, w>>)
Spec == Init /\ [][Next]_vars
Report == (l = Len(Rec) + 1) => PrintT(<<"TVRESULT", ToJson([n |-> Len(Rec), bad |-> bad])>>)
=============================================================================
