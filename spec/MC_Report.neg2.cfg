SPECIFICATION Spec
CONSTANTS
  Cat = "vulnerabilities"
  Pats <- PatsVul
  LowHeadingAlways = FALSE
  HashOrderEntries = TRUE
INVARIANTS Listed Totals Deterministic CanonIsARendering DumpBehaviour
PROPERTY Terminates
CHECK_DEADLOCK FALSE
