---------------------------- MODULE MC_C02_Scan ----------------------------
(***************************************************************************)
(* The offset -> line conversion (utils.rs get_line_number) as a machine:   *)
(* a cursor `cur` runs over the line feeds of the text in order, a counter   *)
(* `i` starts at 1.  Specified result: LineOf(text, off) for every offset,   *)
(* including offsets on a last line that has no terminating line feed.       *)
(* Texts are grown byte by byte (phase "grow"); `off` is chosen when the     *)
(* scan starts.                                                              *)
(***************************************************************************)
EXTENDS Lines, TLC, Json

CONSTANTS MaxLen, ReturnZeroAtEnd   \* ReturnZeroAtEnd = TRUE is the negative control

VARIABLES text, off, cur, i, result, phase
vars == <<text, off, cur, i, result, phase>>

\* grammar of well-formed texts: a lead byte is followed by a continuation byte
CanAppend(t, c) ==
    IF Len(t) > 0 /\ t[Len(t)] = "H" THEN c = "T" ELSE c # "T"
WellFormed(t) == IF Len(t) = 0 THEN TRUE ELSE t[Len(t)] # "H"

\* offsets at which a token can start: on an ASCII byte or a lead byte
TokenStart(t, o) == o < Len(t) /\ t[o + 1] \in {"A", "H"}

LFPositions(t) == {p \in 1 .. Len(t) : t[p] = "LF"}
\* the cur-th line feed, 0-based byte offset (as regex captures report it)
NthLF(t, n) == CHOOSE p \in LFPositions(t) : Cardinality({q \in LFPositions(t) : q < p}) = n - 1

Init == text = <<>> /\ off = 0 /\ cur = 1 /\ i = 1 /\ result = 0 /\ phase = "grow"

Grow(c) == /\ phase = "grow" /\ Len(text) < MaxLen /\ CanAppend(text, c)
           /\ text' = Append(text, c) /\ UNCHANGED <<off, cur, i, result, phase>>

Start(o) == /\ phase = "grow" /\ WellFormed(text) /\ TokenStart(text, o)
            /\ off' = o /\ phase' = "scan" /\ UNCHANGED <<text, cur, i, result>>

\* one iteration of `for capture in re.captures_iter(file_contents)`
ScanStep == /\ phase = "scan" /\ cur <= Cardinality(LFPositions(text))
            /\ IF NthLF(text, cur) - 1 > off
               THEN result' = i /\ phase' = "done" /\ UNCHANGED <<i, cur>>
               ELSE i' = i + 1 /\ cur' = cur + 1 /\ UNCHANGED <<result, phase>>
            /\ UNCHANGED <<text, off>>

\* no line feed left: the construct is on the last line
ScanEnd == /\ phase = "scan" /\ cur > Cardinality(LFPositions(text))
           /\ result' = IF ReturnZeroAtEnd THEN 0 ELSE i
           /\ phase' = "done" /\ UNCHANGED <<text, off, cur, i>>

Next == (\E c \in ByteClasses : Grow(c)) \/ (\E o \in 0 .. MaxLen : Start(o)) \/ ScanStep \/ ScanEnd
Spec == Init /\ [][Next]_vars /\ WF_vars(ScanStep \/ ScanEnd)

Done == phase = "done"
ScanIsLineOf == Done => result = LineOf(text, off)
OneBased     == Done => result >= 1
Terminates   == (phase = "scan") ~> Done

DumpBehaviour == Done => PrintT(<<"REPLAY", ToJson([text |-> text, off |-> off, line |-> result])>>)
=============================================================================
