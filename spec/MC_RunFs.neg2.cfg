SPECIFICATION Spec
CONSTANTS
  MaxRuns = 2
  AppendMode = FALSE
  ReadsStale = TRUE
INVARIANTS OnlyReport Overwrite DumpBehaviour
CHECK_DEADLOCK FALSE
