SPECIFICATION Spec
CONSTANTS
  Sizes = {8,128,248,256}
  MaxLen = 0
  Dump = TRUE
  BadStep = FALSE
INVARIANTS UsedFits LongGreedy DumpLong
PROPERTY Terminates
CHECK_DEADLOCK FALSE
