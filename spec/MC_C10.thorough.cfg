SPECIFICATION Spec
CONSTANTS
  Sizes = {8,16,24,32,40,48,56,64,72,80,88,96,104,112,120,128,136,144,152,160,168,176,184,192,200,208,216,224,232,240,248,256}
  MaxLen = 4
  Dump = FALSE
  BadStep = FALSE
INVARIANTS TypeOK UsedFits GreedyIsLayout ReportedSound NeverWhenOptimal MustImpliesRef BoundsDisjoint
CHECK_DEADLOCK FALSE
