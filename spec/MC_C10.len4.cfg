SPECIFICATION Spec
CONSTANTS
  Sizes = {8,16,64,128,192,240,248,256}
  MaxLen = 4
  Dump = TRUE
  BadStep = FALSE
INVARIANTS TypeOK UsedFits GreedyIsLayout ReportedSound NeverWhenOptimal MustImpliesRef BoundsDisjoint DumpBehaviour
CHECK_DEADLOCK FALSE
