------------------------------- MODULE Report -------------------------------
(***************************************************************************)
(* Report model (properties C11, C12, C13).                                 *)
(*                                                                          *)
(* Findings of one category: a function F from patterns to a sequence of    *)
(* <<file, lines>> (lines an ascending sequence, possibly EMPTY: the map is  *)
(* a public input of the renderers; an entry without lines is no finding,    *)
(* and a pattern all of whose entries are empty has none).  The rendered category part is a sequence of items  *)
(*   [t |-> "Overview", n]   [t |-> "Severity", s]   [t |-> "Section", p]    *)
(*   [t |-> "LinesHdr"]      [t |-> "Entry", f, l]    [t |-> "Garbage"]       *)
(* (the harness tokenises the real text into these; "Garbage" is text it     *)
(* cannot attribute to any item).                                            *)
(***************************************************************************)
EXTENDS Naturals, Sequences, FiniteSets

SeverityOf(p) ==
    CASE p = "unprotected_selfdestruct" -> "High"
      [] p = "divide_before_multiply"   -> "Medium"
      [] p = "unsafe_erc20_operation"   -> "Low"
      [] p = "floating_pragma"          -> "Low"
      [] OTHER                          -> "none"
Severities == <<"High", "Medium", "Low">>

SetOf(s) == {s[i] : i \in 1 .. Len(s)}
BagOfSeq(s) == [x \in SetOf(s) |-> Cardinality({i \in 1 .. Len(s) : s[i] = x})]

-----------------------------------------------------------------------------
(* Flattening findings to (pattern, file, line) triples                     *)
RECURSIVE LinesOf(_, _, _, _)
LinesOf(p, f, ls, i) == IF i > Len(ls) THEN <<>> ELSE <<<<p, f, ls[i]>>>> \o LinesOf(p, f, ls, i + 1)
RECURSIVE FilesOf(_, _, _)
FilesOf(p, fs, i) == IF i > Len(fs) THEN <<>> ELSE LinesOf(p, fs[i][1], fs[i][2], 1) \o FilesOf(p, fs, i + 1)
\* triples of pattern p in the order the entries must be written
EntriesOf(F, p) == FilesOf(p, F[p], 1)

RECURSIVE FlatOver(_, _)
FlatOver(F, ps) == IF ps = {} THEN <<>>
                   ELSE LET p == CHOOSE q \in ps : TRUE IN EntriesOf(F, p) \o FlatOver(F, ps \ {p})
Flat(F) == FlatOver(F, DOMAIN F)

-----------------------------------------------------------------------------
(* Reading a rendered part back                                              *)
RECURSIVE ReadFrom(_, _, _)
ReadFrom(out, i, cur) ==
    IF i > Len(out) THEN <<>>
    ELSE IF out[i].t = "Section" THEN ReadFrom(out, i + 1, out[i].p)
    ELSE IF out[i].t = "Entry" THEN <<<<cur, out[i].f, out[i].l>>>> \o ReadFrom(out, i + 1, cur)
    ELSE ReadFrom(out, i + 1, cur)
ReadBack(out) == ReadFrom(out, 1, "")

ItemsOf(out, ty) == {i \in 1 .. Len(out) : out[i].t = ty}

\* C11 ----------------------------------------------------------------------
NoGarbage(out) == ItemsOf(out, "Garbage") = {}
RoundTrip(F, out) == BagOfSeq(ReadBack(out)) = BagOfSeq(Flat(F))
\* the patterns that have at least one finding
Reported(F) == {p \in DOMAIN F : EntriesOf(F, p) # <<>>}
SectionIff(F, out) ==
    /\ {out[i].p : i \in ItemsOf(out, "Section")} = Reported(F)
    /\ Cardinality(ItemsOf(out, "Section")) = Cardinality(Reported(F))      \* each section once
\* a section is followed by the "### Lines" header and at least one entry; entries only there
WellFormed(out) ==
    \A i \in 1 .. Len(out) :
        /\ out[i].t = "Section"  => i + 2 <= Len(out) /\ out[i + 1].t = "LinesHdr" /\ out[i + 2].t = "Entry"
        /\ out[i].t = "LinesHdr" => i > 1 /\ out[i - 1].t = "Section"
        /\ out[i].t = "Entry"    => i > 1 /\ out[i - 1].t \in {"LinesHdr", "Entry"}
C11Holds(F, out) == NoGarbage(out) /\ WellFormed(out) /\ RoundTrip(F, out) /\ SectionIff(F, out)

\* C12 ----------------------------------------------------------------------
TotalAgrees(out) ==
    \A i \in ItemsOf(out, "Overview") : out[i].n >= 0 => out[i].n = Cardinality(ItemsOf(out, "Entry"))
OneOverview(out) == Len(out) >= 1 /\ ItemsOf(out, "Overview") = {1}
HeadingIff(F, out) ==
    \A k \in 1 .. Len(Severities) :
        LET s == Severities[k]
            H == {i \in ItemsOf(out, "Severity") : out[i].s = s}
        IN IF \E p \in Reported(F) : SeverityOf(p) = s THEN Cardinality(H) = 1 ELSE H = {}
\* the nearest severity heading above a section is the section's own severity
RECURSIVE HeadingAbove(_, _)
HeadingAbove(out, i) == IF i < 1 THEN "none"
                        ELSE IF out[i].t = "Severity" THEN out[i].s ELSE HeadingAbove(out, i - 1)
UnderOwnSeverity(out) ==
    \A i \in ItemsOf(out, "Section") : HeadingAbove(out, i) = SeverityOf(out[i].p)
NoUnknownSeverity(out) == \A i \in ItemsOf(out, "Severity") : out[i].s \in SetOf(Severities)
C12Holds(F, out) == /\ OneOverview(out) /\ TotalAgrees(out) /\ HeadingIff(F, out)
                    /\ UnderOwnSeverity(out) /\ NoUnknownSeverity(out)

-----------------------------------------------------------------------------
(* The renderer as the code structures it: an outer loop over the patterns  *)
(* of the map (in ANY order: hash iteration), per pattern the section, the   *)
(* header and the entries file by file, line by line; vulnerability sections *)
(* go to one of three severity buffers; a running total.                     *)
SectionItems(F, p) ==
    <<[t |-> "Section", p |-> p], [t |-> "LinesHdr"]>> \o
    [i \in 1 .. Len(EntriesOf(F, p)) |->
        [t |-> "Entry", f |-> EntriesOf(F, p)[i][2], l |-> EntriesOf(F, p)[i][3]]]

Assemble(cat, total, buf) ==
    LET ov == <<[t |-> "Overview", n |-> IF cat = "qa" THEN 0 - 1 ELSE total]>>
        Sev(k) == IF buf[k] = <<>> THEN <<>> ELSE <<[t |-> "Severity", s |-> Severities[k]]>> \o buf[k]
    IN IF cat = "vulnerabilities" THEN ov \o Sev(1) \o Sev(2) \o Sev(3)
       ELSE ov \o buf[4]

\* C13: a canonical renderer (patterns in catalogue order, entries sorted) is defined in
\* MC_Report, where file names are ordered model values.
=============================================================================
