------------------------------ MODULE Patterns ------------------------------
(***************************************************************************)
(* What each detector must and may flag (properties C05 - C08; DESIGN.md    *)
(* section 8).  For every detector d:                                        *)
(*    MustLines(d, T)  lines on which a canonical occurrence begins          *)
(*    MayLines(d, T)   lines on which anything begins that a reasonable       *)
(*                     reading of the documentation could count               *)
(* and an implementation is acceptable iff                                    *)
(*    MustLines(d, T)  \subseteq  reported  \subseteq  MayLines(d, T).        *)
(* T is a flat tree (SolAst.tla) whose nodes carry `ln`, the 1-based line of  *)
(* their first byte, and line anchors ln* in their attributes (projector).    *)
(* Derived string facts TLA+ cannot compute (leading underscore, "only" in a  *)
(* modifier name, value of a literal) are attributes computed from the real   *)
(* token text.                                                                *)
(***************************************************************************)
EXTENDS SolAst

N(T) == 1 .. Len(T)
K(T, n) == T[n].k
A(T, n) == T[n].a
Ln(T, n) == T[n].ln
SetOf(s) == {s[i] : i \in 1 .. Len(s)}

\* children of n in the slot labelled lab (<<>> if the kind has no such slot)
SlotCh(T, n, lab) ==
    LET I == {i \in 1 .. Len(T[n].sl) : T[n].sl[i].lab = lab}
    IN IF I = {} THEN <<>> ELSE T[n].sl[CHOOSE i \in I : TRUE].ch
Kid(T, n, lab) == LET c == SlotCh(T, n, lab) IN IF c = <<>> THEN 0 ELSE c[1]
Under(T, a) == (a + 1) .. T[a].last                \* proper descendants
UnderOrSelf(T, a) == a .. T[a].last

IsVarNamed(T, n, nm) == n # 0 /\ K(T, n) = "E.Variable" /\ A(T, n).name = nm
IsVar(T, n) == n # 0 /\ K(T, n) = "E.Variable"
IsElemType(T, n, tys) == n # 0 /\ K(T, n) = "E.Type" /\ A(T, n).ty \in tys
IsMsgSender(T, n) == n # 0 /\ K(T, n) = "E.MemberAccess" /\ A(T, n).member = "sender" /\ IsVarNamed(T, Kid(T, n, "base"), "msg")
IsCallTo(T, n, names) == n # 0 /\ K(T, n) = "E.FunctionCall" /\ IsVar(T, Kid(T, n, "callee")) /\ A(T, Kid(T, n, "callee")).name \in names
\* a type conversion: T(e) with an elementary type as callee
IsConversion(T, n) == n # 0 /\ K(T, n) = "E.FunctionCall" /\ Kid(T, n, "callee") # 0 /\ K(T, Kid(T, n, "callee")) = "E.Type"

Ancestors(T, n) == {a \in N(T) : IsAncestor(T, a, n)}
InUnchecked(T, n) == \E a \in Ancestors(T, n) : K(T, a) = "S.Block" /\ A(T, a).unchecked
EnclosingFunctions(T, n) == {a \in Ancestors(T, n) : K(T, a) \in {"CP.FunctionDefinition", "SUP.FunctionDefinition"}}
\* nearest enclosing function definition (0 if none)
FunctionOf(T, n) == LET F == EnclosingFunctions(T, n) IN IF F = {} THEN 0 ELSE CHOOSE f \in F : \A g \in F : g <= f

LinesOf(T, S) == {Ln(T, n) : n \in S}

-----------------------------------------------------------------------------
(* C05: expression-level gas detectors                                       *)
OfKind(T, ks) == {n \in N(T) : K(T, n) \in ks}
EqNe == {"E.Equal", "E.NotEqual"}

\* address_balance
BalanceMay(T)  == {n \in OfKind(T, {"E.MemberAccess"}) : A(T, n).member = "balance"}
BalanceMust(T) == {n \in BalanceMay(T) :
                      LET b == Kid(T, n, "base") IN
                      /\ K(T, b) = "E.FunctionCall" /\ IsElemType(T, Kid(T, b, "callee"), {"address"})
                      /\ Len(SlotCh(T, b, "args")) = 1}

\* address_zero
IsAddressZero(T, n) ==
    /\ K(T, n) = "E.FunctionCall" /\ IsElemType(T, Kid(T, n, "callee"), {"address"})
    /\ LET as == SlotCh(T, n, "args") IN
       Len(as) = 1 /\ K(T, as[1]) = "E.NumberLiteral" /\ A(T, as[1]).value = "0" /\ A(T, as[1]).exp = ""
AddrZeroMust(T) == {n \in OfKind(T, EqNe) : IsAddressZero(T, Kid(T, n, "l")) \/ IsAddressZero(T, Kid(T, n, "r"))}
\* address(<literal>) with a literal that is clearly not zero (address(1), address(0xdEaD), a 20-byte constant)
IsNonZeroLiteral(T, m) == \/ K(T, m) = "E.NumberLiteral" /\ ~(A(T, m).num.fits /\ A(T, m).num.value = 0)
                          \/ K(T, m) = "E.HexNumberLiteral" /\ ~A(T, m).zero
IsAddressConv(T, m) == K(T, m) = "E.FunctionCall" /\ IsElemType(T, Kid(T, m, "callee"), {"address", "payable", "address payable"})
ClearlyNonZeroAddress(T, m) == IsAddressConv(T, m) /\ LET as == SlotCh(T, m, "args") IN Len(as) = 1 /\ IsNonZeroLiteral(T, as[1])
AddrZeroMay(T)  == {n \in OfKind(T, EqNe) :
                      \E m \in Under(T, n) : IsAddressConv(T, m) /\ ~ClearlyNonZeroAddress(T, m)}

\* bool_equals_bool
BoolEqMust(T) == {n \in OfKind(T, EqNe) : K(T, Kid(T, n, "l")) = "E.BoolLiteral" \/ K(T, Kid(T, n, "r")) = "E.BoolLiteral"}
BoolEqMay(T)  == {n \in OfKind(T, EqNe) : \E m \in Under(T, n) : K(T, m) = "E.BoolLiteral"}

\* assign_update_array_value:  A[N] = A[N] op E
UpdateOps == {"E.Add", "E.Subtract", "E.Multiply", "E.Divide", "E.Modulo", "E.ShiftLeft", "E.ShiftRight",
              "E.BitwiseAnd", "E.BitwiseOr", "E.BitwiseXor"}
IsConstIndex(T, n) == /\ n # 0 /\ K(T, n) = "E.ArraySubscript" /\ IsVar(T, Kid(T, n, "base"))
                      /\ Kid(T, n, "index") # 0 /\ K(T, Kid(T, n, "index")) = "E.NumberLiteral"
SameConstIndex(T, a, b) == /\ IsConstIndex(T, a) /\ IsConstIndex(T, b)
                           /\ A(T, Kid(T, a, "base")).name = A(T, Kid(T, b, "base")).name
                           /\ A(T, Kid(T, a, "index")).value = A(T, Kid(T, b, "index")).value
                           /\ A(T, Kid(T, a, "index")).exp = A(T, Kid(T, b, "index")).exp
ArrayUpdMust(T) == {n \in OfKind(T, {"E.Assign"}) :
                       LET r == Kid(T, n, "r") IN
                       K(T, r) \in UpdateOps /\ SameConstIndex(T, Kid(T, n, "l"), Kid(T, r, "l"))}
\* loosest reading: target an index expression, right-hand side (possibly parenthesised) one of the ten operators with
\* an operand that may denote the same element -- not when the two bases are different identifiers or the two indexes
\* are different literals (A[1] = A[2] + 1, B[1] = A[1] + 1), not for other operators (||, &&, **, comparisons) or
\* calls (A[1] = f(A[1])): none of these can be written with a compound assignment
PossiblySameElement(T, a, b) ==
    /\ a # 0 /\ b # 0 /\ K(T, a) = "E.ArraySubscript" /\ K(T, b) = "E.ArraySubscript"
    /\ ~(IsVar(T, Kid(T, a, "base")) /\ IsVar(T, Kid(T, b, "base")) /\ A(T, Kid(T, a, "base")).name # A(T, Kid(T, b, "base")).name)
    /\ LET i == Kid(T, a, "index")
           j == Kid(T, b, "index")
       IN ~(i # 0 /\ j # 0 /\ K(T, i) = "E.NumberLiteral" /\ K(T, j) = "E.NumberLiteral"
            /\ (A(T, i).value # A(T, j).value \/ A(T, i).exp # A(T, j).exp))
RECURSIVE StripParens(_, _)
StripParens(T, n) == IF n # 0 /\ K(T, n) = "E.Parenthesis" THEN StripParens(T, Kid(T, n, "e")) ELSE n
ArrayUpdMay(T)  == {n \in OfKind(T, {"E.Assign"}) :
                       LET l == Kid(T, n, "l")
                           r == StripParens(T, Kid(T, n, "r"))
                       IN /\ K(T, l) = "E.ArraySubscript" /\ r # 0 /\ K(T, r) \in UpdateOps
                          /\ \/ PossiblySameElement(T, l, StripParens(T, Kid(T, r, "l")))
                             \/ PossiblySameElement(T, l, StripParens(T, Kid(T, r, "r")))}

\* cache_array_length
IsLength(T, n) == K(T, n) = "E.MemberAccess" /\ A(T, n).member = "length"
CacheLenMust(T) == {m \in N(T) : IsLength(T, m) /\ \E f \in OfKind(T, {"S.For"}) :
                                    Kid(T, f, "cond") # 0 /\ m \in UnderOrSelf(T, Kid(T, f, "cond"))}
\* a read in the initialisation part happens once: it IS the cached form, clearly not the pattern
\* (reads in the update part or the body are repeated like the condition: left open)
CacheLenMay(T)  == {m \in N(T) : IsLength(T, m) /\ \E f \in OfKind(T, {"S.For"}) :
                                    /\ m \in Under(T, f)
                                    /\ ~(Kid(T, f, "init") # 0 /\ m \in UnderOrSelf(T, Kid(T, f, "init")))}

\* increment_decrement
PostKinds == {"E.PostIncrement", "E.PostDecrement"}
PreKinds  == {"E.PreIncrement", "E.PreDecrement"}
IncDecMust(T) == OfKind(T, PostKinds) \cup {n \in OfKind(T, PreKinds) : ~InUnchecked(T, n)}
IncDecMay(T)  == IncDecMust(T)

\* multiple_require
RequireMust(T) == {n \in N(T) : IsCallTo(T, n, {"require"}) /\ \E x \in SetOf(SlotCh(T, n, "args")) : K(T, x) = "E.And"}
RequireMay(T)  == {n \in N(T) : IsCallTo(T, n, {"require"}) /\
                                \E x \in SetOf(SlotCh(T, n, "args")) : \E m \in UnderOrSelf(T, x) : K(T, m) = "E.And"}

\* optimal_comparison
OptCmp(T) == OfKind(T, {"E.MoreEqual", "E.LessEqual"})

\* shift_math
IsPow2Literal(T, n, lo, hi) ==     \* bare decimal literal 2^k, lo <= k <= hi, no exponent
    /\ n # 0 /\ K(T, n) = "E.NumberLiteral" /\ A(T, n).exp = ""
    /\ A(T, n).num.pow2 /\ A(T, n).num.log2 >= lo /\ A(T, n).num.log2 <= hi
RECURSIVE Strip(_, _)
Strip(T, n) == IF n # 0 /\ K(T, n) \in {"E.Parenthesis", "E.Unit"} THEN Strip(T, Kid(T, n, "e")) ELSE n
\* loosest reading: any numeric literal (possibly parenthesised / with unit) whose value may be a power of two >= 1
MaybePow2(T, n) ==
    LET m == Strip(T, n) IN
    /\ m # 0
    /\ \/ K(T, m) = "E.NumberLiteral" /\ A(T, m).num.pow2 /\ A(T, m).exp \in {"", "0", "00"}   \* (pow2 is exact at any length)
       \/ K(T, m) \in {"E.HexNumberLiteral", "E.RationalNumberLiteral"}
ShiftMust(T) == {n \in OfKind(T, {"E.Multiply"}) : IsPow2Literal(T, Kid(T, n, "l"), 1, 31) \/ IsPow2Literal(T, Kid(T, n, "r"), 1, 31)}
                \cup {n \in OfKind(T, {"E.Divide"}) : IsPow2Literal(T, Kid(T, n, "r"), 1, 31)}
ShiftMay(T)  == {n \in OfKind(T, {"E.Multiply", "E.Divide"}) : MaybePow2(T, Kid(T, n, "l")) \/ MaybePow2(T, Kid(T, n, "r"))}

\* solidity_keccak256
Keccak(T) == {n \in N(T) : IsCallTo(T, n, {"keccak256"})}

\* solidity_math
MathMust(T) == OfKind(T, {"E.Add", "E.Subtract", "E.Multiply", "E.Divide"})
MathMay(T)  == MathMust(T) \cup OfKind(T, {"E.AssignAdd", "E.AssignSubtract", "E.AssignMultiply", "E.AssignDivide"} \cup PostKinds \cup PreKinds)

-----------------------------------------------------------------------------
(* C06: declaration-level detectors.  Domain: members of contract-like items *)
ContractOf(T, n) == IF T[n].par # 0 /\ K(T, T[n].par) = "SUP.ContractDefinition" THEN T[n].par ELSE 0
Members(T, k) == {n \in OfKind(T, {k}) : ContractOf(T, n) # 0}
CFuncs(T) == Members(T, "CP.FunctionDefinition")
StateVars(T) == Members(T, "CP.VariableDefinition")
HasVis(T, n, vs) == \E i \in 1 .. Len(A(T, n).vis) : A(T, n).vis[i] \in vs
HasMut(T, n, ms) == \E i \in 1 .. Len(A(T, n).mut) : A(T, n).mut[i] \in ms

\* payable_function
PayableCore(T, n) == A(T, n).hasBody /\ HasVis(T, n, {"public", "external"}) /\ ~HasMut(T, n, {"payable"})
PayableMust(T) == {n \in CFuncs(T) : A(T, n).fty \in {"function", "fallback", "receive"} /\ PayableCore(T, n)}
PayableMay(T)  == PayableMust(T) \cup {n \in CFuncs(T) : A(T, n).fty \in {"constructor", "modifier"} /\ PayableCore(T, n)}

\* state variables of elementary type (the domain of the variable detectors)
ValueTypes == {"uint", "int", "bool", "address", "address payable", "bytesN"}
ElemTypes  == ValueTypes \cup {"string", "bytes", "payable", "rational"}
TypeOfVar(T, v) == Kid(T, v, "ty")
IsElemVar(T, v) == IsElemType(T, TypeOfVar(T, v), ElemTypes)
IsTypeNodeVar(T, v) == K(T, TypeOfVar(T, v)) = "E.Type" /\ A(T, TypeOfVar(T, v)).ty # "mapping"   \* what the code's table holds

\* private_constant
PrivConstMust(T) == {v \in StateVars(T) : IsElemVar(T, v) /\ A(T, v).constant /\ ~HasVis(T, v, {"private"})}
PrivConstMay(T)  == {v \in StateVars(T) : IsTypeNodeVar(T, v) /\ A(T, v).constant /\ ~HasVis(T, v, {"private"})}

\* private_vars_leading_underscore
UnderscoreVarBad(T, v) == \/ HasVis(T, v, {"private", "internal"}) /\ ~A(T, v).nameUnderscore
                          \/ HasVis(T, v, {"public"}) /\ A(T, v).nameUnderscore
VarUnderscoreMust(T) == {v \in StateVars(T) : IsElemVar(T, v) /\ ~A(T, v).constant /\ UnderscoreVarBad(T, v)}
VarUnderscoreMay(T)  == {v \in StateVars(T) : IsTypeNodeVar(T, v) /\ ~A(T, v).constant /\ UnderscoreVarBad(T, v)}

\* private_func_leading_underscore (reported at the name)
UnderscoreFnBad(T, f) == \/ HasVis(T, f, {"public", "external"}) /\ A(T, f).nameUnderscore
                         \/ HasVis(T, f, {"private", "internal"}) /\ ~A(T, f).nameUnderscore
FnUnderscore(T) == {f \in CFuncs(T) : A(T, f).fty = "function" /\ A(T, f).name # "" /\ UnderscoreFnBad(T, f)}

\* constructor_order: preceded IN ITS OWN CONTRACT by a function / fallback / receive definition
CtorOrder(T) == {c \in CFuncs(T) : A(T, c).fty = "constructor" /\
                    \E f \in CFuncs(T) : /\ ContractOf(T, f) = ContractOf(T, c) /\ f < c
                                         /\ A(T, f).fty \in {"function", "fallback", "receive"}}

-----------------------------------------------------------------------------
(* C07: vulnerability detectors                                              *)
Erc20(T) == {n \in OfKind(T, {"E.MemberAccess"}) : A(T, n).member \in {"transfer", "transferFrom", "approve"}}

\* divide_before_multiply
RECURSIVE MulChainHitsDiv(_, _)
MulChainHitsDiv(T, n) ==           \* from the left operand of a multiplication, through * (left) and parentheses
    IF n = 0 THEN FALSE
    ELSE IF K(T, n) = "E.Divide" THEN TRUE
    ELSE IF K(T, n) = "E.Multiply" THEN MulChainHitsDiv(T, Kid(T, n, "l"))
    ELSE IF K(T, n) = "E.Parenthesis" THEN MulChainHitsDiv(T, Kid(T, n, "e"))
    ELSE FALSE
ChainOps == {"E.Divide", "E.Add", "E.Subtract", "E.Modulo", "E.BitwiseAnd", "E.BitwiseOr", "E.BitwiseXor", "E.ShiftLeft", "E.ShiftRight"}
RECURSIVE DivChainHitsMul(_, _)
DivChainHitsMul(T, n) ==
    IF n = 0 THEN FALSE
    ELSE IF K(T, n) = "E.Multiply" THEN TRUE
    ELSE IF K(T, n) \in ChainOps THEN DivChainHitsMul(T, Kid(T, n, "l"))
    ELSE IF K(T, n) = "E.Parenthesis" THEN DivChainHitsMul(T, Kid(T, n, "e"))
    ELSE FALSE
DivMulMust(T) == {n \in OfKind(T, {"E.Multiply"}) : MulChainHitsDiv(T, Kid(T, n, "l"))}
                 \cup {n \in OfKind(T, {"E.AssignDivide"}) : DivChainHitsMul(T, Kid(T, n, "r"))}
DivMulMay(T)  == {n \in OfKind(T, {"E.Multiply"}) : \E m \in UnderOrSelf(T, Kid(T, n, "l")) : K(T, m) = "E.Divide"}
                 \cup {n \in OfKind(T, {"E.AssignDivide"}) : \E m \in UnderOrSelf(T, Kid(T, n, "r")) : K(T, m) = "E.Multiply"}

\* floating_pragma
Pragmas(T) == OfKind(T, {"SUP.PragmaDirective"})
FloatMust(T) == {p \in Pragmas(T) : A(T, p).pragmaId = "solidity" /\ A(T, p).startsCaret}
FloatMay(T)  == {p \in Pragmas(T) : A(T, p).caret}

\* unprotected_selfdestruct
Destructs(T) == {n \in N(T) : IsCallTo(T, n, {"selfdestruct", "suicide"})}
BodyOf(T, f) == Kid(T, f, "body")
InBody(T, f, n) == BodyOf(T, f) # 0 /\ n \in UnderOrSelf(T, BodyOf(T, f))
\* every mention of msg.sender in the body is inside a selfdestruct call's arguments or the sole argument of a conversion
SenderOnlyHarmless(T, f) ==
    \A m \in N(T) : (InBody(T, f, m) /\ IsMsgSender(T, m)) =>
        \/ \E d \in Destructs(T) : m \in Under(T, d)
        \/ (T[m].par # 0 /\ IsConversion(T, T[m].par) /\ T[m].slot = "args" /\ Len(SlotCh(T, T[m].par, "args")) = 1)
\* some call other than selfdestruct and other than a conversion is handed msg.sender or a comparison with it
SenderChecks(T, f) ==
    {c \in OfKind(T, {"E.FunctionCall"}) :
        /\ InBody(T, f, c) /\ c \notin Destructs(T) /\ ~IsConversion(T, c)
        /\ \E x \in SetOf(SlotCh(T, c, "args")) :
              \/ IsMsgSender(T, x)
              \/ K(T, x) \in EqNe /\ (IsMsgSender(T, Kid(T, x, "l")) \/ IsMsgSender(T, Kid(T, x, "r")))}
\* a check that is not itself part of a payout expression: the call must not be reported
HasSenderCheck(T, f) == \E c \in SenderChecks(T, f) : ~\E d \in Destructs(T) : c \in Under(T, d)
DestructMust(T) == {d \in Destructs(T) :
                       LET f == FunctionOf(T, d) IN
                       /\ f # 0 /\ f \in CFuncs(T) /\ InBody(T, f, d)
                       /\ A(T, f).fty # "constructor" /\ HasVis(T, f, {"public", "external"})
                       /\ ~A(T, f).onlyModifier /\ SenderOnlyHarmless(T, f)
                       \* selfdestruct(pick(msg.sender)): the two clauses of the statement disagree -- left open
                       /\ SenderChecks(T, f) = {}}
DestructMustNot(T) == {d \in Destructs(T) :
                          LET f == FunctionOf(T, d) IN
                          \/ f = 0
                          \/ /\ f \in CFuncs(T)
                             /\ \/ A(T, f).fty = "constructor"
                                \/ ~HasVis(T, f, {"public", "external"})
                                \/ A(T, f).onlyModifier
                                \/ HasSenderCheck(T, f)}
DestructMay(T) == Destructs(T) \ DestructMustNot(T)

-----------------------------------------------------------------------------
(* C08: mutability detectors                                                 *)
AssignKinds == {"E.Assign", "E.AssignOr", "E.AssignAnd", "E.AssignXor", "E.AssignShiftLeft", "E.AssignShiftRight",
                "E.AssignAdd", "E.AssignSubtract", "E.AssignMultiply", "E.AssignDivide", "E.AssignModulo"}
WriteKinds == AssignKinds \cup PostKinds \cup PreKinds
TargetOf(T, w) == IF K(T, w) \in AssignKinds THEN Kid(T, w, "l") ELSE Kid(T, w, "e")
\* direct writes to the variable called nm, anywhere in the file
Writes(T, nm) == {w \in OfKind(T, WriteKinds) : IsVarNamed(T, TargetOf(T, w), nm)}
\* writes in any form: the target expression mentions the name
WritesAnyForm(T, nm, scope) == {w \in OfKind(T, WriteKinds) :
                                   w \in scope /\ \E m \in UnderOrSelf(T, TargetOf(T, w)) : IsVarNamed(T, m, nm)}

VarName(T, v) == A(T, v).name
StateVarNames(T) == {VarName(T, v) : v \in StateVars(T)}

\* the domain of C06 / C08: state-variable names unique within the file and not shadowed by locals or parameters
ParamNames(T, f) == {A(T, f).params[i].name : i \in {j \in 1 .. Len(A(T, f).params) : A(T, f).params[j].present}}
                    \cup {A(T, f).returns[i].name : i \in {j \in 1 .. Len(A(T, f).returns) : A(T, f).returns[j].present}}
LocalNames(T) == {A(T, s).name : s \in OfKind(T, {"S.VariableDefinition"})}
                 \cup UNION {ParamNames(T, f) : f \in OfKind(T, {"CP.FunctionDefinition", "SUP.FunctionDefinition"})}
NamesUnique(T) == \A v, w \in StateVars(T) : v # w => VarName(T, v) # VarName(T, w)
InDomain(T) == NamesUnique(T) /\ StateVarNames(T) \cap LocalNames(T) = {}

\* constant_variables
ConstMust(T)    == {v \in StateVars(T) : IsElemVar(T, v) /\ ~A(T, v).constant /\ ~A(T, v).immutable /\ Writes(T, VarName(T, v)) = {}}
ConstMustNot(T) == {v \in StateVars(T) : Writes(T, VarName(T, v)) # {}}
ConstMay(T)     == StateVars(T) \ ConstMustNot(T)

\* immutable_variables
Ctors(T) == {f \in CFuncs(T) : A(T, f).fty = "constructor"}
NonCtorBodies(T) == {f \in CFuncs(T) : A(T, f).fty # "constructor"}
IsNonValueRhs(T, r) ==
    \/ K(T, r) = "E.StringLiteral"
    \/ /\ K(T, r) = "E.FunctionCall"
       /\ LET c == Kid(T, r, "callee") IN
          \/ (K(T, c) = "E.MemberAccess" /\ IsVarNamed(T, Kid(T, c, "base"), "abi"))
          \/ IsElemType(T, c, {"bytes"})
CtorAssigns(T, nm) == {w \in OfKind(T, {"E.Assign"}) : IsVarNamed(T, Kid(T, w, "l"), nm) /\ \E c \in Ctors(T) : w \in Under(T, c)}
WrittenElsewhere(T, nm) == \E w \in Writes(T, nm) : \E f \in NonCtorBodies(T) : w \in Under(T, f)
ImmMust(T)    == {v \in StateVars(T) :
                     /\ IsElemType(T, TypeOfVar(T, v), ValueTypes) /\ ~A(T, v).constant /\ ~A(T, v).immutable
                     /\ \E w \in CtorAssigns(T, VarName(T, v)) : ~IsNonValueRhs(T, Kid(T, w, "r"))
                     /\ ~WrittenElsewhere(T, VarName(T, v))}
ImmMustNot(T) == {v \in StateVars(T) : CtorAssigns(T, VarName(T, v)) = {} \/ WrittenElsewhere(T, VarName(T, v))}
ImmMay(T)     == StateVars(T) \ ImmMustNot(T)

\* memory_to_calldata (reported at the `memory` keyword of the parameter): sets of lines
MemParams(T, f) == {i \in 1 .. Len(A(T, f).params) : A(T, f).params[i].present /\ A(T, f).params[i].storage = "memory"}
AnyFn(T) == OfKind(T, {"CP.FunctionDefinition", "SUP.FunctionDefinition"})
BodyScope(T, f) == IF BodyOf(T, f) = 0 THEN {} ELSE UnderOrSelf(T, BodyOf(T, f))
AssignedInBody(T, f, nm) ==      \* p = e  or  p[i] = e  anywhere in the body
    \E w \in OfKind(T, {"E.Assign"}) :
        /\ w \in BodyScope(T, f)
        /\ LET t == Kid(T, w, "l") IN
           IsVarNamed(T, t, nm) \/ (K(T, t) = "E.ArraySubscript" /\ IsVarNamed(T, Kid(T, t, "base"), nm))
CalldataMustLines(T) ==
    UNION {{A(T, f).params[i].lnStorage : i \in {j \in MemParams(T, f) :
                /\ A(T, f).params[j].name # ""
                /\ WritesAnyForm(T, A(T, f).params[j].name, BodyScope(T, f)) = {}}}
           : f \in {g \in CFuncs(T) : A(T, g).fty = "function" /\ A(T, g).hasBody /\ HasVis(T, g, {"public", "external"})}}
CalldataMustNot(T, f, j) ==
    \/ A(T, f).fty = "constructor"
    \/ (A(T, f).params[j].name # "" /\ AssignedInBody(T, f, A(T, f).params[j].name))
\* per parameter, not per line: several parameters may share a line
CalldataMayLines(T) ==
    UNION {{A(T, f).params[i].lnStorage : i \in {j \in MemParams(T, f) : ~CalldataMustNot(T, f, j)}} : f \in AnyFn(T)}

\* sstore: exactly the plain assignments to an elementary-typed, non-constant, non-immutable state variable
SstoreVars(T) == {VarName(T, v) : v \in {x \in StateVars(T) : IsElemVar(T, x) /\ ~A(T, x).constant /\ ~A(T, x).immutable}}
SstoreLooseVars(T) == {VarName(T, v) : v \in {x \in StateVars(T) : IsTypeNodeVar(T, x) /\ ~A(T, x).constant /\ ~A(T, x).immutable}}
SstoreMust(T) == {w \in OfKind(T, {"E.Assign"}) : IsVar(T, Kid(T, w, "l")) /\ A(T, Kid(T, w, "l")).name \in SstoreVars(T)}
SstoreMay(T)  == {w \in OfKind(T, {"E.Assign"}) : IsVar(T, Kid(T, w, "l")) /\ A(T, Kid(T, w, "l")).name \in SstoreLooseVars(T)}

-----------------------------------------------------------------------------
(* The table: detector name -> (must lines, may lines, needs the name domain)*)
C05Detectors == {"address_balance", "address_zero", "bool_equals_bool", "assign_update_array_value", "cache_array_length",
                 "increment_decrement", "multiple_require", "optimal_comparison", "shift_math", "solidity_keccak256", "solidity_math"}
C06Detectors == {"payable_function", "private_constant", "private_vars_leading_underscore", "private_func_leading_underscore", "constructor_order"}
C07Detectors == {"unsafe_erc20_operation", "divide_before_multiply", "floating_pragma", "unprotected_selfdestruct"}
C08Detectors == {"constant_variables", "immutable_variables", "memory_to_calldata", "sstore"}
\* Detectors whose verdict is the subject of C09 / C10: here only WHERE they may report (C02) -- on a line on which a
\* construct of their kind begins.  string_errors / short_revert_string: a require call or its last argument, a string
\* literal; safe_math_*: a call add/sub/mul/div on a member; pack_*: a contract / a struct definition.
LineOnlyDetectors == {"string_errors", "short_revert_string", "safe_math_pre_080", "safe_math_post_080",
                      "pack_storage_variables", "pack_struct_variables"}
RequireWithString(T) == {n \in N(T) : IsCallTo(T, n, {"require"}) /\ LET as == SlotCh(T, n, "args") IN
                                          as # <<>> /\ K(T, as[Len(as)]) = "E.StringLiteral"}
StringErrMay(T) == RequireWithString(T) \cup {LET as == SlotCh(T, n, "args") IN as[Len(as)] : n \in RequireWithString(T)}
SafeMathMay(T) == {n \in N(T) : K(T, n) = "E.FunctionCall" /\ Kid(T, n, "callee") # 0 /\ K(T, Kid(T, n, "callee")) = "E.MemberAccess"
                                 /\ A(T, Kid(T, n, "callee")).member \in {"add", "sub", "mul", "div"}}
PackStorageMay(T) == OfKind(T, {"SUP.ContractDefinition"})
PackStructMay(T) == OfKind(T, {"SUP.StructDefinition", "CP.StructDefinition"})
LineOnlyMay(d, T) ==
    CASE d \in {"string_errors", "short_revert_string"} -> LinesOf(T, StringErrMay(T))
      [] d \in {"safe_math_pre_080", "safe_math_post_080"} -> LinesOf(T, SafeMathMay(T))
      [] d = "pack_storage_variables" -> LinesOf(T, PackStorageMay(T))
      [] d = "pack_struct_variables" -> LinesOf(T, PackStructMay(T))

NeedsDomain == {"private_constant", "private_vars_leading_underscore", "constant_variables", "immutable_variables", "memory_to_calldata", "sstore"}

MustLines(d, T) ==
    CASE d \in LineOnlyDetectors -> {}
      [] d = "address_balance" -> LinesOf(T, BalanceMust(T))
      [] d = "address_zero" -> LinesOf(T, AddrZeroMust(T))
      [] d = "bool_equals_bool" -> LinesOf(T, BoolEqMust(T))
      [] d = "assign_update_array_value" -> LinesOf(T, ArrayUpdMust(T))
      [] d = "cache_array_length" -> LinesOf(T, CacheLenMust(T))
      [] d = "increment_decrement" -> LinesOf(T, IncDecMust(T))
      [] d = "multiple_require" -> LinesOf(T, RequireMust(T))
      [] d = "optimal_comparison" -> LinesOf(T, OptCmp(T))
      [] d = "shift_math" -> LinesOf(T, ShiftMust(T))
      [] d = "solidity_keccak256" -> LinesOf(T, Keccak(T))
      [] d = "solidity_math" -> LinesOf(T, MathMust(T))
      [] d = "payable_function" -> LinesOf(T, PayableMust(T))
      [] d = "private_constant" -> LinesOf(T, PrivConstMust(T))
      [] d = "private_vars_leading_underscore" -> LinesOf(T, VarUnderscoreMust(T))
      [] d = "private_func_leading_underscore" -> {A(T, f).lnName : f \in FnUnderscore(T)}
      [] d = "constructor_order" -> LinesOf(T, CtorOrder(T))
      [] d = "unsafe_erc20_operation" -> LinesOf(T, Erc20(T))
      [] d = "divide_before_multiply" -> LinesOf(T, DivMulMust(T))
      [] d = "floating_pragma" -> LinesOf(T, FloatMust(T))
      [] d = "unprotected_selfdestruct" -> LinesOf(T, DestructMust(T))
      [] d = "constant_variables" -> LinesOf(T, ConstMust(T))
      [] d = "immutable_variables" -> LinesOf(T, ImmMust(T))
      [] d = "memory_to_calldata" -> CalldataMustLines(T)
      [] d = "sstore" -> LinesOf(T, SstoreMust(T))

MayLines(d, T) ==
    CASE d \in LineOnlyDetectors -> LineOnlyMay(d, T)
      [] d = "address_balance" -> LinesOf(T, BalanceMay(T))
      [] d = "address_zero" -> LinesOf(T, AddrZeroMay(T))
      [] d = "bool_equals_bool" -> LinesOf(T, BoolEqMay(T))
      [] d = "assign_update_array_value" -> LinesOf(T, ArrayUpdMay(T))
      [] d = "cache_array_length" -> LinesOf(T, CacheLenMay(T))
      [] d = "increment_decrement" -> LinesOf(T, IncDecMay(T))
      [] d = "multiple_require" -> LinesOf(T, RequireMay(T))
      [] d = "optimal_comparison" -> LinesOf(T, OptCmp(T))
      [] d = "shift_math" -> LinesOf(T, ShiftMay(T))
      [] d = "solidity_keccak256" -> LinesOf(T, Keccak(T))
      [] d = "solidity_math" -> LinesOf(T, MathMay(T))
      [] d = "payable_function" -> LinesOf(T, PayableMay(T))
      [] d = "private_constant" -> LinesOf(T, PrivConstMay(T))
      [] d = "private_vars_leading_underscore" -> LinesOf(T, VarUnderscoreMay(T))
      [] d = "private_func_leading_underscore" -> {A(T, f).lnName : f \in FnUnderscore(T)}
      [] d = "constructor_order" -> LinesOf(T, CtorOrder(T))
      [] d = "unsafe_erc20_operation" -> LinesOf(T, Erc20(T))
      [] d = "divide_before_multiply" -> LinesOf(T, DivMulMay(T))
      [] d = "floating_pragma" -> LinesOf(T, FloatMay(T))
      [] d = "unprotected_selfdestruct" -> LinesOf(T, DestructMay(T))
      [] d = "constant_variables" -> LinesOf(T, ConstMay(T))
      [] d = "immutable_variables" -> LinesOf(T, ImmMay(T))
      [] d = "memory_to_calldata" -> CalldataMayLines(T)
      [] d = "sstore" -> LinesOf(T, SstoreMay(T))

Verdict(d, T, reported) ==
    IF d \in NeedsDomain /\ ~InDomain(T) THEN "outside-domain"
    ELSE IF ~(MustLines(d, T) \subseteq reported) THEN "missed"
    ELSE IF ~(reported \subseteq MayLines(d, T)) THEN "spurious"
    ELSE "ok"
=============================================================================
