SPECIFICATION Spec
CONSTANTS
  Prop = "C08"
  Full = TRUE
INVARIANTS WellFormed DumpBehaviour
CHECK_DEADLOCK FALSE
