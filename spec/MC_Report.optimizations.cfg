SPECIFICATION Spec
CONSTANTS
  Cat = "optimizations"
  Pats <- PatsOpt
  LowHeadingAlways = FALSE
  HashOrderEntries = FALSE
INVARIANTS Listed Totals Deterministic CanonIsARendering ValueIsReadBack DumpBehaviour
PROPERTY Terminates
CHECK_DEADLOCK FALSE
