------------------------------ MODULE MC_C09 ------------------------------
(***************************************************************************)
(* Enumerates version triples x operator spellings x header shapes, checks  *)
(* the gate properties and prints one behaviour per header for replay.      *)
(* The extraction is also run as a machine (variables idx, found) so that    *)
(* the scan order of the code is an explicit sequence of actions.            *)
(***************************************************************************)
EXTENDS Version, TLC, Json

CONSTANTS MaxMajor, MaxMinor, MaxPatch, Full, FirstPragmaWins

Ops == {"", "^", "~", "=", ">=", ">"}
Other == {[kind |-> "experimental", op |-> "", ver |-> <<0, 0, 0>>],
          [kind |-> "abicoder", op |-> "", ver |-> <<0, 0, 0>>]}
Exp == [kind |-> "experimental", op |-> "", ver |-> <<0, 0, 0>>]
Abi == [kind |-> "abicoder", op |-> "", ver |-> <<0, 0, 0>>]
\* an unrelated pragma whose value looks like a version (`pragma experimental "v0.5.0";`): still not the file's version
ExpV == [kind |-> "experimental", op |-> "", ver |-> <<0, 5, 0>>]

Sol(op, v) == [kind |-> "solidity", op |-> op, ver |-> v]

\* a top-level item that is not a pragma (an interface): pragmas are ordinary top-level parts and may follow it
Item == [kind |-> "item", op |-> "", ver |-> <<0, 0, 0>>]
\* header shapes: the solidity pragma alone, after / before / between unrelated pragmas, after another item
Shapes(s) == {<<s>>, <<Exp, s>>, <<s, Exp>>, <<Abi, s>>, <<s, Abi>>, <<Abi, s, Exp>>, <<Exp, Abi, s>>,
              <<Item, s>>, <<Abi, Item, s>>, <<ExpV, s>>, <<s, ExpV>>}

Box == (0 .. MaxMajor) \X (0 .. MaxMinor) \X (0 .. MaxPatch)
Boundary == {v \in Box : /\ v[2] \in {0, 7, 8, 9, MaxMinor}
                         /\ v[3] \in {0, 3, 4, 5, MaxPatch}}

VARIABLES header, idx, found, phase, usingAt
vars == <<header, idx, found, phase, usingAt>>

\* where the file attaches SafeMath: inside the contract or by a file-level `using` directive
Init == /\ \E v \in Box :
             \/ header \in Shapes(Sol("", v)) /\ usingAt = "contract"
             \/ /\ (Full \/ v \in Boundary)
                /\ \E op \in Ops : header \in Shapes(Sol(op, v))
                /\ usingAt \in {"contract", "file"}
        /\ idx = 1 /\ found = <<>> /\ phase = "scan"

\* one iteration of the loop over PragmaDirective nodes
ScanPragma == /\ phase = "scan" /\ idx <= Len(header)
              /\ IF IsSolidity(header[idx]) \/ FirstPragmaWins
                 THEN found' = header[idx].ver /\ phase' = "done"
                 ELSE found' = found /\ phase' = phase
              /\ idx' = idx + 1
              /\ UNCHANGED <<header, usingAt>>
NoPragmaLeft == /\ phase = "scan" /\ idx > Len(header)
                /\ phase' = "done" /\ UNCHANGED <<header, idx, found, usingAt>>
Next == ScanPragma \/ NoPragmaLeft
Spec == Init /\ [][Next]_vars /\ WF_vars(Next)

Done == phase = "done"
TheVer == SolVer(header)

ScanFindsSolidity   == Done => found = TheVer
PlacementIrrelevant == Done => found = (CHOOSE p \in {header[i] : i \in 1 .. Len(header)} : IsSolidity(p)).ver
GatesExclusive      == Done => Exclusive(found) /\ ExclusiveS(found)
GatesMonotone       == Done => \A w \in Boundary : MonotoneAt(found, w) /\ MonotoneAt(w, found)
Terminates          == <>Done

DumpBehaviour ==
    Done => PrintT(<<"REPLAY", ToJson([header |-> header, ver |-> found, usingAt |-> usingAt,
                                       gates |-> [d \in Detectors |-> Gate(d, found)]])>>)
=============================================================================
