---------------------------- MODULE MC_Patterns ----------------------------
(***************************************************************************)
(* Generation of the files on which C05 - C08 are decided: every pattern    *)
(* instance of PatGen / DeclGen in the syntactic positions of Gen.tla,       *)
(* inside host functions of every kind, neighbourhoods of other top-level    *)
(* items and attribute products.  Each state is one file; TLC checks that    *)
(* it is a well-formed tree of Sig and prints it.  The verdicts are decided  *)
(* by TV_Patterns on what the real parser and the real detectors return.     *)
(***************************************************************************)
EXTENDS DeclGen, Json

CONSTANTS Prop, Full

\* frames by hole sort
EHole == {f \in AllFrames : f.in = "E"}
SHole == {f \in AllFrames : f.in = "S"}
SimpleHole == {f \in AllFrames : f.in = "Simple"}
QuickE == {f \in EHole :
             \/ f.k \in {"E.Add", "E.Assign", "E.Not", "E.Parenthesis", "S.Return", "S.If", "E.Power", "E.PreIncrement", "CP.VariableDefinition",
                          "SUP.VariableDefinition"} /\ f.hp = 1
             \/ f.k \in {"E.FunctionCall", "S.Revert"} /\ f.hs = (IF f.k = "E.FunctionCall" THEN 2 ELSE 1) /\ f.hp = 2
             \/ f.k \in {"E.Ternary", "E.ArraySubscript"} /\ f.hs = 2
             \/ f.k = "S.For" /\ f.hs = 2
             \/ f.k = "CP.FunctionDefinition" /\ f.a.fty = "function" /\ f.hp = 1}
QuickS == {f \in SHole : f.k \in {"S.If", "S.Block", "S.For", "S.Try", "S.DoWhile"}}
EFramesUsed == IF Full THEN EHole ELSE QuickE
SFramesUsed == IF Full THEN SHole ELSE QuickS
HostsUsed == IF Full THEN HostKinds ELSE {"function", "constructor"}

\* place the result of a frame in a file
Place(f, t, host) ==
    LET r == Plug(f, t) IN
    IF f.out \in {"E", "S", "B", "Simple"} THEN HostFile(host, <<AsStmt(r, f.out)>>)
    ELSE IF f.out = "Args" THEN HostFile(host, <<ExprStmt(N("E.FunctionCallBlock", A0, <<<<Var("fn")>>, <<r>>>>))>>)
    ELSE IF f.out = "CP" THEN InFile(<<N("SUP.ContractDefinition", [cty |-> "contract", name |-> "Host", bases |-> <<>>], <<<<>>, HostDecls \o <<r>>>>)>>)
    ELSE ToFile(r, f.out)

L(lab, t) == [label |-> lab, tree |-> t]
\* thorough: every frame in a function and a constructor, the representative frames in every kind of host
HostsFor(f) == IF f.out \in {"E", "S", "B", "Simple", "Args"}
               THEN (IF Full /\ f \notin QuickE \cup QuickS THEN {"function", "constructor"} ELSE HostsUsed)
               ELSE {"function"}

\* quick tier: besides the representative frames every instance is also placed in a rotating seventh of ALL the other
\* frames (in a function), so that over the instances of a detector every syntactic position is used
RotatingFrames(i) == IF Full THEN {} ELSE {f \in EHole \ QuickE : (Len(f.k) + f.hs + f.hp) % 7 = Len(i.label) % 7 /\ f.out \in {"E", "S", "B", "Simple"}}
ExprFamily(insts) ==
    UNION {UNION {{L(i.label \o "@" \o f.k \o "." \o ToString(f.hs) \o "." \o ToString(f.hp) \o "/" \o h, Place(f, i.tree, h))
                      : h \in HostsFor(f)} : f \in EFramesUsed}
           : i \in {x \in insts : x.sort = "E"}}
    \cup UNION {{L(i.label \o "@" \o f.k \o "." \o ToString(f.hs) \o "." \o ToString(f.hp) \o "/function~", Place(f, i.tree, "function"))
                   : f \in RotatingFrames(i)} : i \in {x \in insts : x.sort = "E"}}
    \cup {L(i.label \o "@stmt/" \o h, HostFile(h, <<ExprStmt(i.tree)>>)) : i \in {x \in insts : x.sort = "E"}, h \in HostsUsed}
    \cup {L(i.label \o "@free", FreeFile(<<ExprStmt(i.tree)>>)) : i \in {x \in insts : x.sort = "E"}}
    \* as the initialisation / update part of a for statement (with and without condition, with and without body)
    \cup UNION {{L(i.label \o "@" \o f.k \o "." \o ToString(f.hs) \o "." \o ToString(f.hp) \o "/simple" \o ToString(Len(f.c[2])) \o ToString(Len(f.c[4])),
                    Place(f, ExprStmt(i.tree), "function")) : f \in SimpleHole} : i \in {x \in insts : x.sort = "E"}}
StmtFamily(insts) ==
    UNION {UNION {{L(i.label \o "@" \o f.k \o "." \o ToString(f.hs) \o "." \o ToString(f.hp) \o "/" \o h, Place(f, i.tree, h))
                      : h \in HostsFor(f)} : f \in SFramesUsed}
           : i \in {x \in insts : x.sort = "S"}}
    \cup {L(i.label \o "@body/" \o h, HostFile(h, <<i.tree>>)) : i \in {x \in insts : x.sort = "S"}, h \in HostsUsed}

CPFramesUsed == IF Full THEN CPFrames ELSE {f \in CPFrames : f.a.cty \in {"contract", "library"} /\ Len(f.c[2]) = 0} \cup {f \in CPFrames : f.a.cty = "contract" /\ f.hp = 2}
DeclFamily(insts) ==
    UNION {{L(i.label \o "@" \o f.a.cty \o "." \o ToString(f.hp) \o "of" \o ToString(Len(f.c[2]) + 1), ToFile(Plug(f, i.tree), "SUP")) : f \in CPFramesUsed} : i \in insts}

\* a declaration between other function-like members (with and without body): no member may hide another
Bodyless == FnDecl("function", "declaredOnly", VisAttr("public") \o MutAttr("view") \o <<[kind |-> "virtual"]>>, NoParams, <<>>, FALSE, <<>>)
Bodied   == FnDecl("function", "helper", VisAttr("internal"), NoParams, <<>>, TRUE, <<>>)
BetweenFamily(insts) ==
    UNION {{L(i.label \o "@after-bodyless", InFile(<<N("SUP.ContractDefinition", [cty |-> "abstract", name |-> "Mixed", bases |-> <<>>], <<<<>>, <<Bodyless, i.tree, Bodied>>>>)>>)),
            L(i.label \o "@before-bodyless", InFile(<<N("SUP.ContractDefinition", [cty |-> "abstract", name |-> "Mixed", bases |-> <<>>], <<<<>>, <<Bodied, i.tree, Bodyless>>>>)>>))}
           : i \in insts}

OrderFamily ==
    LET n == IF Full THEN 3 ELSE 2 IN
    UNION {{L("order:" \o TagLabel(tags) \o "#" \o ToString(Len(nb)), InFile(nb))
              : nb \in Neighbourhoods(ContractOfMembers("Subject", "contract", tags))} : tags \in Arrangements(n)}
    \cup {L("order3:" \o TagLabel(tags), InFile(<<NbFn, ContractOfMembers("Subject", "contract", tags), NbCtor>>)) : tags \in [1 .. 3 -> {"function", "modifier", "constructor", "receive"}]}

C05Inst == BalanceInst \cup AddrZeroInst \cup BoolEqInst \cup ArrayUpdInst \cup IncDecInst \cup RequireInst \cup CmpInst
           \cup ShiftInst \cup KeccakInst \cup MathInst \cup CacheLenInst
\* operand matrices: as a statement of their own and in a few frames (quick) / every frame (thorough)
C05Matrix == AddrZeroMatrix \cup BoolEqMatrix \cup CmpMatrix \cup MathMatrix
MatrixFrames == IF Full THEN EHole ELSE {f \in EHole : f.k \in {"E.Not", "S.Return"} /\ f.hp = 1}
MatrixFamily(insts) ==
    UNION {{L(i.label \o "@" \o f.k \o "." \o ToString(f.hs) \o "." \o ToString(f.hp) \o "/function", Place(f, i.tree, "function")) : f \in MatrixFrames}
           : i \in insts}
    \cup {L(i.label \o "@stmt/function", HostFile("function", <<ExprStmt(i.tree)>>)) : i \in insts}
C07Inst == Erc20Inst \cup DivMulInst
OneUParam == <<<<[present |-> TRUE, storage |-> "", name |-> "n0"]>>, <<U256>>>>
OpenClose(ps) == FnDecl("function", "close", VisAttr("external"), ps, <<>>, TRUE, <<DestructStmt>>)
GuardedClose(ps) == FnDecl("function", "close", VisAttr("external") \o <<ModAttr("onlyOwner", 0 - 1)>>, ps, <<>>, TRUE, <<DestructStmt>>)
OverloadMembers == << <<OpenClose(NoParams), GuardedClose(OneUParam)>>, <<GuardedClose(NoParams), OpenClose(OneUParam)>>,
                      <<OpenClose(NoParams), OpenClose(OneUParam)>>, <<OpenClose(NoParams), GuardedClose(OneUParam), OpenClose(OneUParam)>> >>

Files ==
    CASE Prop = "C05" -> ExprFamily(C05Inst) \cup StmtFamily(C05Inst) \cup MatrixFamily(C05Matrix)
      [] Prop = "C06" -> DeclFamily(FnProduct \cup VarProduct) \cup OrderFamily \cup BetweenFamily(FnProduct \cup {v \in VarProduct : Full})
      [] Prop = "C07" -> ExprFamily(C07Inst) \cup DeclFamily(DestructShapes)
                         \cup {L(i.label \o "@stmt", HostFile("function", <<ExprStmt(i.tree)>>)) : i \in DivMulChainInst}
                         \cup {L(i.label, i.tree) : i \in PragmaFiles}
                         \cup StmtFamily({I("destruct:position", "S", DestructStmt)})
                         \* overloads: functions of one name in one contract are functions of their own (the unprotected
                         \* one first, last, and twice)
                         \cup {L("destruct:overload:" \o ToString(k), InFile(<<N("SUP.ContractDefinition", [cty |-> "contract", name |-> "Over", bases |-> <<>>],
                                   <<<<>>, OverloadMembers[k]>>)>>)) : k \in 1 .. Len(OverloadMembers)}
      [] Prop = "C08" -> ExprFamily(WriteInst) \cup DeclFamily(VarProduct \cup CalldataFns \cup CalldataTwo)
                         \cup {L(i.label, i.tree) : i \in ImmFiles \cup CalldataSeqFiles}

VARIABLES file
Init == file \in Files
Next == UNCHANGED file
Spec == Init /\ [][Next]_file

WellFormed == TreeOK(Flatten(file.tree))
DumpBehaviour == PrintT(<<"REPLAY", ToJson(file)>>)
=============================================================================
