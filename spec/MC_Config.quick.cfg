SPECIFICATION Spec
CONSTANTS
  Small = TRUE
INVARIANTS UnknownAbortsBeforeWrite AbortIff DoneIff DirPrecedence DumpBehaviour
PROPERTY Terminates
CHECK_DEADLOCK FALSE
