---------------------------- MODULE MC_C02_Emit ----------------------------
(***************************************************************************)
(* The Emit machine: a text is produced left to right from tokens and a     *)
(* cyclic gap pattern; `lfs` counts the line feeds emitted so far.  TLC     *)
(* checks that the layout-level line of every token (1 + lfs when it is      *)
(* emitted, = TokLines) agrees with the byte-level definition LineOf on the  *)
(* text actually produced, for every gap pattern within the bounds, and      *)
(* prints each pattern so that the harness re-lays real programs with it.    *)
(***************************************************************************)
EXTENDS Lines, TLC, Json

CONSTANTS MaxPeriod, MaxAtomsPerGap, Tokens   \* Tokens: number of tokens emitted per pattern

VARIABLES pattern, k, lfs, text, tokOff, tokLine, phase
vars == <<pattern, k, lfs, text, tokOff, tokLine, phase>>

GapChoices == {<<a>> : a \in Atoms} \cup
              (IF MaxAtomsPerGap >= 2 THEN {<<a, b>> : a \in Atoms, b \in Atoms} ELSE {})

TokBytes(j) == IF j % 2 = 1 THEN <<"A", "A">> ELSE <<"A", "H", "T">>
GapOf(j) == pattern[((j - 1) % Len(pattern)) + 1]

RECURSIVE GapBytes(_, _)
GapBytes(g, i) == IF i > Len(g) THEN <<>> ELSE AtomBytes[g[i]] \o GapBytes(g, i + 1)

Init == /\ pattern = <<>> /\ k = 1 /\ lfs = 0 /\ text = <<>>
        /\ tokOff = <<>> /\ tokLine = <<>> /\ phase = "grow"

AddGap(g) == /\ phase = "grow" /\ Len(pattern) < MaxPeriod
             /\ pattern' = Append(pattern, g)
             /\ UNCHANGED <<k, lfs, text, tokOff, tokLine, phase>>
Start == /\ phase = "grow" /\ Len(pattern) >= 1
         /\ phase' = "gap" /\ UNCHANGED <<pattern, k, lfs, text, tokOff, tokLine>>

EmitGap == /\ phase = "gap" /\ k <= Tokens
           /\ text' = text \o GapBytes(GapOf(k), 1)
           /\ lfs' = lfs + GapLF(GapOf(k), 1)
           /\ phase' = "token"
           /\ UNCHANGED <<pattern, k, tokOff, tokLine>>
EmitToken == /\ phase = "token"
             /\ tokOff' = Append(tokOff, Len(text))
             /\ tokLine' = Append(tokLine, 1 + lfs)
             /\ text' = text \o TokBytes(k)
             /\ k' = k + 1
             /\ phase' = IF k = Tokens THEN "done" ELSE "gap"
             /\ UNCHANGED <<pattern, lfs>>

Next == (\E g \in GapChoices : AddGap(g)) \/ Start \/ EmitGap \/ EmitToken
Spec == Init /\ [][Next]_vars /\ WF_vars(EmitGap \/ EmitToken)

Done == phase = "done"
\* layout-level line = byte-level definition, at every moment
TokLineIsLineOf == \A j \in 1 .. Len(tokLine) : tokLine[j] = LineOf(text, tokOff[j])
\* the closed form used by the trace specification agrees with the machine
ClosedForm == Done => tokLine = TokLines([j \in 1 .. Tokens |-> GapOf(j)], Tokens)
Terminates == (phase = "gap") ~> Done

DumpBehaviour == Done => PrintT(<<"REPLAY", ToJson([pattern |-> pattern, tokLine |-> tokLine])>>)
=============================================================================
