------------------------------- MODULE Calls -------------------------------
(***************************************************************************)
(* Constant-level vocabulary of the caller model (C15), shared by MC_Calls  *)
(* (which enumerates the schedules) and TV_Calls (which validates recorded  *)
(* call/return histories).                                                   *)
(***************************************************************************)
EXTENDS Naturals, Sequences, FiniteSets

\* a recorded history is well formed iff every thread alternates B, E
WellFormedHistory(h, nthreads) ==
    \A t \in 1 .. nthreads :
        LET mine == SelectSeq(h, LAMBDA e : e[2] = t) IN
        \A i \in 1 .. Len(mine) : mine[i][1] = (IF i % 2 = 1 THEN "B" ELSE "E")


\* every delivered result is the isolated baseline of that (file, pattern)
ResultsIsolated(calls, baseline) ==
    \A i \in 1 .. Len(calls) : calls[i].result = baseline[calls[i].file][calls[i].pattern]
=============================================================================
