------------------------------ MODULE MC_Walk ------------------------------
(***************************************************************************)
(* C01 on generated trees: every frame of Gen.tla (Level A) and every       *)
(* composition of two frames (Level B) around a marker, placed in a base    *)
(* context.  On each tree the explicit-stack search (Visit) is run for       *)
(* several target sets and compared with the declarative Expected; each      *)
(* tree is printed once for replay against the real search.                  *)
(***************************************************************************)
EXTENDS Walk, Gen, Json

CONSTANTS LevelB, SkipCatch   \* SkipCatch = TRUE: negative control (a walker that ignores catch clauses)

ME      == Un("E.PostIncrement", Var("m"))
MS      == ExprStmt(ME)
Marker(sort) ==
    CASE sort = "E" -> ME
      [] sort = "S" -> MS
      [] sort = "Simple" -> MS
      [] sort = "B" -> Block(<<MS>>)
      [] sort = "Args" -> N("S.Args", [names |-> <<"v">>], <<<<ME>>>>)
      [] sort = "T" -> Index(U256, ME)
      [] sort = "Call" -> Call(Var("Evt"), <<ME>>)
      [] sort = "CP" -> N("CP.VariableDefinition", [name |-> "mk", vattrs |-> <<>>], <<<<U256>>, <<ME>>>>)
      [] sort = "SUP" -> N("SUP.VariableDefinition", [name |-> "MK", vattrs |-> <<"constant">>], <<<<U256>>, <<ME>>>>)

\* the grammar does not admit a function TYPE as the callee of a call
CalleeOfType(f1, g) == f1.out = "T" /\ g.k \in {"E.FunctionCall", "E.NamedFunctionCall", "E.FunctionCallBlock"} /\ g.hs = 1

LevelATrees == {ToFile(Plug(f, Marker(f.in)), f.out) : f \in AllFrames}
\* every expression position also holds children of OTHER kinds (a literal, a negative literal, a call, a parenthesised
\* increment): how a position is searched must not depend on what kind of node stands in it
AltMarkers == {Num("7"), Un("E.UnaryMinus", Num("1")), Call(Var("g"), <<ME>>), Paren(ME), Str("s"), Index(Var("t"), ME)}
LevelAAltTrees == {ToFile(Plug(f, m), f.out) : f \in {g \in AllFrames : g.in = "E"}, m \in AltMarkers}
\* (parameterised so that TLC does not pre-evaluate it when LevelB is off)
LevelBTrees(dummy) == UNION {{ToFile(Plug(f2, Plug(f1, Marker(f1.in))), f2.out) :
                          f2 \in {g \in AllFrames : Fits(f1.out, g.in) /\ ~CalleeOfType(f1, g)}} : f1 \in AllFrames}
\* nesting depth 64 (every deep frame plugged into itself 64 times around the marker)
\* directives are ordinary top-level parts: they may follow definitions (flattened sources)
LatePragma(v) == N("SUP.PragmaDirective", [pragmaId |-> "solidity", value |-> v], <<>>)
LateDirectiveTrees ==
    {N("SU.SourceUnit", A0, <<<<Item0("First"), LatePragma("^0.8.0"), Item0("Second"), LatePragma("0.8.17")>>>>),
     N("SU.SourceUnit", A0, <<<<PragmaNode, Item0("First"), LatePragma("^0.8.1"), Item0("Second")>>>>),
     N("SU.SourceUnit", A0, <<<<Item0("Only"), LatePragma("^0.8.2")>>>>)}
Trees == LevelATrees \cup LevelAAltTrees \cup LateDirectiveTrees \cup DeepTrees(64, ME, MS) \cup (IF LevelB THEN LevelBTrees(0) ELSE {})

TargetSets == {AllTargets, {"PostIncrement"}, {"Expression", "VariableDefinition", "Block"}}

VARIABLES tree, T, targets, stack, matches, visited
vars == <<tree, T, targets, stack, matches, visited>>

Init == /\ tree \in Trees /\ T = Flatten(tree) /\ targets \in TargetSets
        /\ stack = <<1>> /\ matches = <<>> /\ visited = <<>>

Children(n) == IF SkipCatch
               THEN FlatCh(SelectSeq(T[n].sl, LAMBDA s : s.lab # "catch"))
               ELSE T[n].ch

\* visit the node on top of the stack: record it if it is a target, push its children in slot order
Visit == /\ stack # <<>>
         /\ matches' = VisitMatches(T, stack, matches, targets)
         /\ visited' = Append(visited, Head(stack))
         /\ stack' = Children(Head(stack)) \o Tail(stack)
         /\ UNCHANGED <<tree, T, targets>>
Next == Visit
Spec == Init /\ [][Next]_vars /\ WF_vars(Visit)

Done == stack = <<>>
WellFormed == TreeOK(T)
Once  == \A i, j \in 1 .. Len(visited) : i # j => visited[i] # visited[j]
Exact == Done => /\ matches = Expected(T, 1, targets)
                 /\ visited = [i \in 1 .. Len(T) |-> i]              \* every node, in pre-order
NoOtherKind == \A i \in 1 .. Len(matches) : KindT[T[matches[i]].k] \in targets
Terminates == <>Done
Coverage == FramesCoverSig

DumpBehaviour == (visited = <<>> /\ targets = AllTargets) => PrintT(<<"REPLAY", ToJson([tree |-> tree, nodes |-> Len(T)])>>)
=============================================================================
