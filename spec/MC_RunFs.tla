----------------------------- MODULE MC_RunFs -----------------------------
(***************************************************************************)
(* Histories of runs over the abstract file system; prints each history for  *)
(* execution with the real binary.  AppendMode / ReadsStale are negative     *)
(* controls.                                                                  *)
(***************************************************************************)
EXTENDS RunFs, TLC, Json

CONSTANTS MaxRuns, AppendMode, ReadsStale

VARIABLES rep, init, history, tree
vars == <<rep, init, history, tree>>

Init == /\ rep \in [Cwds -> Stale] /\ init = rep /\ history = <<>> /\ tree = "T"
        \* only the stale state of "in" and "parent" varies freely; the others start absent or with one kind of content
        /\ rep["sub"] \in {"absent", "sol"} /\ rep["other"] \in {"absent", "long"}

Run(c, mode, via) ==
          /\ Len(history) < MaxRuns /\ Applicable(c, mode, via)
          /\ rep' = IF AppendMode /\ rep[c] # "absent" THEN [rep EXCEPT ![c] = "junk"]
                    ELSE IF ReadsStale /\ c = "in" /\ rep[c] = "sol" THEN [rep EXCEPT ![c] = "junk"]
                    ELSE RunEffect(rep, c, mode, via)
          /\ history' = Append(history, <<c, mode, via>>)
          /\ UNCHANGED <<init, tree>>
Next == \E c \in Cwds, mode \in Modes, via \in Vias : Run(c, mode, via)
Spec == Init /\ [][Next]_vars

Visited == {history[i][1] : i \in 1 .. Len(history)}
LastRun(c) == history[CHOOSE i \in 1 .. Len(history) : history[i][1] = c /\ \A j \in (i + 1) .. Len(history) : history[j][1] # c]
OnlyReport == tree = "T" /\ \A c \in Cwds \ Visited : rep[c] = init[c]
Overwrite  == \A c \in Visited : rep[c] = ReportOf(LastRun(c)[2], LastRun(c)[3])
DumpBehaviour == (Len(history) = MaxRuns) => PrintT(<<"REPLAY", ToJson([init |-> init, history |-> history])>>)
=============================================================================
