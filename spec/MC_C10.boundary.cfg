SPECIFICATION Spec
CONSTANTS
  Sizes = {8,16,32,64,96,120,128,136,160,192,248,256}
  MaxLen = 5
  Dump = TRUE
  BadStep = FALSE
INVARIANTS TypeOK UsedFits GreedyIsLayout ReportedSound NeverWhenOptimal MustImpliesRef BoundsDisjoint DumpBehaviour
CHECK_DEADLOCK FALSE
