---------------------------- MODULE GatedContent ----------------------------
(***************************************************************************)
(* WHAT the four version-gated detectors report when their gate is open     *)
(* (property C09), as sets of lines of a flat tree T:                        *)
(*   string_errors        every require whose last argument is a string      *)
(*                        literal, on the line on which that literal begins  *)
(*   short_revert_string  those whose string is at least 32 bytes long       *)
(*   safe_math_*          every call add/sub/mul/div on a member, on the     *)
(*                        line on which the member access begins, in a file  *)
(*                        that attaches a library called SafeMath            *)
(*                        (`using SafeMath for ...` at file or contract      *)
(*                        level)                                             *)
(* A literal written as several adjacent parts is one string: it must be     *)
(* reported when already its first part has 32 bytes and may be reported     *)
(* when all parts together have (the statement does not say which).          *)
(***************************************************************************)
EXTENDS Patterns

LastArg(T, n) == LET as == SlotCh(T, n, "args") IN as[Len(as)]
StringArgs(T) == {LastArg(T, n) : n \in RequireWithString(T)}
StringReqLines(T) == LinesOf(T, StringArgs(T))

RECURSIVE SumBytes(_, _)
SumBytes(ps, i) == IF i > Len(ps) THEN 0 ELSE ps[i].bytes + SumBytes(ps, i + 1)
FirstBytes(T, s) == LET ps == A(T, s).pieces IN IF ps = <<>> THEN 0 ELSE ps[1].bytes
TotalBytes(T, s) == SumBytes(A(T, s).pieces, 1)
LongMustLines(T) == LinesOf(T, {s \in StringArgs(T) : FirstBytes(T, s) >= 32})
LongMayLines(T)  == LinesOf(T, {s \in StringArgs(T) : TotalBytes(T, s) >= 32})

AttachesSafeMath(T) == \E u \in OfKind(T, {"SUP.Using", "CP.Using"}) : A(T, u).safemath
SafeMathCallees(T) == {Kid(T, n, "callee") : n \in {m \in N(T) : K(T, m) = "E.FunctionCall" /\ Kid(T, m, "callee") # 0
                                                             /\ K(T, Kid(T, m, "callee")) = "E.MemberAccess"
                                                             /\ A(T, Kid(T, m, "callee")).member \in {"add", "sub", "mul", "div"}}}
SafeMathLines(T) == IF AttachesSafeMath(T) THEN LinesOf(T, SafeMathCallees(T)) ELSE {}
=============================================================================
