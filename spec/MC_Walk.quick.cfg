SPECIFICATION Spec
CONSTANTS
  LevelB = FALSE
  SkipCatch = FALSE
INVARIANTS WellFormed Once Exact NoOtherKind Coverage DumpBehaviour
PROPERTY Terminates
CHECK_DEADLOCK FALSE
