SPECIFICATION Spec
CONSTANTS
  Threads = 3
  CallsPerThread = 2
  SharedScratch = FALSE
INVARIANTS Isolated DumpBehaviour
PROPERTY Terminates
CHECK_DEADLOCK FALSE
