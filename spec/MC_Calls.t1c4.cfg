SPECIFICATION Spec
CONSTANTS
  Threads = 1
  CallsPerThread = 4
  SharedScratch = FALSE
INVARIANTS Isolated DumpBehaviour
PROPERTY Terminates
CHECK_DEADLOCK FALSE
