SPECIFICATION Spec
CONSTANTS
  MaxRuns = 2
  AppendMode = TRUE
  ReadsStale = FALSE
INVARIANTS OnlyReport Overwrite DumpBehaviour
CHECK_DEADLOCK FALSE
