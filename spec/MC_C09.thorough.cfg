SPECIFICATION Spec
CONSTANTS
  MaxMajor = 2
  MaxMinor = 12
  MaxPatch = 40
  Full = TRUE
  FirstPragmaWins = FALSE
INVARIANTS ScanFindsSolidity PlacementIrrelevant GatesExclusive GatesMonotone DumpBehaviour
PROPERTY Terminates
CHECK_DEADLOCK FALSE
