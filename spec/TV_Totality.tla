---------------------------- MODULE TV_Totality ----------------------------
(***************************************************************************)
(* Trace validation for C04.  The abstract machine of an analysis has one    *)
(* outcome: a (possibly empty) set of lines.  A `total` record (one file     *)
(* through all 30 detectors in one build) is accepted iff no detector        *)
(* panicked or timed out and all 30 returned a set; a `cmp` record (the two   *)
(* builds on the same file) iff the results agree.                            *)
(***************************************************************************)
EXTENDS Naturals, Sequences, TLC, Json, IOUtils
Rec == ndJsonDeserialize(IOEnv.TRACE)
VARIABLES l, bad
vars == <<l, bad>>
Why(r) == IF r.k = "total" THEN (IF r.bad = <<>> /\ r.detectors = 30 THEN "" ELSE IF r.bad = <<>> THEN "detector-count" ELSE r.bad[1].d \o ":" \o r.bad[1].why)
          ELSE IF r.same THEN "" ELSE "builds-differ:" \o r.detector
Init == l = 1 /\ bad = <<>>
Next == /\ l <= Len(Rec) /\ l' = l + 1
        /\ LET w == Why(Rec[l]) IN bad' = IF w = "" \/ Len(bad) >= 2000 THEN bad ELSE Append(bad, <<l, w>>)
Spec == Init /\ [][Next]_vars
Report == (l = Len(Rec) + 1) => PrintT(<<"TVRESULT", ToJson([n |-> Len(Rec), bad |-> bad])>>)
=============================================================================
