SPECIFICATION Spec
CONSTANTS
  MaxLen = 7
  ReturnZeroAtEnd = FALSE
INVARIANTS ScanIsLineOf OneBased DumpBehaviour
PROPERTY Terminates
CHECK_DEADLOCK FALSE
