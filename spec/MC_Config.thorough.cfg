SPECIFICATION Spec
CONSTANTS
  Small = FALSE
INVARIANTS UnknownAbortsBeforeWrite AbortIff DoneIff DirPrecedence DumpBehaviour
PROPERTY Terminates
CHECK_DEADLOCK FALSE
