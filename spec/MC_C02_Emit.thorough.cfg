SPECIFICATION Spec
CONSTANTS
  MaxPeriod = 2
  MaxAtomsPerGap = 2
  Tokens = 4
INVARIANTS TokLineIsLineOf ClosedForm DumpBehaviour
PROPERTY Terminates
CHECK_DEADLOCK FALSE
