------------------------------- MODULE MC_Calls -------------------------------
(***************************************************************************)
(* A caller of the library (property C15): threads, each with a queue of    *)
(* calls (file, pattern); Begin(t) starts the next call of t, End(t)         *)
(* delivers its result.  The library has NO shared variable: the result of   *)
(* a call is Res[file][pattern] whatever else is running.  The variant with  *)
(* SharedScratch models a hidden static buffer (written at Begin, read at    *)
(* End) and is the negative control: it breaks Isolated only under some      *)
(* interleavings.                                                             *)
(***************************************************************************)
EXTENDS Calls, TLC, Json

CONSTANTS Threads, CallsPerThread, SharedScratch

\* the k-th call of thread t analyses file F(t,k) under pattern P(t,k) (made concrete by the harness)
CallId(t, k) == (t - 1) * CallsPerThread + k
Res(c) == c * 10 + 1           \* abstract: each call has its own distinguishable result

VARIABLES next, running, results, history, scratch
vars == <<next, running, results, history, scratch>>

T == 1 .. Threads

Init == /\ next = [t \in T |-> 1]
        /\ running = [t \in T |-> 0]           \* 0 = idle, otherwise the call id in flight
        /\ results = <<>>
        /\ history = <<>>
        /\ scratch = 0

Begin(t) == /\ running[t] = 0 /\ next[t] <= CallsPerThread
            /\ running' = [running EXCEPT ![t] = CallId(t, next[t])]
            /\ next' = [next EXCEPT ![t] = @ + 1]
            /\ history' = Append(history, <<"B", t>>)
            /\ scratch' = CallId(t, next[t])
            /\ UNCHANGED results

End(t) == /\ running[t] # 0
          /\ LET c == IF SharedScratch THEN scratch ELSE running[t] IN
             results' = Append(results, <<running[t], Res(c)>>)
          /\ running' = [running EXCEPT ![t] = 0]
          /\ history' = Append(history, <<"E", t>>)
          /\ UNCHANGED <<next, scratch>>

Next == \E t \in T : Begin(t) \/ End(t)
Spec == Init /\ [][Next]_vars /\ WF_vars(Next)

Done == \A t \in T : running[t] = 0 /\ next[t] > CallsPerThread

Isolated == \A i \in 1 .. Len(results) : results[i][2] = Res(results[i][1])
Terminates == <>Done

DumpBehaviour == Done => PrintT(<<"REPLAY", ToJson([threads |-> Threads, calls |-> CallsPerThread, schedule |-> history])>>)
=============================================================================
