SPECIFICATION Spec
CONSTANTS
  MaxTop = 2
  MaxSub = 2
  Small = TRUE
  Deep = FALSE
  Dump = FALSE
  OverwriteOnReturn = TRUE
INVARIANTS UnionHolds NonEmptySets Inert DumpBehaviour
PROPERTY Terminates
CHECK_DEADLOCK FALSE
