----------------------------- MODULE TV_Compose -----------------------------
(***************************************************************************)
(* Trace validation for C19: `ctree` records carry the projected tree of a   *)
(* file, `compose` records the lines one detector reported on the whole file *)
(* and on the file with all but one top-level item blanked, for each item.   *)
(***************************************************************************)
EXTENDS Compose, Json, IOUtils
Rec == ndJsonDeserialize(IOEnv.TRACE)
VARIABLES l, cur, inscope, bad, checked
vars == <<l, cur, inscope, bad, checked>>
Init == l = 1 /\ cur = 0 /\ inscope = FALSE /\ bad = <<>> /\ checked = 0
Next == /\ l <= Len(Rec) /\ l' = l + 1
        /\ LET r == Rec[l] IN
           IF r.k = "ctree"
           THEN cur' = l /\ inscope' = InScope(r.tree) /\ UNCHANGED <<bad, checked>>
           ELSE /\ UNCHANGED <<cur, inscope>>
                /\ IF inscope /\ r.detector \notin Excluded
                   THEN /\ checked' = checked + 1
                        /\ bad' = IF Composes(r.whole, r.parts) \/ Len(bad) >= 300 THEN bad
                                  ELSE Append(bad, <<l, r.detector \o (IF SetOf(r.whole) \subseteq UnionOf(r.parts, 1) THEN ":part-only" ELSE ":whole-only")>>)
                   ELSE UNCHANGED <<bad, checked>>
Spec == Init /\ [][Next]_vars
Report == (l = Len(Rec) + 1) => PrintT(<<"TVRESULT", ToJson([n |-> Len(Rec), bad |-> bad, exercised |-> checked])>>)
=============================================================================
