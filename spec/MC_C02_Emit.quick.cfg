SPECIFICATION Spec
CONSTANTS
  MaxPeriod = 2
  MaxAtomsPerGap = 1
  Tokens = 3
INVARIANTS TokLineIsLineOf ClosedForm DumpBehaviour
PROPERTY Terminates
CHECK_DEADLOCK FALSE
