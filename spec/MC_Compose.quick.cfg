SPECIFICATION Spec
CONSTANTS
  Full = FALSE
INVARIANTS WellFormed DumpBehaviour
CHECK_DEADLOCK FALSE
