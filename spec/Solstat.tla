------------------------------ MODULE Solstat ------------------------------
(***************************************************************************)
(* The whole run of the binary as ONE state machine (src/main.rs); the      *)
(* world, option resolution, the walk fold, the report value and Outcome     *)
(* are defined in SolstatRun.tla.                                            *)
(***************************************************************************)
EXTENDS SolstatRun

-----------------------------------------------------------------------------
VARIABLES pc, inp, rep0, rep, found, exit, k
vars == <<pc, inp, rep0, rep, found, exit, k>>

NoFindings == [c \in SetOf(Cats) |-> D!EmptyAcc]

\* Inputs and initial report files are chosen by the model-checking module.
InitWith(Inputs) == /\ inp \in Inputs /\ rep0 \in {File("absent", <<>>), File("stale", <<>>)} /\ rep = rep0
                    /\ pc = "start" /\ found = NoFindings /\ exit = 0 - 1 /\ k = 1

\* Opts::new(): an unknown name panics (exit 101), a missing default directory exits 1;
\* both happen before anything is analysed or written
ParseOptions ==
    /\ pc = "start"
    /\ IF Aborts(inp) THEN pc' = "aborted" /\ exit' = (IF HasToml(inp) THEN 101 ELSE 1)
                      ELSE pc' = "walk" /\ exit' = exit
    /\ UNCHANGED <<inp, rep0, rep, found, k>>

\* analyze_dir of category Cats[k]; a directory that does not exist makes the run panic
Walk ==
    /\ pc = "walk" /\ k <= 3
    /\ IF Exists(inp, DirOf(inp))
       THEN /\ found' = [found EXCEPT ![Cats[k]] = WalkResult(TreeOf[DirOf(inp)], ListOf(inp, Cats[k]))]
            /\ k' = k + 1 /\ pc' = (IF k = 3 THEN "render" ELSE "walk") /\ exit' = exit
       ELSE pc' = "aborted" /\ exit' = 101 /\ UNCHANGED <<found, k>>
    /\ UNCHANGED <<inp, rep0, rep>>

\* generate_report(): render, then ONE write that replaces whatever was there
RenderAndWrite ==
    /\ pc = "render"
    /\ rep' = File("report", ReportOf(found)) /\ pc' = "written" /\ exit' = 0
    /\ UNCHANGED <<inp, rep0, found, k>>

Next == ParseOptions \/ Walk \/ RenderAndWrite
Spec(Inputs) == InitWith(Inputs) /\ [][Next]_vars /\ WF_vars(Next)

-----------------------------------------------------------------------------
\* END-TO-END statements (Outcome is defined in SolstatRun)
Finished == pc \in {"written", "aborted"}
EndToEnd == Finished => /\ (exit = 0) = Outcome(inp, rep0).ok
                        /\ rep = Outcome(inp, rep0).report
AbortIsClean == pc = "aborted" => rep = rep0 /\ exit # 0
OnlyListed == pc = "written" => \A c \in DOMAIN rep.val : DOMAIN rep.val[c] \subseteq Selected(inp, c)
Terminates == <>Finished
=============================================================================
