------------------------------ MODULE DirWalk ------------------------------
(***************************************************************************)
(* Directory analysis (properties C03, C16, parts of C15).                  *)
(*                                                                          *)
(* A tree is [entries |-> <<e1, ..., en>>] in LISTING order; an entry is     *)
(*   [kind |-> "file", name |-> N, content |-> c]  or                        *)
(*   [kind |-> "dir",  name |-> N, tree |-> T].                              *)
(* A name N is a record [text, sol, tsol]: `sol` = the text ends in ".sol",  *)
(* `tsol` = its lower-cased text ends in ".t.sol" (TLA+ has no string        *)
(* operations; the harness computes the two flags from the real name).       *)
(* Res[c][p] is the line set the per-file entry point returns for content c  *)
(* and pattern p (measured on the real code in conformance runs).            *)
(***************************************************************************)
EXTENDS Naturals, Sequences, FiniteSets

Eligible(n) == n.sol /\ ~n.tsol

SetOf(s) == {s[i] : i \in 1 .. Len(s)}
BagOfSeq(s) == [x \in SetOf(s) |-> Cardinality({i \in 1 .. Len(s) : s[i] = x})]

\* ---- declarative right-hand side of C03: all eligible files at any depth -----------------
RECURSIVE FilesUnder(_)
FilesUnder(t) ==
    LET RECURSIVE Go(_)
        Go(i) == IF i > Len(t.entries) THEN <<>>
                 ELSE LET e == t.entries[i] IN
                      (IF e.kind = "file" THEN (IF Eligible(e.name) THEN <<e>> ELSE <<>>)
                       ELSE FilesUnder(e.tree)) \o Go(i + 1)
    IN Go(1)

HasRes(Res, c, p) == c \in DOMAIN Res /\ p \in DOMAIN Res[c] /\ Res[c][p] # <<>>

\* expected entries of pattern p: one <<file name, lines>> per eligible file with findings
Expected(t, Res, p) ==
    LET fs == FilesUnder(t) IN
    SelectSeq([i \in 1 .. Len(fs) |-> <<fs[i].name.text, IF HasRes(Res, fs[i].content, p) THEN Res[fs[i].content][p] ELSE <<>>>>],
              LAMBDA x : x[2] # <<>>)

\* C03 / C16 on an observed result (a function pattern -> sequence of <<file, lines>>)
UnionExact(t, Res, pats, result) ==
    /\ DOMAIN result = {p \in SetOf(pats) : Expected(t, Res, p) # <<>>}
    /\ \A p \in DOMAIN result : BagOfSeq(result[p]) = BagOfSeq(Expected(t, Res, p))
NoEmptyLineSet(result) ==
    \A p \in DOMAIN result : result[p] # <<>> /\ \A i \in 1 .. Len(result[p]) : result[p][i][2] # <<>>

\* ---- the walk as a machine: one frame per active call of analyze_dir ----------------------
\* frame = [todo |-> remaining listing, acc |-> pattern -> entries found so far in this call]
EmptyAcc == [p \in {} |-> <<>>]

AddFile(acc, e, Res, pats) ==
    LET hit == {p \in SetOf(pats) : HasRes(Res, e.content, p)} IN
    [p \in DOMAIN acc \cup hit |->
        (IF p \in DOMAIN acc THEN acc[p] ELSE <<>>) \o
        (IF p \in hit THEN <<<<e.name.text, Res[e.content][p]>>>> ELSE <<>>)]

\* intended merge of a finished sub-directory into its parent: concatenation per pattern
Merge(acc, sub) ==
    [p \in DOMAIN acc \cup DOMAIN sub |->
        (IF p \in DOMAIN acc THEN acc[p] ELSE <<>>) \o (IF p \in DOMAIN sub THEN sub[p] ELSE <<>>)]
\* what HashMap::extend does: the sub-directory's entry replaces the parent's (negative control)
Overwrite(acc, sub) ==
    [p \in DOMAIN acc \cup DOMAIN sub |-> IF p \in DOMAIN sub THEN sub[p] ELSE acc[p]]
=============================================================================
