SPECIFICATION MCSpec
CONSTANTS
  Catalogue <- MCCatalogue
  TreeOf <- MCTreeOf
  Res <- MCRes
  FallbackAll = FALSE
  WriteOnAbort = FALSE
INVARIANTS EndToEndMC AbortIsClean OnlyListed DumpBehaviour
PROPERTY Terminates
CHECK_DEADLOCK FALSE
