--------------------------- MODULE VersionProofs ---------------------------
(***************************************************************************)
(* Unbounded counterparts of the gate properties TLC checks on the box      *)
(* 0.0.0 .. 2.12.40 (C09): for ALL version triples of natural numbers the   *)
(* two SafeMath gates are exclusive, the two string gates are exclusive,    *)
(* and every gate is monotone (or antitone) in the version.  Checked by the *)
(* TLA+ proof system (tlapm, SMT back end).                                 *)
(***************************************************************************)
EXTENDS VersionGates

Vers == Nat \X Nat \X Nat

THEOREM LtTotal == \A v, w \in Vers : Lt(v, w) \/ v = w \/ Lt(w, v)
  BY DEF Vers, Lt

THEOREM LtTrans == \A u, v, w \in Vers : Lt(u, v) /\ Lt(v, w) => Lt(u, w)
  BY DEF Vers, Lt

THEOREM ExclusiveAll == \A v \in Vers : Exclusive(v) /\ ExclusiveS(v)
  BY DEF Vers, Exclusive, ExclusiveS, Gate, Lt, V080, V084

THEOREM MonotoneAll == \A v, w \in Vers : MonotoneAt(v, w)
  BY DEF Vers, MonotoneAt, Gate, Le, Lt, V080, V084
=============================================================================
