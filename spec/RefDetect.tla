------------------------------ MODULE RefDetect ------------------------------
(***************************************************************************)
(* Reference designs of the stateful detectors, structured like the code    *)
(* (candidate table filled from the declarations, entries removed while the *)
(* writes are scanned in source order; a per-contract counter; an exempt    *)
(* set built first and subtracted), as folds over the flat tree.  They are  *)
(* an independent second formulation of what Patterns.tla states            *)
(* declaratively: the trace specification checks on every projected tree    *)
(* that  Must <= Ref <= May  (RefConsistent), so an error in either          *)
(* formulation shows up as a specification-level failure, not as a verdict   *)
(* on solstat.                                                               *)
(***************************************************************************)
EXTENDS Patterns

\* ---- candidate-table machines ---------------------------------------------------------------
\* the writes of the file in source order (ascending id)
WritesInOrder(T) == SelectSeq([i \in 1 .. Len(T) |-> i], LAMBDA n : K(T, n) \in WriteKinds)

\* constant_variables: AddCandidate for every eligible declaration, RemoveOnWrite for every direct write
RECURSIVE RemoveWritten(_, _, _, _)
RemoveWritten(T, cand, ws, i) ==
    IF i > Len(ws) THEN cand
    ELSE LET t == TargetOf(T, ws[i]) IN
         RemoveWritten(T, IF IsVar(T, t) THEN cand \ {A(T, t).name} ELSE cand, ws, i + 1)
RefConstNames(T) ==
    LET initial == {VarName(T, v) : v \in {x \in StateVars(T) : IsElemVar(T, x) /\ ~A(T, x).constant /\ ~A(T, x).immutable}}
    IN RemoveWritten(T, initial, WritesInOrder(T), 1)
RefConst(T) == {v \in StateVars(T) : VarName(T, v) \in RefConstNames(T)}

\* immutable_variables: candidates = variables assigned in a constructor by a value-like right-hand side;
\* then every write inside a non-constructor function or modifier removes its target
RefImmNames(T) ==
    LET value == {VarName(T, v) : v \in {x \in StateVars(T) : IsElemType(T, TypeOfVar(T, x), ValueTypes) /\ ~A(T, x).constant /\ ~A(T, x).immutable}}
        inCtor == {nm \in value : \E w \in CtorAssigns(T, nm) : ~IsNonValueRhs(T, Kid(T, w, "r"))}
        later == SelectSeq(WritesInOrder(T), LAMBDA w : \E f \in NonCtorBodies(T) : w \in Under(T, f))
    IN RemoveWritten(T, inCtor, later, 1)
RefImm(T) == {v \in StateVars(T) : VarName(T, v) \in RefImmNames(T)}

\* memory_to_calldata: per function, the named memory parameters minus those assigned in the body (p = e, p[i] = e)
RefCalldataLines(T) ==
    UNION {{A(T, f).params[i].lnStorage :
              i \in {j \in MemParams(T, f) : A(T, f).params[j].name # "" /\ ~AssignedInBody(T, f, A(T, f).params[j].name)}}
           : f \in {g \in CFuncs(T) : A(T, g).fty = "function" /\ A(T, g).hasBody /\ HasVis(T, g, {"public", "external"})}}

\* constructor_order: a counter per contract, reset at every contract, never stopping at the first finding
RECURSIVE CtorScan(_, _, _, _)
CtorScan(T, members, i, count) ==
    IF i > Len(members) THEN {}
    ELSE LET m == members[i] IN
         IF K(T, m) # "CP.FunctionDefinition" THEN CtorScan(T, members, i + 1, count)
         ELSE IF A(T, m).fty = "constructor" THEN (IF count > 0 THEN {m} ELSE {}) \cup CtorScan(T, members, i + 1, count)
         ELSE IF A(T, m).fty = "modifier" THEN CtorScan(T, members, i + 1, count)
         ELSE CtorScan(T, members, i + 1, count + 1)
RefCtorOrder(T) == UNION {CtorScan(T, SlotCh(T, c, "parts"), 1, 0) : c \in OfKind(T, {"SUP.ContractDefinition"})}

\* increment_decrement: all four kinds, minus the prefix forms collected from the statements of unchecked blocks
RefIncDec(T) ==
    LET exempt == {n \in OfKind(T, PreKinds) : \E b \in OfKind(T, {"S.Block"}) : A(T, b).unchecked /\ n \in Under(T, b)}
    IN OfKind(T, PostKinds \cup PreKinds) \ exempt

\* ---- consistency of the two formulations ----------------------------------------------------
Between(must, ref, may) == must \subseteq ref /\ ref \subseteq may
RefConsistent(T) ==
    /\ Between(IncDecMust(T), RefIncDec(T), IncDecMay(T))
    /\ RefCtorOrder(T) = CtorOrder(T)
    /\ InDomain(T) =>
         /\ Between(ConstMust(T), RefConst(T), ConstMay(T))
         /\ Between(ImmMust(T), RefImm(T), ImmMay(T))
         /\ CalldataMustLines(T) \subseteq RefCalldataLines(T) /\ RefCalldataLines(T) \subseteq CalldataMayLines(T)
=============================================================================
