------------------------------- MODULE Config -------------------------------
(***************************************************************************)
(* Option resolution (property C14).                                        *)
(*                                                                          *)
(* Catalogue: the documented pattern names per category, a record           *)
(*   [optimizations |-> <<...>>, vulnerabilities |-> <<...>>, qa |-> <<...>>] *)
(* read at check time from docs/identified-*.md and Solstat.toml in /repo    *)
(* (environment variable CATALOGUE names the JSON file).                     *)
(* A configured name is [base, casing]: `base` is its lower-cased spelling,  *)
(* `casing` how the harness spells it ("lower", "upper", "title", "mixed").  *)
(* An input is [flag, toml, contracts]: flag = "" or the --path argument,    *)
(* toml = <<>> (no --toml) or <<[path, optimizations, vulnerabilities, qa]>>,*)
(* contracts = whether ./contracts exists.                                   *)
(***************************************************************************)
EXTENDS Naturals, Sequences, FiniteSets, Json, IOUtils

Catalogue == JsonDeserialize(IOEnv.CATALOGUE)
Cats == <<"vulnerabilities", "optimizations", "qa">>

SetOf(s) == {s[i] : i \in 1 .. Len(s)}
Documented(cat) == SetOf(Catalogue[cat])
Known(cat, n) == n.base \in Documented(cat)

HasToml(inp) == inp.toml # <<>>
Toml(inp) == inp.toml[1]

AllKnown(inp) == \A k \in 1 .. 3 : \A i \in 1 .. Len(Toml(inp)[Cats[k]]) : Known(Cats[k], Toml(inp)[Cats[k]][i])

\* the run fails (non-zero exit, nothing written)
Aborts(inp) ==
    \/ HasToml(inp) /\ ~AllKnown(inp)
    \/ ~HasToml(inp) /\ inp.flag = "" /\ ~inp.contracts

\* the directory analysed
DirOf(inp) == IF inp.flag # "" THEN inp.flag
              ELSE IF HasToml(inp) THEN Toml(inp).path
              ELSE "./contracts"

\* the patterns analysed, per category
Selected(inp, cat) == IF HasToml(inp) THEN {Toml(inp)[cat][i].base : i \in 1 .. Len(Toml(inp)[cat])}
                      ELSE Documented(cat)

\* What an observation of a real run must look like.  obs = [exit, report_written, dirs, sections]
\* (sections[cat] = patterns whose section occurs; the witness directories make every pattern fire).
Allowed(inp, obs) ==
    IF Aborts(inp)
    THEN obs.exit # 0 /\ ~obs.report_written
    ELSE /\ obs.exit = 0 /\ obs.report_written
         /\ SetOf(obs.dirs) \subseteq {DirOf(inp)}
         /\ \A k \in 1 .. 3 : SetOf(obs.sections[Cats[k]]) = Selected(inp, Cats[k])
         /\ (\E k \in 1 .. 3 : Selected(inp, Cats[k]) # {}) => obs.dirs # <<>>
=============================================================================
