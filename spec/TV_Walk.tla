------------------------------ MODULE TV_Walk ------------------------------
(***************************************************************************)
(* Trace validation for C01.  The trace interleaves                          *)
(*   tree : a projected program (flat tree), checked against Sig (TreeOK)    *)
(*   walk : one return of the real search started at node `root` of the most *)
(*          recent tree for the target set `targets`; `result` lists the     *)
(*          ids of the returned nodes (-1 foreign node, -2 node returned      *)
(*          twice).                                                           *)
(* A walk for the FULL target set is accepted iff result = Expected(tree,    *)
(* root, AllTargets): every node of the subtree outside assembly, once, in    *)
(* source order.  A walk for another target set is accepted iff it is the     *)
(* full walk from the same root filtered by the targets (so a skipped slot is *)
(* reported once, with its exact (parent kind, slot), and the classification  *)
(* of nodes into targets is checked separately).                              *)
(***************************************************************************)
EXTENDS Walk, Json, IOUtils

Rec == ndJsonDeserialize(IOEnv.TRACE)

VARIABLES l, cur, full, bad
vars == <<l, cur, full, bad>>

SetOf(s) == {s[i] : i \in 1 .. Len(s)}

\* signature of a rejected walk: what happened to the first departing node
Why(T, r) ==
    LET exp == Expected(T, r.root, SetOf(r.targets))
        got == r.result
        i   == FirstDiff(exp, got)
    IN  IF got = exp THEN ""
        ELSE IF i <= Len(got) /\ got[i] = 0 - 1 THEN "foreign-node"
        ELSE IF i <= Len(got) /\ got[i] = 0 - 2 THEN "node-twice"
        ELSE IF i > Len(exp) THEN "extra:" \o T[got[i]].k
        ELSE IF i <= Len(got) /\ got[i] > 0 /\ got[i] < exp[i] THEN "order:" \o T[got[i]].k
        \* the expected node does come, but later: the nodes are not in source order
        ELSE IF \E j \in (i + 1) .. Len(got) : got[j] = exp[i] THEN "order:" \o T[exp[i]].k
        ELSE IF T[exp[i]].par = 0 THEN "missing:root"
        ELSE "missing:" \o T[T[exp[i]].par].k \o "/" \o T[exp[i]].slot

\* a partial walk against the full walk from the same root
WhyPartial(T, f, r) ==
    LET pos == SelectSeq(f.result, LAMBDA n : n > 0)
        exp == SelectSeq(pos, LAMBDA n : InTargets(T, n, SetOf(r.targets)))
        got == r.result
        i   == FirstDiff(exp, got)
    IN  IF f.root # r.root THEN "harness-order"
        ELSE IF got = exp THEN ""
        ELSE IF i <= Len(got) /\ got[i] < 0 THEN "partial-foreign-or-twice"
        ELSE IF i > Len(exp) THEN "partial-extra:" \o T[got[i]].k
        ELSE "partial-missing:" \o T[exp[i]].k

Init == l = 1 /\ cur = 0 /\ full = 0 /\ bad = <<>>
Next == /\ l <= Len(Rec)
        /\ l' = l + 1
        /\ LET r == Rec[l] IN
           IF r.k = "tree"
           THEN /\ cur' = l /\ full' = 0
                /\ bad' = IF TreeOK(r.tree) THEN bad ELSE Append(bad, <<l, "tree-not-ok">>)
           ELSE /\ cur' = cur
                /\ full' = IF r.all THEN l ELSE full
                /\ LET w == IF r.all THEN Why(Rec[cur].tree, r) ELSE WhyPartial(Rec[cur].tree, Rec[full], r) IN
                   bad' = IF w = "" \/ Len(bad) >= 300 THEN bad ELSE Append(bad, <<l, w>>)
Spec == Init /\ [][Next]_vars
Report == (l = Len(Rec) + 1) => PrintT(<<"TVRESULT", ToJson([n |-> Len(Rec), bad |-> bad])>>)
=============================================================================
