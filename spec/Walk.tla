-------------------------------- MODULE Walk --------------------------------
(***************************************************************************)
(* The tree search (property C01): searching a node for a set of targets    *)
(* yields exactly the nodes of the subtree whose kind answers to one of the *)
(* targets, each once, in source (= pre-order = ascending id) order.        *)
(* Declarative form (Expected) and the explicit-stack machine (Visit) that  *)
(* MC_Walk shows equivalent.                                                 *)
(***************************************************************************)
EXTENDS SolAst

InTargets(T, n, targets) == KindT[T[n].k] \in targets

\* the result of searching root r for `targets`
Expected(T, r, targets) ==
    SelectSeq([i \in 1 .. (T[r].last - r + 1) |-> r + i - 1], LAMBDA n : InTargets(T, n, targets))

\* one step of the explicit-stack search: visit the node on top, push its children slot by slot
VisitStack(T, stack)   == T[Head(stack)].ch \o Tail(stack)
VisitMatches(T, stack, matches, targets) ==
    IF InTargets(T, Head(stack), targets) THEN Append(matches, Head(stack)) ELSE matches

\* diagnosis of a wrong result: the first position at which it departs from Expected
FirstDiff(a, b) ==
    LET n == IF Len(a) < Len(b) THEN Len(a) ELSE Len(b)
        D == {i \in 1 .. n : a[i] # b[i]}
    IN IF D # {} THEN CHOOSE i \in D : \A j \in D : i <= j ELSE n + 1
=============================================================================
