SPECIFICATION Spec
CONSTANTS
  Prop = "C06"
  Full = TRUE
INVARIANTS WellFormed DumpBehaviour
CHECK_DEADLOCK FALSE
