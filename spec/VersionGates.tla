---------------------------- MODULE VersionGates ----------------------------
(***************************************************************************)
(* The arithmetic part of the version model (C09): comparison of version    *)
(* triples and the gates of the four version-dependent detectors.  Kept     *)
(* free of recursive operators so that the TLA+ proof system can discharge  *)
(* the unbounded lemmas of VersionProofs.tla over exactly these definitions.*)
(***************************************************************************)
EXTENDS Naturals

Lt(v, w) == \/ v[1] < w[1]
            \/ v[1] = w[1] /\ v[2] < w[2]
            \/ v[1] = w[1] /\ v[2] = w[2] /\ v[3] < w[3]
Le(v, w) == v = w \/ Lt(v, w)

V080 == <<0, 8, 0>>
V084 == <<0, 8, 4>>

Detectors == {"safe_math_pre_080", "safe_math_post_080", "string_errors", "short_revert_string"}

Gate(d, v) ==
    CASE d = "safe_math_pre_080"   -> Lt(v, V080)
      [] d = "safe_math_post_080"  -> ~Lt(v, V080)
      [] d = "string_errors"       -> ~Lt(v, V084)
      [] d = "short_revert_string" -> Lt(v, V084)

\* Design-level properties (checked by TLC in MC_C09)
Exclusive(v)   == Gate("safe_math_pre_080", v) # Gate("safe_math_post_080", v)
ExclusiveS(v)  == Gate("string_errors", v) # Gate("short_revert_string", v)
\* antitone gates stay on once on when the version decreases, monotone gates when it increases
MonotoneAt(v, w) ==
    Le(v, w) => /\ (Gate("safe_math_post_080", v) => Gate("safe_math_post_080", w))
                /\ (Gate("string_errors", v)      => Gate("string_errors", w))
                /\ (Gate("safe_math_pre_080", w)  => Gate("safe_math_pre_080", v))
                /\ (Gate("short_revert_string", w) => Gate("short_revert_string", v))
=============================================================================
