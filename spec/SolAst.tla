------------------------------- MODULE SolAst -------------------------------
(***************************************************************************)
(* Abstract syntax of Solidity as solang-parser 0.1.18 represents it       *)
(* (DESIGN.md section 3 and Appendix A).  Nodes are the five categories    *)
(* solstat's search distinguishes: SU (file), SUP (top-level item), CP      *)
(* (contract member), S (statement), E (expression); everything else of    *)
(* the parse tree (parameters, catch clauses, named arguments, bases,       *)
(* function attributes, mapping / function types) is a transparent carrier. *)
(* Sig[k] lists the child slots of kind k in SOURCE ORDER; it is written    *)
(* from pt.rs / solidity.lalrpop, not from solstat's walker.  S.Assembly is *)
(* a leaf: Yul is outside every property.                                   *)
(*                                                                          *)
(* A (flat) tree is a sequence of node records                              *)
(*   [k, ch, sl, par, slot, last, a]                                        *)
(* with ids assigned in pre-order (so the subtree of n is n .. last[n] and  *)
(* source order is ascending id).                                           *)
(***************************************************************************)
EXTENDS Naturals, Sequences, FiniteSets, TLC

Slot(l, s, m) == [lab |-> l, sort |-> s, mult |-> m]

FixedSig ==
     "CP.EnumDefinition" :> <<>>
  @@ "CP.ErrorDefinition" :> <<[lab |-> "fields", sort |-> "E", mult |-> "many"]>>
  @@ "CP.EventDefinition" :> <<[lab |-> "fields", sort |-> "E", mult |-> "many"]>>
  @@ "CP.FunctionDefinition" :> <<[lab |-> "params", sort |-> "E", mult |-> "many"], [lab |-> "attrs", sort |-> "E", mult |-> "many"], [lab |-> "returns", sort |-> "E", mult |-> "many"], [lab |-> "body", sort |-> "S", mult |-> "opt"]>>
  @@ "CP.StraySemicolon" :> <<>>
  @@ "CP.StructDefinition" :> <<[lab |-> "fields", sort |-> "E", mult |-> "many"]>>
  @@ "CP.TypeDefinition" :> <<[lab |-> "ty", sort |-> "E", mult |-> "one"]>>
  @@ "CP.Using" :> <<[lab |-> "ty", sort |-> "E", mult |-> "opt"]>>
  @@ "CP.VariableDefinition" :> <<[lab |-> "ty", sort |-> "E", mult |-> "one"], [lab |-> "init", sort |-> "E", mult |-> "opt"]>>
  @@ "E.Add" :> <<[lab |-> "l", sort |-> "E", mult |-> "one"], [lab |-> "r", sort |-> "E", mult |-> "one"]>>
  @@ "E.AddressLiteral" :> <<>>
  @@ "E.And" :> <<[lab |-> "l", sort |-> "E", mult |-> "one"], [lab |-> "r", sort |-> "E", mult |-> "one"]>>
  @@ "E.ArrayLiteral" :> <<[lab |-> "elems", sort |-> "E", mult |-> "many"]>>
  @@ "E.ArraySlice" :> <<[lab |-> "base", sort |-> "E", mult |-> "one"], [lab |-> "from", sort |-> "E", mult |-> "opt"], [lab |-> "to", sort |-> "E", mult |-> "opt"]>>
  @@ "E.ArraySubscript" :> <<[lab |-> "base", sort |-> "E", mult |-> "one"], [lab |-> "index", sort |-> "E", mult |-> "opt"]>>
  @@ "E.Assign" :> <<[lab |-> "l", sort |-> "E", mult |-> "one"], [lab |-> "r", sort |-> "E", mult |-> "one"]>>
  @@ "E.AssignAdd" :> <<[lab |-> "l", sort |-> "E", mult |-> "one"], [lab |-> "r", sort |-> "E", mult |-> "one"]>>
  @@ "E.AssignAnd" :> <<[lab |-> "l", sort |-> "E", mult |-> "one"], [lab |-> "r", sort |-> "E", mult |-> "one"]>>
  @@ "E.AssignDivide" :> <<[lab |-> "l", sort |-> "E", mult |-> "one"], [lab |-> "r", sort |-> "E", mult |-> "one"]>>
  @@ "E.AssignModulo" :> <<[lab |-> "l", sort |-> "E", mult |-> "one"], [lab |-> "r", sort |-> "E", mult |-> "one"]>>
  @@ "E.AssignMultiply" :> <<[lab |-> "l", sort |-> "E", mult |-> "one"], [lab |-> "r", sort |-> "E", mult |-> "one"]>>
  @@ "E.AssignOr" :> <<[lab |-> "l", sort |-> "E", mult |-> "one"], [lab |-> "r", sort |-> "E", mult |-> "one"]>>
  @@ "E.AssignShiftLeft" :> <<[lab |-> "l", sort |-> "E", mult |-> "one"], [lab |-> "r", sort |-> "E", mult |-> "one"]>>
  @@ "E.AssignShiftRight" :> <<[lab |-> "l", sort |-> "E", mult |-> "one"], [lab |-> "r", sort |-> "E", mult |-> "one"]>>
  @@ "E.AssignSubtract" :> <<[lab |-> "l", sort |-> "E", mult |-> "one"], [lab |-> "r", sort |-> "E", mult |-> "one"]>>
  @@ "E.AssignXor" :> <<[lab |-> "l", sort |-> "E", mult |-> "one"], [lab |-> "r", sort |-> "E", mult |-> "one"]>>
  @@ "E.BitwiseAnd" :> <<[lab |-> "l", sort |-> "E", mult |-> "one"], [lab |-> "r", sort |-> "E", mult |-> "one"]>>
  @@ "E.BitwiseOr" :> <<[lab |-> "l", sort |-> "E", mult |-> "one"], [lab |-> "r", sort |-> "E", mult |-> "one"]>>
  @@ "E.BitwiseXor" :> <<[lab |-> "l", sort |-> "E", mult |-> "one"], [lab |-> "r", sort |-> "E", mult |-> "one"]>>
  @@ "E.BoolLiteral" :> <<>>
  @@ "E.Complement" :> <<[lab |-> "e", sort |-> "E", mult |-> "one"]>>
  @@ "E.Delete" :> <<[lab |-> "e", sort |-> "E", mult |-> "one"]>>
  @@ "E.Divide" :> <<[lab |-> "l", sort |-> "E", mult |-> "one"], [lab |-> "r", sort |-> "E", mult |-> "one"]>>
  @@ "E.Equal" :> <<[lab |-> "l", sort |-> "E", mult |-> "one"], [lab |-> "r", sort |-> "E", mult |-> "one"]>>
  @@ "E.FunctionCall" :> <<[lab |-> "callee", sort |-> "E", mult |-> "one"], [lab |-> "args", sort |-> "E", mult |-> "many"]>>
  @@ "E.FunctionCallBlock" :> <<[lab |-> "callee", sort |-> "E", mult |-> "one"], [lab |-> "block", sort |-> "S", mult |-> "one"]>>
  @@ "E.HexLiteral" :> <<>>
  @@ "E.HexNumberLiteral" :> <<>>
  @@ "E.Less" :> <<[lab |-> "l", sort |-> "E", mult |-> "one"], [lab |-> "r", sort |-> "E", mult |-> "one"]>>
  @@ "E.LessEqual" :> <<[lab |-> "l", sort |-> "E", mult |-> "one"], [lab |-> "r", sort |-> "E", mult |-> "one"]>>
  @@ "E.List" :> <<[lab |-> "params", sort |-> "E", mult |-> "many"]>>
  @@ "E.MemberAccess" :> <<[lab |-> "base", sort |-> "E", mult |-> "one"]>>
  @@ "E.Modulo" :> <<[lab |-> "l", sort |-> "E", mult |-> "one"], [lab |-> "r", sort |-> "E", mult |-> "one"]>>
  @@ "E.More" :> <<[lab |-> "l", sort |-> "E", mult |-> "one"], [lab |-> "r", sort |-> "E", mult |-> "one"]>>
  @@ "E.MoreEqual" :> <<[lab |-> "l", sort |-> "E", mult |-> "one"], [lab |-> "r", sort |-> "E", mult |-> "one"]>>
  @@ "E.Multiply" :> <<[lab |-> "l", sort |-> "E", mult |-> "one"], [lab |-> "r", sort |-> "E", mult |-> "one"]>>
  @@ "E.NamedFunctionCall" :> <<[lab |-> "callee", sort |-> "E", mult |-> "one"], [lab |-> "args", sort |-> "E", mult |-> "many"]>>
  @@ "E.New" :> <<[lab |-> "e", sort |-> "E", mult |-> "one"]>>
  @@ "E.Not" :> <<[lab |-> "e", sort |-> "E", mult |-> "one"]>>
  @@ "E.NotEqual" :> <<[lab |-> "l", sort |-> "E", mult |-> "one"], [lab |-> "r", sort |-> "E", mult |-> "one"]>>
  @@ "E.NumberLiteral" :> <<>>
  @@ "E.Or" :> <<[lab |-> "l", sort |-> "E", mult |-> "one"], [lab |-> "r", sort |-> "E", mult |-> "one"]>>
  @@ "E.Parenthesis" :> <<[lab |-> "e", sort |-> "E", mult |-> "one"]>>
  @@ "E.PostDecrement" :> <<[lab |-> "e", sort |-> "E", mult |-> "one"]>>
  @@ "E.PostIncrement" :> <<[lab |-> "e", sort |-> "E", mult |-> "one"]>>
  @@ "E.Power" :> <<[lab |-> "l", sort |-> "E", mult |-> "one"], [lab |-> "r", sort |-> "E", mult |-> "one"]>>
  @@ "E.PreDecrement" :> <<[lab |-> "e", sort |-> "E", mult |-> "one"]>>
  @@ "E.PreIncrement" :> <<[lab |-> "e", sort |-> "E", mult |-> "one"]>>
  @@ "E.RationalNumberLiteral" :> <<>>
  @@ "E.ShiftLeft" :> <<[lab |-> "l", sort |-> "E", mult |-> "one"], [lab |-> "r", sort |-> "E", mult |-> "one"]>>
  @@ "E.ShiftRight" :> <<[lab |-> "l", sort |-> "E", mult |-> "one"], [lab |-> "r", sort |-> "E", mult |-> "one"]>>
  @@ "E.StringLiteral" :> <<>>
  @@ "E.Subtract" :> <<[lab |-> "l", sort |-> "E", mult |-> "one"], [lab |-> "r", sort |-> "E", mult |-> "one"]>>
  @@ "E.Ternary" :> <<[lab |-> "cond", sort |-> "E", mult |-> "one"], [lab |-> "then", sort |-> "E", mult |-> "one"], [lab |-> "else", sort |-> "E", mult |-> "one"]>>
  @@ "E.This" :> <<>>
  @@ "E.UnaryMinus" :> <<[lab |-> "e", sort |-> "E", mult |-> "one"]>>
  @@ "E.UnaryPlus" :> <<[lab |-> "e", sort |-> "E", mult |-> "one"]>>
  @@ "E.Unit" :> <<[lab |-> "e", sort |-> "E", mult |-> "one"]>>
  @@ "E.Variable" :> <<>>
  @@ "S.Args" :> <<[lab |-> "args", sort |-> "E", mult |-> "many"]>>
  @@ "S.Assembly" :> <<>>
  @@ "S.Block" :> <<[lab |-> "stmts", sort |-> "S", mult |-> "many"]>>
  @@ "S.Break" :> <<>>
  @@ "S.Continue" :> <<>>
  @@ "S.DoWhile" :> <<[lab |-> "body", sort |-> "S", mult |-> "one"], [lab |-> "cond", sort |-> "E", mult |-> "one"]>>
  @@ "S.Emit" :> <<[lab |-> "call", sort |-> "E", mult |-> "one"]>>
  @@ "S.Expression" :> <<[lab |-> "expr", sort |-> "E", mult |-> "one"]>>
  @@ "S.For" :> <<[lab |-> "init", sort |-> "S", mult |-> "opt"], [lab |-> "cond", sort |-> "E", mult |-> "opt"], [lab |-> "next", sort |-> "S", mult |-> "opt"], [lab |-> "body", sort |-> "S", mult |-> "opt"]>>
  @@ "S.If" :> <<[lab |-> "cond", sort |-> "E", mult |-> "one"], [lab |-> "then", sort |-> "S", mult |-> "one"], [lab |-> "else", sort |-> "S", mult |-> "opt"]>>
  @@ "S.Return" :> <<[lab |-> "expr", sort |-> "E", mult |-> "opt"]>>
  @@ "S.Revert" :> <<[lab |-> "args", sort |-> "E", mult |-> "many"]>>
  @@ "S.RevertNamedArgs" :> <<[lab |-> "args", sort |-> "E", mult |-> "many"]>>
  @@ "S.Try" :> <<[lab |-> "expr", sort |-> "E", mult |-> "one"], [lab |-> "retparams", sort |-> "E", mult |-> "many"], [lab |-> "retbody", sort |-> "S", mult |-> "opt"], [lab |-> "catch", sort |-> "ES", mult |-> "many"]>>
  @@ "S.VariableDefinition" :> <<[lab |-> "ty", sort |-> "E", mult |-> "one"], [lab |-> "init", sort |-> "E", mult |-> "opt"]>>
  @@ "S.While" :> <<[lab |-> "cond", sort |-> "E", mult |-> "one"], [lab |-> "body", sort |-> "S", mult |-> "one"]>>
  @@ "SU.SourceUnit" :> <<[lab |-> "parts", sort |-> "SUP", mult |-> "many"]>>
  @@ "SUP.ContractDefinition" :> <<[lab |-> "baseargs", sort |-> "E", mult |-> "many"], [lab |-> "parts", sort |-> "CP", mult |-> "many"]>>
  @@ "SUP.EnumDefinition" :> <<>>
  @@ "SUP.ErrorDefinition" :> <<[lab |-> "fields", sort |-> "E", mult |-> "many"]>>
  @@ "SUP.EventDefinition" :> <<[lab |-> "fields", sort |-> "E", mult |-> "many"]>>
  @@ "SUP.FunctionDefinition" :> <<[lab |-> "params", sort |-> "E", mult |-> "many"], [lab |-> "attrs", sort |-> "E", mult |-> "many"], [lab |-> "returns", sort |-> "E", mult |-> "many"], [lab |-> "body", sort |-> "S", mult |-> "opt"]>>
  @@ "SUP.ImportDirective" :> <<>>
  @@ "SUP.PragmaDirective" :> <<>>
  @@ "SUP.StraySemicolon" :> <<>>
  @@ "SUP.StructDefinition" :> <<[lab |-> "fields", sort |-> "E", mult |-> "many"]>>
  @@ "SUP.TypeDefinition" :> <<[lab |-> "ty", sort |-> "E", mult |-> "one"]>>
  @@ "SUP.Using" :> <<[lab |-> "ty", sort |-> "E", mult |-> "opt"]>>
  @@ "SUP.VariableDefinition" :> <<[lab |-> "ty", sort |-> "E", mult |-> "one"], [lab |-> "init", sort |-> "E", mult |-> "opt"]>>

\* E.Type: the slots depend on the type class carried in attribute `ty`
TypeSig(ty) == IF ty = "mapping" THEN <<Slot("key", "E", "one"), Slot("value", "E", "one")>>
               ELSE IF ty = "function" THEN <<Slot("params", "E", "many"), Slot("attrs", "E", "many"),
                                             Slot("returns", "E", "many"), Slot("retattrs", "E", "many")>>
               ELSE <<>>

Kinds == DOMAIN FixedSig \cup {"E.Type"}
SigOf(node) == IF node.k = "E.Type" THEN TypeSig(node.a.ty) ELSE FixedSig[node.k]

\* category of a kind, and the name of the search target (ast.rs `Target`) it answers to
CategoryOf ==
     "CP.EnumDefinition" :> "CP"
  @@ "CP.ErrorDefinition" :> "CP"
  @@ "CP.EventDefinition" :> "CP"
  @@ "CP.FunctionDefinition" :> "CP"
  @@ "CP.StraySemicolon" :> "CP"
  @@ "CP.StructDefinition" :> "CP"
  @@ "CP.TypeDefinition" :> "CP"
  @@ "CP.Using" :> "CP"
  @@ "CP.VariableDefinition" :> "CP"
  @@ "E.Add" :> "E"
  @@ "E.AddressLiteral" :> "E"
  @@ "E.And" :> "E"
  @@ "E.ArrayLiteral" :> "E"
  @@ "E.ArraySlice" :> "E"
  @@ "E.ArraySubscript" :> "E"
  @@ "E.Assign" :> "E"
  @@ "E.AssignAdd" :> "E"
  @@ "E.AssignAnd" :> "E"
  @@ "E.AssignDivide" :> "E"
  @@ "E.AssignModulo" :> "E"
  @@ "E.AssignMultiply" :> "E"
  @@ "E.AssignOr" :> "E"
  @@ "E.AssignShiftLeft" :> "E"
  @@ "E.AssignShiftRight" :> "E"
  @@ "E.AssignSubtract" :> "E"
  @@ "E.AssignXor" :> "E"
  @@ "E.BitwiseAnd" :> "E"
  @@ "E.BitwiseOr" :> "E"
  @@ "E.BitwiseXor" :> "E"
  @@ "E.BoolLiteral" :> "E"
  @@ "E.Complement" :> "E"
  @@ "E.Delete" :> "E"
  @@ "E.Divide" :> "E"
  @@ "E.Equal" :> "E"
  @@ "E.FunctionCall" :> "E"
  @@ "E.FunctionCallBlock" :> "E"
  @@ "E.HexLiteral" :> "E"
  @@ "E.HexNumberLiteral" :> "E"
  @@ "E.Less" :> "E"
  @@ "E.LessEqual" :> "E"
  @@ "E.List" :> "E"
  @@ "E.MemberAccess" :> "E"
  @@ "E.Modulo" :> "E"
  @@ "E.More" :> "E"
  @@ "E.MoreEqual" :> "E"
  @@ "E.Multiply" :> "E"
  @@ "E.NamedFunctionCall" :> "E"
  @@ "E.New" :> "E"
  @@ "E.Not" :> "E"
  @@ "E.NotEqual" :> "E"
  @@ "E.NumberLiteral" :> "E"
  @@ "E.Or" :> "E"
  @@ "E.Parenthesis" :> "E"
  @@ "E.PostDecrement" :> "E"
  @@ "E.PostIncrement" :> "E"
  @@ "E.Power" :> "E"
  @@ "E.PreDecrement" :> "E"
  @@ "E.PreIncrement" :> "E"
  @@ "E.RationalNumberLiteral" :> "E"
  @@ "E.ShiftLeft" :> "E"
  @@ "E.ShiftRight" :> "E"
  @@ "E.StringLiteral" :> "E"
  @@ "E.Subtract" :> "E"
  @@ "E.Ternary" :> "E"
  @@ "E.This" :> "E"
  @@ "E.UnaryMinus" :> "E"
  @@ "E.UnaryPlus" :> "E"
  @@ "E.Unit" :> "E"
  @@ "E.Variable" :> "E"
  @@ "S.Args" :> "S"
  @@ "S.Assembly" :> "S"
  @@ "S.Block" :> "S"
  @@ "S.Break" :> "S"
  @@ "S.Continue" :> "S"
  @@ "S.DoWhile" :> "S"
  @@ "S.Emit" :> "S"
  @@ "S.Expression" :> "S"
  @@ "S.For" :> "S"
  @@ "S.If" :> "S"
  @@ "S.Return" :> "S"
  @@ "S.Revert" :> "S"
  @@ "S.RevertNamedArgs" :> "S"
  @@ "S.Try" :> "S"
  @@ "S.VariableDefinition" :> "S"
  @@ "S.While" :> "S"
  @@ "SU.SourceUnit" :> "SU"
  @@ "SUP.ContractDefinition" :> "SUP"
  @@ "SUP.EnumDefinition" :> "SUP"
  @@ "SUP.ErrorDefinition" :> "SUP"
  @@ "SUP.EventDefinition" :> "SUP"
  @@ "SUP.FunctionDefinition" :> "SUP"
  @@ "SUP.ImportDirective" :> "SUP"
  @@ "SUP.PragmaDirective" :> "SUP"
  @@ "SUP.StraySemicolon" :> "SUP"
  @@ "SUP.StructDefinition" :> "SUP"
  @@ "SUP.TypeDefinition" :> "SUP"
  @@ "SUP.Using" :> "SUP"
  @@ "SUP.VariableDefinition" :> "SUP"
  @@ "E.Type" :> "E"

KindT ==
     "CP.EnumDefinition" :> "EnumDefinition"
  @@ "CP.ErrorDefinition" :> "ErrorDefinition"
  @@ "CP.EventDefinition" :> "EventDefinition"
  @@ "CP.FunctionDefinition" :> "FunctionDefinition"
  @@ "CP.StraySemicolon" :> "StraySemicolon"
  @@ "CP.StructDefinition" :> "StructDefinition"
  @@ "CP.TypeDefinition" :> "TypeDefinition"
  @@ "CP.Using" :> "Using"
  @@ "CP.VariableDefinition" :> "VariableDefinition"
  @@ "E.Add" :> "Add"
  @@ "E.AddressLiteral" :> "AddressLiteral"
  @@ "E.And" :> "And"
  @@ "E.ArrayLiteral" :> "ArrayLiteral"
  @@ "E.ArraySlice" :> "ArraySlice"
  @@ "E.ArraySubscript" :> "ArraySubscript"
  @@ "E.Assign" :> "Assign"
  @@ "E.AssignAdd" :> "AssignAdd"
  @@ "E.AssignAnd" :> "AssignAnd"
  @@ "E.AssignDivide" :> "AssignDivide"
  @@ "E.AssignModulo" :> "AssignModulo"
  @@ "E.AssignMultiply" :> "AssignMultiply"
  @@ "E.AssignOr" :> "AssignOr"
  @@ "E.AssignShiftLeft" :> "AssignShiftLeft"
  @@ "E.AssignShiftRight" :> "AssignShiftRight"
  @@ "E.AssignSubtract" :> "AssignSubtract"
  @@ "E.AssignXor" :> "AssignXor"
  @@ "E.BitwiseAnd" :> "BitwiseAnd"
  @@ "E.BitwiseOr" :> "BitwiseOr"
  @@ "E.BitwiseXor" :> "BitwiseXor"
  @@ "E.BoolLiteral" :> "BoolLiteral"
  @@ "E.Complement" :> "Complement"
  @@ "E.Delete" :> "Delete"
  @@ "E.Divide" :> "Divide"
  @@ "E.Equal" :> "Equal"
  @@ "E.FunctionCall" :> "FunctionCall"
  @@ "E.FunctionCallBlock" :> "FunctionCallBlock"
  @@ "E.HexLiteral" :> "HexLiteral"
  @@ "E.HexNumberLiteral" :> "HexNumberLiteral"
  @@ "E.Less" :> "Less"
  @@ "E.LessEqual" :> "LessEqual"
  @@ "E.List" :> "List"
  @@ "E.MemberAccess" :> "MemberAccess"
  @@ "E.Modulo" :> "Modulo"
  @@ "E.More" :> "More"
  @@ "E.MoreEqual" :> "MoreEqual"
  @@ "E.Multiply" :> "Multiply"
  @@ "E.NamedFunctionCall" :> "NamedFunctionCall"
  @@ "E.New" :> "New"
  @@ "E.Not" :> "Not"
  @@ "E.NotEqual" :> "NotEqual"
  @@ "E.NumberLiteral" :> "NumberLiteral"
  @@ "E.Or" :> "Or"
  @@ "E.Parenthesis" :> "Parenthesis"
  @@ "E.PostDecrement" :> "PostDecrement"
  @@ "E.PostIncrement" :> "PostIncrement"
  @@ "E.Power" :> "Power"
  @@ "E.PreDecrement" :> "PreDecrement"
  @@ "E.PreIncrement" :> "PreIncrement"
  @@ "E.RationalNumberLiteral" :> "RationalNumberLiteral"
  @@ "E.ShiftLeft" :> "ShiftLeft"
  @@ "E.ShiftRight" :> "ShiftRight"
  @@ "E.StringLiteral" :> "StringLiteral"
  @@ "E.Subtract" :> "Subtract"
  @@ "E.Ternary" :> "Ternary"
  @@ "E.This" :> "This"
  @@ "E.UnaryMinus" :> "UnaryMinus"
  @@ "E.UnaryPlus" :> "UnaryPlus"
  @@ "E.Unit" :> "Unit"
  @@ "E.Variable" :> "Variable"
  @@ "S.Args" :> "Args"
  @@ "S.Assembly" :> "None"
  @@ "S.Block" :> "Block"
  @@ "S.Break" :> "None"
  @@ "S.Continue" :> "None"
  @@ "S.DoWhile" :> "DoWhile"
  @@ "S.Emit" :> "Emit"
  @@ "S.Expression" :> "Expression"
  @@ "S.For" :> "For"
  @@ "S.If" :> "If"
  @@ "S.Return" :> "Return"
  @@ "S.Revert" :> "Revert"
  @@ "S.RevertNamedArgs" :> "RevertNamedArgs"
  @@ "S.Try" :> "Try"
  @@ "S.VariableDefinition" :> "VariableDefinition"
  @@ "S.While" :> "While"
  @@ "SU.SourceUnit" :> "SourceUnit"
  @@ "SUP.ContractDefinition" :> "ContractDefinition"
  @@ "SUP.EnumDefinition" :> "EnumDefinition"
  @@ "SUP.ErrorDefinition" :> "ErrorDefinition"
  @@ "SUP.EventDefinition" :> "EventDefinition"
  @@ "SUP.FunctionDefinition" :> "FunctionDefinition"
  @@ "SUP.ImportDirective" :> "ImportDirective"
  @@ "SUP.PragmaDirective" :> "PragmaDirective"
  @@ "SUP.StraySemicolon" :> "StraySemicolon"
  @@ "SUP.StructDefinition" :> "StructDefinition"
  @@ "SUP.TypeDefinition" :> "TypeDefinition"
  @@ "SUP.Using" :> "Using"
  @@ "SUP.VariableDefinition" :> "VariableDefinition"
  @@ "E.Type" :> "Type"

\* every value of the Target enumeration ("Function" answers to no node kind)
AllTargets == {KindT[k] : k \in Kinds} \cup {"Function"}

SortAdmits(sort, k) == IF sort = "ES" THEN CategoryOf[k] \in {"E", "S"} ELSE CategoryOf[k] = sort

-----------------------------------------------------------------------------
(* Well-formedness of a flat tree against Sig (checked on every projected    *)
(* and generated tree before anything else is evaluated on it).              *)
Ids(T) == 1 .. Len(T)
FlatCh(sl) == LET RECURSIVE Go(_)
                  Go(i) == IF i > Len(sl) THEN <<>> ELSE sl[i].ch \o Go(i + 1)
              IN Go(1)

NodeOK(T, n) ==
    LET node == T[n]
        sig == SigOf(node)
    IN  /\ node.k \in Kinds
        /\ Len(node.sl) = Len(sig)
        /\ \A i \in 1 .. Len(sig) :
              /\ node.sl[i].lab = sig[i].lab
              /\ sig[i].mult = "one" => Len(node.sl[i].ch) = 1
              /\ sig[i].mult = "opt" => Len(node.sl[i].ch) <= 1
              /\ \A j \in 1 .. Len(node.sl[i].ch) :
                    LET c == node.sl[i].ch[j] IN
                    /\ c \in Ids(T) /\ T[c].par = n /\ T[c].slot = sig[i].lab
                    /\ SortAdmits(sig[i].sort, T[c].k)
        /\ node.ch = FlatCh(node.sl)
        \* pre-order numbering: first child is n+1, each next child follows the previous subtree
        /\ \A j \in 1 .. Len(node.ch) :
              node.ch[j] = (IF j = 1 THEN n + 1 ELSE T[node.ch[j - 1]].last + 1)
        /\ node.last = (IF node.ch = <<>> THEN n ELSE T[node.ch[Len(node.ch)]].last)

TreeOK(T) == /\ Len(T) >= 1 /\ T[1].par = 0 /\ T[1].last = Len(T)
             /\ \A n \in Ids(T) : NodeOK(T, n)

Subtree(T, r) == r .. T[r].last
IsAncestor(T, a, n) == a < n /\ n <= T[a].last          \* proper ancestor
=============================================================================
