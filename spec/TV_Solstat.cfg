SPECIFICATION Spec
INVARIANT Report
CHECK_DEADLOCK FALSE
