SPECIFICATION Spec
CONSTANTS
  MaxLen = 6
  ReturnZeroAtEnd = FALSE
INVARIANTS ScanIsLineOf OneBased DumpBehaviour
PROPERTY Terminates
CHECK_DEADLOCK FALSE
