SPECIFICATION Spec
CONSTANTS
  MaxTop = 2
  MaxSub = 2
  Small = TRUE
  Deep = TRUE
  Dump = TRUE
  OverwriteOnReturn = FALSE
INVARIANTS UnionHolds NonEmptySets Inert FoldIsMachine DumpBehaviour
PROPERTY Terminates
CHECK_DEADLOCK FALSE
