----------------------------- MODULE MC_Compose -----------------------------
(***************************************************************************)
(* Files of two and three top-level items drawn from a pool of items with    *)
(* disjoint names, in every order (C19).                                      *)
(***************************************************************************)
EXTENDS DeclGen, Json

CONSTANTS Full

Ct(name, members) == N("SUP.ContractDefinition", [cty |-> "contract", name |-> name, bases |-> <<>>], <<<<>>, members>>)
Fn(name, vis, stmts) == FnDecl("function", name, VisAttr(vis), NoParams, <<>>, TRUE, stmts)
Ctor(params, stmts) == FnDecl("constructor", "", <<>>, params, <<>>, TRUE, stmts)
OneU == <<<<[present |-> TRUE, storage |-> "", name |-> "x0"]>>, <<U256>>>>
Asg(n, e) == ExprStmt(Bin("E.Assign", Var(n), e))

Pool == <<
    Ct("CtorBad", <<Fn("early", "public", <<>>), Ctor(NoParams, <<>>)>>),
    Ct("CtorOnly", <<Ctor(NoParams, <<>>)>>),
    Ct("FnOnly", <<Fn("one", "external", <<>>), Fn("two", "internal", <<>>)>>),
    Ct("WrittenVar", <<StateVar("wv", U256, <<>>, <<>>), Fn("setWv", "public", <<Asg("wv", Num("1"))>>)>>),
    Ct("UnwrittenVar", <<StateVar("uv", U256, <<>>, <<>>), StateVar("ua", Ty("address", 0), <<>>, <<>>)>>),
    Ct("ImmCand", <<StateVar("ic", U256, <<>>, <<>>), Ctor(OneU, <<Asg("ic", Var("x0"))>>)>>),
    Ct("Packable", <<StateVar("p1", Ty("uint", 8), <<>>, <<>>), StateVar("p2", U256, <<>>, <<>>), StateVar("p3", Ty("uint", 8), <<>>, <<>>)>>),
    N("SUP.ContractDefinition", [cty |-> "library", name |-> "LibFn", bases |-> <<>>],
      <<<<>>, <<Fn("dbl", "internal", <<ExprStmt(Bin("E.Multiply", Var("q1"), Num("2")))>>)>>>>),
    NbIface,
    N("SUP.FunctionDefinition", [fty |-> "function", name |-> "freeItem", params |-> <<>>, attributes |-> <<>>, returns |-> <<>>],
      <<<<>>, <<>>, <<>>, <<Block(<<ExprStmt(Un("E.PostIncrement", Var("k1"))), ExprStmt(Bin("E.MoreEqual", Var("k1"), Var("k2")))>>)>>>>),
    N("SUP.StructDefinition", [name |-> "LooseRec", fields |-> <<[name |-> "a", storage |-> ""], [name |-> "b", storage |-> ""], [name |-> "c", storage |-> ""]>>], <<<<Ty("uint", 8), U256, Ty("uint", 8)>>>>),
    Ct("Killable", <<Fn("kill", "public", <<DestructStmt>>)>>),
    Ct("MemUser", <<FnDecl("function", "take", VisAttr("external"), <<<<[present |-> TRUE, storage |-> "memory", name |-> "blob"]>>, <<N("E.ArraySubscript", A0, <<<<U256>>, <<>>>>)>>>>, <<>>, TRUE, <<>>)>>),
    Ct("BadNames", <<StateVar("plainPrivate", U256, <<"private">>, <<>>), Fn("_exposed", "public", <<>>),
                     StateVar("LIMIT", U256, <<"public", "constant">>, <<Num("5")>>)>>),
    N("SUP.VariableDefinition", [name |-> "FILE_K", vattrs |-> <<"constant">>], <<<<U256>>, <<Bin("E.Power", Num("10"), Num("18"))>>>>),
    \* carriers and receivers of state that must be per item: a one-variable contract leaves nothing to compare, a
    \* contract whose declared layout is optimal stays optimal whatever precedes it in the file
    Ct("OneAddr", <<StateVar("oa", Ty("address", 0), <<>>, <<>>)>>),
    Ct("OneBool", <<StateVar("ob", Ty("bool", 0), <<>>, <<>>)>>),
    Ct("TightBool", <<StateVar("tb1", U256, <<>>, <<>>), StateVar("tb2", Ty("bool", 0), <<>>, <<>>)>>),
    \* a name declared in one item and used in another, unrelated one: no file-wide table keyed by bare names
    Ct("AuthDecl", <<StateVar("boss", Ty("address", 0), <<>>, <<>>),
                     FnDecl("modifier", "auth", <<>>, NoParams, <<>>, TRUE,
                            <<ExprStmt(CallNamed("require", <<Bin("E.Equal", MsgSender, Var("boss"))>>)), ExprStmt(Var("_"))>>)>>),
    Ct("AuthUser", <<StateVar("heir", Ty("address", 0), <<>>, <<>>),
                     FnDecl("function", "close", VisAttr("external") \o <<ModAttr("auth", 0 - 1)>>, NoParams, <<>>, TRUE,
                            <<DestructCall("selfdestruct", Payable(Var("heir")))>>)>>),
    Ct("TightAddr", <<StateVar("ta1", U256, <<>>, <<>>), StateVar("ta2", Ty("address", 0), <<>>, <<>>),
                      Fn("setTa", "public", <<Asg("ta1", Num("1")), Asg("ta2", MsgSender)>>)>>),
    \* functions that are called like OTHER top-level items of the pool (a library, a contract): ordinary functions
    Ct("NameClash", <<FnDecl("function", "LibFn", VisAttr("external"), <<<<[present |-> TRUE, storage |-> "memory", name |-> "blob1"]>>, <<N("E.ArraySubscript", A0, <<<<U256>>, <<>>>>)>>>>, <<>>, TRUE, <<>>),
                      FnDecl("function", "FnOnly", VisAttr("public"), <<<<[present |-> TRUE, storage |-> "memory", name |-> "blob2"]>>, <<N("E.ArraySubscript", A0, <<<<U256>>, <<>>>>)>>>>, <<>>, TRUE, <<>>)>>),
    \* a function over a signed type (last function of its item) and, in other items, divisions by a power of two OUTSIDE
    \* any function (a state variable's initialiser, a file-level constant)
    Ct("SignedFn", <<FnDecl("function", "neg", VisAttr("public"), <<<<[present |-> TRUE, storage |-> "", name |-> "sx"]>>, <<Ty("int", 256)>>>>, <<>>, TRUE,
                           <<ExprStmt(Bin("E.Divide", Var("sx"), Num("4")))>>)>>),
    Ct("HalfCap", <<StateVar("hc", U256, <<"public">>, <<Bin("E.Divide", Num("1000000"), Num("2"))>>), Fn("useHc", "external", <<>>)>>),
    N("SUP.VariableDefinition", [name |-> "FILE_HALF", vattrs |-> <<"constant">>], <<<<U256>>, <<Bin("E.Divide", Num("4096"), Num("8"))>>>>),
    \* a local initialised with a quotient in the last function of one item; a free function (and a library function) of
    \* another item whose parameter bears the same name and is multiplied: a local name means nothing outside its function
    Ct("Quot", <<Fn("split", "public", <<LocalVar("q", U256, <<Bin("E.Divide", Var("k1"), Var("k2"))>>)>>)>>),
    N("SUP.FunctionDefinition", [fty |-> "function", name |-> "useQ", params |-> <<[present |-> TRUE, storage |-> "", name |-> "q"]>>, attributes |-> <<>>, returns |-> <<>>],
      <<<<U256>>, <<>>, <<>>, <<Block(<<ExprStmt(Bin("E.Multiply", Var("q"), Num("3")))>>)>>>>),
    \* an inline assembly block in one item says nothing about the state variables of another
    Ct("AsmUser", <<Fn("raw", "public", <<N("S.Assembly", A0, <<>>)>>)>>),
    \* a loop without a condition, and a loop whose condition reads an array length, in different items
    Ct("Forever", <<Fn("spin", "public", <<N("S.For", A0, <<<<>>, <<>>, <<>>, <<Block(<<N("S.Break", A0, <<>>)>>)>>>>)>>)>>),
    Ct("LenLoop", <<StateVar("arr", N("E.ArraySubscript", A0, <<<<U256>>, <<>>>>), <<>>, <<>>),
                    Fn("scan", "public", <<N("S.For", A0, <<<<>>, <<Bin("E.Less", Var("k9"), N("E.MemberAccess", [member |-> "length"], <<<<Var("arr")>>>>))>>, <<>>, <<Block(<<>>)>>>>)>>)>>),
    \* TYPES declared in one item and used in another (an enum at file level / inside a contract, a struct whose field
    \* is of that type by its bare name): what is reported for the user does not depend on whether the declaring item is there
    N("SUP.EnumDefinition", [name |-> "Mode", values |-> <<"Up", "Down">>], <<>>),
    N("SUP.StructDefinition", [name |-> "ModeRec", fields |-> <<[name |-> "lo", storage |-> ""], [name |-> "m", storage |-> ""], [name |-> "hi", storage |-> ""]>>],
      <<<<Ty("uint", 128), Var("Mode"), Ty("uint", 128)>>>>),
    Ct("KindHolder", <<N("CP.EnumDefinition", [name |-> "Kind", values |-> <<"A", "B">>], <<>>)>>),
    Ct("KindUser", <<N("CP.StructDefinition", [name |-> "KindRec", fields |-> <<[name |-> "k1", storage |-> ""], [name |-> "k2", storage |-> ""], [name |-> "k3", storage |-> ""]>>],
                       <<<<Ty("uint", 128), Var("Kind"), Ty("uint", 128)>>>>),
                     StateVar("ku1", Ty("uint", 128), <<>>, <<>>), StateVar("ku2", Var("Mode"), <<>>, <<>>), StateVar("ku3", Ty("uint", 128), <<>>, <<>>),
                     Fn("setKu", "public", <<Asg("ku1", Num("1")), Asg("ku3", Num("2"))>>)>>)
>>
P == 1 .. Len(Pool)
L(lab, t) == [label |-> lab, tree |-> t]
Lab(is) == LET RECURSIVE Go(_)
               Go(k) == IF k > Len(is) THEN "" ELSE (IF k > 1 THEN "+" ELSE "") \o Pool[is[k]].a.name \o Go(k + 1)
           IN Go(1)
Pairs == {pr \in P \X P : pr[1] # pr[2]}
Triples == P \X P \X P
GoodTriples == {t \in Triples : t[1] # t[2] /\ t[2] # t[3] /\ t[1] # t[3] /\ (Full \/ (t[1] + 2 * t[2] + 3 * t[3]) % 11 = 0)}
Files == {L(Lab(pr), InFile(<<Pool[pr[1]], Pool[pr[2]]>>)) : pr \in {p2 \in Pairs : p2[1] # p2[2]}}
         \cup {L(Lab(t), InFile(<<Pool[t[1]], Pool[t[2]], Pool[t[3]]>>)) : t \in GoodTriples}

VARIABLES file
Init == file \in Files
Next == UNCHANGED file
Spec == Init /\ [][Next]_file
WellFormed == TreeOK(Flatten(file.tree))
DumpBehaviour == PrintT(<<"REPLAY", ToJson(file)>>)
=============================================================================
