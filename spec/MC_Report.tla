----------------------------- MODULE MC_Report -----------------------------
(***************************************************************************)
(* Model checking of the renderer machine (C11, C12) and of the canonical   *)
(* renderer (C13), and generation of findings maps for replay.              *)
(***************************************************************************)
EXTENDS Report, TLC, Json

CONSTANTS Cat,            \* "vulnerabilities" | "optimizations" | "qa"
          Pats,           \* catalogue of the category: a sequence of pattern names
          LowHeadingAlways, HashOrderEntries   \* negative controls

PatsVul == <<"unsafe_erc20_operation", "unprotected_selfdestruct", "divide_before_multiply", "floating_pragma">>
PatsOpt == <<"a", "b", "c">>
PatsQa  == <<"x", "y", "z">>

PatSet == SetOf(Pats)

\* per-pattern choices: file ids are integers (rendered by the harness as names in this order)
Choices == { <<>>,
             << <<1, <<1>>>> >>,
             << <<1, <<2, 10>>>> >>,
             << <<1, <<1>>>>, <<2, <<2>>>> >>,
             << <<2, <<2>>>>, <<1, <<1>>>> >>,
             << <<1, <<3>>>>, <<1, <<3>>>> >>,       \* same file name in two directories
             << <<1, <<>>>> >>,                       \* an entry without lines: no finding at all
             << <<1, <<>>>>, <<2, <<21, 34>>>> >> }   \* ... next to a file that has findings

VARIABLES F, todo, out, total, buf, phase
vars == <<F, todo, out, total, buf, phase>>

Init == /\ \E g \in [PatSet -> Choices] :
             F = [p \in {q \in PatSet : g[q] # <<>>} |-> g[p]]
        /\ todo = Reported(F) /\ out = <<>> /\ total = 0
        /\ buf = <<<<>>, <<>>, <<>>, <<>>>> /\ phase = "loop"

SevIndex(p) == IF Cat # "vulnerabilities" THEN 4
               ELSE CHOOSE k \in 1 .. 3 : Severities[k] = SeverityOf(p)

\* one iteration of `for (pattern, matches) in map` -- the map yields patterns in any order
RenderSection(p) ==
    /\ phase = "loop" /\ p \in todo
    /\ todo' = todo \ {p}
    /\ buf' = [buf EXCEPT ![SevIndex(p)] = @ \o SectionItems(F, p)]
    /\ total' = total + Len(EntriesOf(F, p))
    /\ UNCHANGED <<F, out, phase>>

Finish ==
    /\ phase = "loop" /\ todo = {}
    /\ out' = IF LowHeadingAlways /\ Cat = "vulnerabilities" /\ buf[3] = <<>>
              THEN Assemble(Cat, total, buf) \o <<[t |-> "Severity", s |-> "Low"]>>
              ELSE Assemble(Cat, total, buf)
    /\ phase' = "done"
    /\ UNCHANGED <<F, todo, total, buf>>

Next == (\E p \in PatSet : RenderSection(p)) \/ Finish
Spec == Init /\ [][Next]_vars /\ WF_vars(Next)

Done == phase = "done"
IsInitial == phase = "loop" /\ todo = Reported(F) /\ total = 0 /\ buf = <<<<>>, <<>>, <<>>, <<>>>>
Listed   == Done => C11Holds(F, out)
Totals   == Done => C12Holds(F, out)
Terminates == <>Done

-----------------------------------------------------------------------------
\* C13: canonical rendering
Before(a, b) == a[1] < b[1] \/ (a[1] = b[1] /\ a[2] < b[2])
CanonEntries(G, p) ==
    LET tr == EntriesOf(G, p)
        pairs == [i \in 1 .. Len(tr) |-> <<tr[i][2], tr[i][3]>>]
        sorted == IF HashOrderEntries THEN pairs ELSE SortSeq(pairs, Before)
    IN <<[t |-> "Section", p |-> p], [t |-> "LinesHdr"]>> \o
       [i \in 1 .. Len(sorted) |-> [t |-> "Entry", f |-> sorted[i][1], l |-> sorted[i][2]]]
RECURSIVE CanonBuf(_, _, _)
CanonBuf(G, i, k) ==
    IF i > Len(Pats) THEN <<>>
    ELSE (IF Pats[i] \in Reported(G) /\ (IF Cat = "vulnerabilities" THEN SeverityOf(Pats[i]) = Severities[k] ELSE TRUE)
          THEN CanonEntries(G, Pats[i]) ELSE <<>>) \o CanonBuf(G, i + 1, k)
RenderCanon(G) ==
    LET n == Len(Flat(G)) IN
    IF Cat = "vulnerabilities"
    THEN Assemble(Cat, n, <<CanonBuf(G, 1, 1), CanonBuf(G, 1, 2), CanonBuf(G, 1, 3), <<>>>>)
    ELSE Assemble(Cat, n, <<<<>>, <<>>, <<>>, CanonBuf(G, 1, 1)>>)

\* every reordering of the file lists of F (same bag of findings)
ReverseSeq(s) == [i \in 1 .. Len(s) |-> s[Len(s) + 1 - i]]
Reorderings == {[p \in DOMAIN F |-> IF p \in R THEN ReverseSeq(F[p]) ELSE F[p]] : R \in SUBSET DOMAIN F}

Deterministic == IsInitial =>
                     \A G \in Reorderings : RenderCanon(G) = RenderCanon(F)
CanonIsARendering == IsInitial =>
                     C11Holds(F, RenderCanon(F)) /\ C12Holds(F, RenderCanon(F))

\* the report VALUE by which Solstat.tla abbreviates a rendered category part is what can be read back from the
\* canonical rendering: per reported pattern, the bag of <<file, line>>
SR == INSTANCE SolstatRun WITH Catalogue <- <<>>, TreeOf <- <<>>, Res <- <<>>
ReadBackPart(items) ==
    LET rb == ReadBack(items)
        ps == {rb[i][1] : i \in 1 .. Len(rb)}
    IN [p \in ps |-> BagOfSeq(SelectSeq([i \in 1 .. Len(rb) |-> <<rb[i][1], <<rb[i][2], rb[i][3]>>>>], LAMBDA x : x[1] = p))]
ValueIsReadBack == IsInitial =>
    LET v == SR!PartOf(F)
        r == ReadBackPart(RenderCanon(F))
    IN /\ DOMAIN v = DOMAIN r
       /\ \A p \in DOMAIN v : \A e \in DOMAIN v[p] : r[p][<<p, e>>] = v[p][e]
       /\ \A p \in DOMAIN v : Cardinality(DOMAIN r[p]) = Cardinality(DOMAIN v[p])

DumpBehaviour == IsInitial =>
    PrintT(<<"REPLAY", ToJson([cat |-> Cat,
                                findings |-> [p \in DOMAIN F |-> F[p]],
                                pats |-> [i \in 1 .. Len(Pats) |-> IF Pats[i] \in DOMAIN F THEN F[Pats[i]] ELSE <<>>],
                                total |-> Len(Flat(F))])>>)
=============================================================================
