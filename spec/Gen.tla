--------------------------------- MODULE Gen ---------------------------------
(***************************************************************************)
(* Generation of abstract trees from Sig (DESIGN.md 3.5).                   *)
(*                                                                          *)
(* A nested tree is [k, a, c]: kind, attribute record, and one sequence of  *)
(* children per slot of Sig.  A FRAME is a node with a hole in one slot:    *)
(*   [k, a, c, hs, hp, lvl, in, out]                                        *)
(* hs / hp = slot and position of the hole, lvl = binding level of the slot *)
(* (Appendix B; 99 = delimited), in / out = sort of the hole / of the node  *)
(* ("E" expression, "T" type expression, "S" statement, "B" block statement,*)
(* "CP", "SUP").  Plug wraps the plugged expression in an explicit          *)
(* E.Parenthesis node when the slot would not admit it bare, so the         *)
(* renderer never invents parentheses and parse(render(t)) projects to t.   *)
(* Frames cover every slot of Sig (FramesCoverSig); Level A = one frame     *)
(* over a base context, Level B = two frames.                               *)
(***************************************************************************)
EXTENDS SolAst

A0 == [z |-> 0]
N(k, a, c) == [k |-> k, a |-> a, c |-> c]

Var(n)       == N("E.Variable", [name |-> n], <<>>)
Num(v)       == N("E.NumberLiteral", [value |-> v], <<>>)
BoolLit(b)   == N("E.BoolLiteral", [value |-> b], <<>>)
Str(s)       == N("E.StringLiteral", [pieces |-> <<[unicode |-> FALSE, string |-> s]>>], <<>>)
Ty(t, n)     == N("E.Type", [ty |-> t, n |-> n], <<>>)
U256         == Ty("uint", 256)
Un(k, e)     == N(k, A0, <<<<e>>>>)
Bin(k, l, r) == N(k, A0, <<<<l>>, <<r>>>>)
Paren(e)     == Un("E.Parenthesis", e)
Member(e, m) == N("E.MemberAccess", [member |-> m], <<<<e>>>>)
Call(f, as)  == N("E.FunctionCall", A0, <<<<f>>, as>>)
Index(b, i)  == N("E.ArraySubscript", A0, <<<<b>>, <<i>>>>)
ExprStmt(e)  == N("S.Expression", A0, <<<<e>>>>)
Block(ss)    == N("S.Block", [unchecked |-> FALSE], <<ss>>)
Unchecked(ss) == N("S.Block", [unchecked |-> TRUE], <<ss>>)
LocalVar(n, t, init) == N("S.VariableDefinition", [name |-> n, storage |-> ""], <<<<t>>, init>>)

-----------------------------------------------------------------------------
(* Precedence (Appendix B)                                                   *)
Level14 == {"E.Assign", "E.AssignOr", "E.AssignAnd", "E.AssignXor", "E.AssignShiftLeft", "E.AssignShiftRight",
            "E.AssignAdd", "E.AssignSubtract", "E.AssignMultiply", "E.AssignDivide", "E.AssignModulo", "E.Ternary"}
Prec(k) == CASE k \in Level14 -> 14
             [] k = "E.Or" -> 13 [] k = "E.And" -> 12
             [] k \in {"E.Equal", "E.NotEqual"} -> 11
             [] k \in {"E.Less", "E.More", "E.LessEqual", "E.MoreEqual"} -> 10
             [] k = "E.BitwiseOr" -> 9 [] k = "E.BitwiseXor" -> 8 [] k = "E.BitwiseAnd" -> 7
             [] k \in {"E.ShiftLeft", "E.ShiftRight"} -> 6
             [] k \in {"E.Add", "E.Subtract"} -> 5
             [] k \in {"E.Multiply", "E.Divide", "E.Modulo"} -> 4
             [] k = "E.Power" -> 3
             [] k \in {"E.Not", "E.Complement", "E.Delete", "E.New", "E.PreIncrement", "E.PreDecrement", "E.UnaryPlus", "E.UnaryMinus"} -> 2
             [] OTHER -> 0

\* binding levels of the operand slots
LeftLevel(k)  == IF k = "E.Power" THEN 2 ELSE IF k \in Level14 THEN 13 ELSE Prec(k)
RightLevel(k) == IF k = "E.Power" THEN 3 ELSE IF k \in Level14 THEN 14 ELSE Prec(k) - 1

W(e, lvl) == IF CategoryOf[e.k] = "E" /\ Prec(e.k) > lvl THEN Paren(e) ELSE e

-----------------------------------------------------------------------------
(* Frames                                                                    *)
Frame(k, a, c, hs, hp, lvl, in, out) ==
    [k |-> k, a |-> a, c |-> c, hs |-> hs, hp |-> hp, lvl |-> lvl, in |-> in, out |-> out]

InsertAt(s, p, x) == SubSeq(s, 1, p - 1) \o <<x>> \o SubSeq(s, p, Len(s))
Plug(f, t) == N(f.k, f.a, [f.c EXCEPT ![f.hs] = InsertAt(@, f.hp, W(t, f.lvl))])

BinaryKinds == {"E.Power", "E.Multiply", "E.Divide", "E.Modulo", "E.Add", "E.Subtract", "E.ShiftLeft", "E.ShiftRight",
                "E.BitwiseAnd", "E.BitwiseXor", "E.BitwiseOr", "E.Less", "E.More", "E.LessEqual", "E.MoreEqual",
                "E.Equal", "E.NotEqual", "E.And", "E.Or"} \cup (Level14 \ {"E.Ternary"})
PrefixKinds == {"E.Not", "E.Complement", "E.Delete", "E.New", "E.PreIncrement", "E.PreDecrement", "E.UnaryPlus", "E.UnaryMinus"}

a1 == Var("p") 
a2 == Var("q")
cnd == Var("flag")
S0 == ExprStmt(Var("noop"))
B0 == Block(<<>>)

\* positions first / middle / last of a three-element list, and sole element
ListFrames(k, a, cBefore, slotIdx, cAfter, fill1, fill2, lvl, in, out) ==
    { Frame(k, a, cBefore \o <<<<fill1, fill2>>>> \o cAfter, slotIdx, 1, lvl, in, out),
      Frame(k, a, cBefore \o <<<<fill1, fill2>>>> \o cAfter, slotIdx, 2, lvl, in, out),
      Frame(k, a, cBefore \o <<<<fill1, fill2>>>> \o cAfter, slotIdx, 3, lvl, in, out),
      Frame(k, a, cBefore \o <<<<>>>> \o cAfter, slotIdx, 1, lvl, in, out) }

EFramesE ==   \* hole E, result E
    {Frame(k, A0, <<<<>>, <<a2>>>>, 1, 1, LeftLevel(k), "E", "E") : k \in BinaryKinds}
    \cup {Frame(k, A0, <<<<a1>>, <<>>>>, 2, 1, RightLevel(k), "E", "E") : k \in BinaryKinds}
    \cup {Frame(k, A0, <<<<>>>>, 1, 1, 2, "E", "E") : k \in PrefixKinds}
    \cup {Frame(k, A0, <<<<>>>>, 1, 1, 0, "E", "E") : k \in {"E.PostIncrement", "E.PostDecrement"}}
    \cup {Frame("E.Parenthesis", A0, <<<<>>>>, 1, 1, 99, "E", "E"),
          Frame("E.Unit", [unit |-> "wei"], <<<<>>>>, 1, 1, 0, "E", "E"),
          Frame("E.MemberAccess", [member |-> "field"], <<<<>>>>, 1, 1, 0, "E", "E"),
          Frame("E.ArraySubscript", A0, <<<<>>, <<a2>>>>, 1, 1, 0, "E", "E"),
          Frame("E.ArraySubscript", A0, <<<<a1>>, <<>>>>, 2, 1, 99, "E", "E"),
          Frame("E.ArraySlice", A0, <<<<>>, <<a1>>, <<a2>>>>, 1, 1, 0, "E", "E"),
          Frame("E.ArraySlice", A0, <<<<a1>>, <<>>, <<a2>>>>, 2, 1, 99, "E", "E"),
          Frame("E.ArraySlice", A0, <<<<a1>>, <<a2>>, <<>>>>, 3, 1, 99, "E", "E"),
          Frame("E.ArraySlice", A0, <<<<a1>>, <<>>, <<>>>>, 3, 1, 99, "E", "E"),
          \* every presence combination of the two optional bounds: x[:], x[a:], x[:b], a[x:]
          Frame("E.ArraySlice", A0, <<<<>>, <<>>, <<>>>>, 1, 1, 0, "E", "E"),
          Frame("E.ArraySlice", A0, <<<<>>, <<a1>>, <<>>>>, 1, 1, 0, "E", "E"),
          Frame("E.ArraySlice", A0, <<<<>>, <<>>, <<a2>>>>, 1, 1, 0, "E", "E"),
          Frame("E.ArraySlice", A0, <<<<a1>>, <<>>, <<>>>>, 2, 1, 99, "E", "E"),
          Frame("E.FunctionCall", A0, <<<<>>, <<a1>>>>, 1, 1, 0, "E", "E"),
          Frame("E.NamedFunctionCall", [names |-> <<"n1", "n2", "n3">>], <<<<>>, <<a1>>>>, 1, 1, 0, "E", "E"),
          Frame("E.FunctionCallBlock", A0, <<<<>>, <<B0>>>>, 1, 1, 0, "E", "E"),
          Frame("E.Ternary", A0, <<<<>>, <<a1>>, <<a2>>>>, 1, 1, 13, "E", "E"),
          Frame("E.Ternary", A0, <<<<cnd>>, <<>>, <<a2>>>>, 2, 1, 14, "E", "E"),
          Frame("E.Ternary", A0, <<<<cnd>>, <<a1>>, <<>>>>, 3, 1, 14, "E", "E")}
    \cup ListFrames("E.FunctionCall", A0, <<<<Var("fn")>>>>, 2, <<>>, a1, a2, 99, "E", "E")
    \cup ListFrames("E.NamedFunctionCall", [names |-> <<"n1", "n2", "n3">>], <<<<Var("fn")>>>>, 2, <<>>, a1, a2, 99, "E", "E")
    \cup (ListFrames("E.ArrayLiteral", A0, <<>>, 1, <<>>, a1, a2, 99, "E", "E"))
    \cup {Frame("E.List", [entries |-> <<[present |-> TRUE, storage |-> "", name |-> ""], [present |-> FALSE], [present |-> TRUE, storage |-> "", name |-> ""]>>],
                <<<<a1>>>>, 1, p, 99, "E", "E") : p \in {1, 2}}

EFramesS ==   \* hole E, result S
    {Frame("S.Expression", A0, <<<<>>>>, 1, 1, 99, "E", "S"),
     Frame("S.VariableDefinition", [name |-> "loc", storage |-> ""], <<<<U256>>, <<>>>>, 2, 1, 99, "E", "S"),
     Frame("S.Return", A0, <<<<>>>>, 1, 1, 99, "E", "S"),
     Frame("S.If", A0, <<<<>>, <<B0>>, <<>>>>, 1, 1, 99, "E", "S"),
     Frame("S.While", A0, <<<<>>, <<B0>>>>, 1, 1, 99, "E", "S"),
     Frame("S.DoWhile", A0, <<<<B0>>, <<>>>>, 2, 1, 99, "E", "S"),
     Frame("S.For", A0, <<<<>>, <<>>, <<>>, <<B0>>>>, 2, 1, 99, "E", "S"),
     Frame("S.For", A0, <<<<S0>>, <<>>, <<S0>>, <<>>>>, 2, 1, 99, "E", "S"),
     \* further presence combinations of the optional parts of a for statement around the condition
     Frame("S.For", A0, <<<<S0>>, <<>>, <<>>, <<B0>>>>, 2, 1, 99, "E", "S"),
     Frame("S.For", A0, <<<<>>, <<>>, <<S0>>, <<B0>>>>, 2, 1, 99, "E", "S"),
     Frame("S.For", A0, <<<<>>, <<>>, <<>>, <<>>>>, 2, 1, 99, "E", "S"),
     Frame("S.For", A0, <<<<S0>>, <<>>, <<S0>>, <<>>>>, 2, 1, 99, "E", "S")}
    \cup ListFrames("S.Revert", [error |-> ""], <<>>, 1, <<>>, a1, a2, 99, "E", "S")
    \cup ListFrames("S.Revert", [error |-> "Failure"], <<>>, 1, <<>>, a1, a2, 99, "E", "S")
    \cup ListFrames("S.RevertNamedArgs", [error |-> "Failure", names |-> <<"n1", "n2", "n3">>], <<>>, 1, <<>>, a1, a2, 99, "E", "S")
    \cup ListFrames("S.Args", [names |-> <<"n1", "n2", "n3">>], <<>>, 1, <<>>, a1, a2, 99, "E", "Args")

NoParam == [present |-> FALSE, storage |-> "", name |-> ""]
CParam(st, nm) == [present |-> TRUE, storage |-> st, name |-> nm]

\* composite frames: the slot demands a call, the hole is an argument of that call
CallWith(e) == Call(Var("target"), <<e>>)
EmitOf(e)  == N("S.Emit", A0, <<<<Call(Var("Evt"), <<e>>)>>>>)
TryOf(e, ret, catches, a) == N("S.Try", a, <<<<e>>, ret[1], ret[2], catches>>)

\* hole "Call": the grammar demands a function call in this slot
CallFrames ==
    {Frame("S.Emit", A0, <<<<>>>>, 1, 1, 99, "Call", "S"),
     Frame("S.Try", [returns |-> <<>>, catches |-> <<[kind |-> "simple", id |-> "", param |-> NoParam]>>],
           <<<<>>, <<>>, <<>>, <<B0>>>>, 1, 1, 99, "Call", "S")}

\* hole S (any statement) / B (must be a block)
SFrames ==
    ListFrames("S.Block", [unchecked |-> FALSE], <<>>, 1, <<>>, S0, S0, 99, "S", "S")
    \cup ListFrames("S.Block", [unchecked |-> TRUE], <<>>, 1, <<>>, S0, S0, 99, "S", "S")
    \cup {Frame("S.If", A0, <<<<cnd>>, <<>>, <<>>>>, 2, 1, 99, "S", "S"),
          Frame("S.If", A0, <<<<cnd>>, <<>>, <<B0>>>>, 2, 1, 99, "B", "S"),
          Frame("S.If", A0, <<<<cnd>>, <<B0>>, <<>>>>, 3, 1, 99, "S", "S"),
          Frame("S.While", A0, <<<<cnd>>, <<>>>>, 2, 1, 99, "S", "S"),
          Frame("S.DoWhile", A0, <<<<>>, <<cnd>>>>, 1, 1, 99, "S", "S"),
          Frame("S.For", A0, <<<<>>, <<cnd>>, <<>>, <<B0>>>>, 1, 1, 99, "Simple", "S"),
          Frame("S.For", A0, <<<<>>, <<cnd>>, <<>>, <<B0>>>>, 3, 1, 99, "Simple", "S"),
          Frame("S.For", A0, <<<<S0>>, <<cnd>>, <<S0>>, <<>>>>, 4, 1, 99, "S", "S"),
          Frame("S.For", A0, <<<<>>, <<>>, <<>>, <<>>>>, 4, 1, 99, "S", "S"),
          Frame("S.For", A0, <<<<>>, <<>>, <<>>, <<B0>>>>, 1, 1, 99, "Simple", "S"),
          Frame("S.For", A0, <<<<>>, <<>>, <<>>, <<B0>>>>, 3, 1, 99, "Simple", "S"),
          Frame("S.For", A0, <<<<S0>>, <<>>, <<>>, <<>>>>, 4, 1, 99, "S", "S"),
          \* a loop without a body (`for (init; cond; next);`): its three parts are there all the same
          Frame("S.For", A0, <<<<>>, <<cnd>>, <<>>, <<>>>>, 1, 1, 99, "Simple", "S"),
          Frame("S.For", A0, <<<<>>, <<cnd>>, <<>>, <<>>>>, 3, 1, 99, "Simple", "S"),
          Frame("S.For", A0, <<<<S0>>, <<cnd>>, <<>>, <<>>>>, 3, 1, 99, "Simple", "S"),
          Frame("E.FunctionCallBlock", A0, <<<<Var("fn")>>, <<>>>>, 2, 1, 99, "B", "E"),
          Frame("E.FunctionCallBlock", A0, <<<<Var("fn")>>, <<>>>>, 2, 1, 99, "Args", "E"),
          Frame("S.Try", [returns |-> <<[present |-> TRUE, storage |-> "", name |-> "r1"]>>, catches |-> <<[kind |-> "simple", id |-> "", param |-> NoParam]>>],
                <<<<CallWith(a1)>>, <<U256>>, <<>>, <<B0>>>>, 3, 1, 99, "B", "S"),
          Frame("S.Try", [returns |-> <<>>, catches |-> <<[kind |-> "simple", id |-> "", param |-> NoParam]>>],
                <<<<CallWith(a1)>>, <<>>, <<>>, <<>>>>, 4, 1, 99, "B", "S"),
          Frame("S.Try", [returns |-> <<>>, catches |-> <<[kind |-> "named", id |-> "Error", param |-> CParam("memory", "reason")],
                                                        [kind |-> "simple", id |-> "", param |-> CParam("memory", "low")]>>],
                <<<<CallWith(a1)>>, <<>>, <<>>, <<Ty("string", 0), B0, Ty("bytes", 0)>>>>, 4, 4, 99, "B", "S"),
          Frame("S.Try", [returns |-> <<>>, catches |-> <<[kind |-> "named", id |-> "Panic", param |-> CParam("", "code")],
                                                        [kind |-> "simple", id |-> "", param |-> NoParam]>>],
                <<<<CallWith(a1)>>, <<>>, <<>>, <<U256, B0>>>>, 4, 2, 99, "B", "S")}

FnAttrs(vis) == <<[kind |-> "visibility", value |-> vis]>>
FnDef(cat, fty, name, attributes, body) ==
    N(cat \o ".FunctionDefinition",
      [fty |-> fty, name |-> name, params |-> <<>>, attributes |-> attributes, returns |-> <<>>],
      <<<<>>, <<>>, <<>>, body>>)

\* hole B: bodies of the five kinds of function, in a contract and (function) at file level
BodyFrames ==
    {Frame("CP.FunctionDefinition", [fty |-> ft[1], name |-> ft[2], params |-> <<>>, attributes |-> ft[3], returns |-> <<>>],
           <<<<>>, <<>>, <<>>, <<>>>>, 4, 1, 99, "B", "CP")
       : ft \in {<<"function", "run", FnAttrs("public")>>, <<"constructor", "", <<>>>>, <<"modifier", "guarded", <<>>>>,
                 <<"fallback", "", FnAttrs("external")>>, <<"receive", "", <<[kind |-> "visibility", value |-> "external"], [kind |-> "mutability", value |-> "payable"]>>>>}}
    \cup {Frame("SUP.FunctionDefinition", [fty |-> "function", name |-> "freeRun", params |-> <<>>, attributes |-> <<>>, returns |-> <<>>],
                <<<<>>, <<>>, <<>>, <<>>>>, 4, 1, 99, "B", "SUP")}

\* hole E in declarations
\* <<number of arguments, the other arguments, position of the hole>>
ArgShapes == {<<1, <<>>, 1>>, <<3, <<a1, a2>>, 1>>, <<3, <<a1, a2>>, 2>>, <<3, <<a1, a2>>, 3>>}
DeclEFrames ==
    {Frame("CP.VariableDefinition", [name |-> "stateInit", vattrs |-> <<>>], <<<<U256>>, <<>>>>, 2, 1, 99, "E", "CP"),
     Frame("SUP.VariableDefinition", [name |-> "FILE_CONST", vattrs |-> <<"constant">>], <<<<U256>>, <<>>>>, 2, 1, 99, "E", "SUP")}
    \cup {Frame("CP.FunctionDefinition",
                [fty |-> ft, name |-> "withMod", params |-> <<>>, returns |-> <<>>,
                 attributes |-> <<[kind |-> "visibility", value |-> "public"], [kind |-> "modifier", name |-> "check", args |-> x[1]]>>],
                <<<<>>, x[2], <<>>, <<B0>>>>, 2, x[3], 99, "E", "CP")
            : ft \in {"function", "constructor"}, x \in ArgShapes}
    \* modifier invocations with arguments on the unnamed kinds of function
    \cup {Frame("CP.FunctionDefinition",
                [fty |-> ft, name |-> "", params |-> <<>>, returns |-> <<>>,
                 attributes |-> <<[kind |-> "visibility", value |-> "external"], [kind |-> "mutability", value |-> "payable"],
                                  [kind |-> "modifier", name |-> "limit", args |-> x[1]]>>],
                <<<<>>, x[2], <<>>, <<B0>>>>, 2, x[3], 99, "E", "CP")
            : ft \in {"fallback", "receive"}, x \in {y \in ArgShapes : y[1] = 1 \/ y[3] = 2}}
    \cup {Frame("SUP.FunctionDefinition",
                [fty |-> "function", name |-> "freeMod", params |-> <<>>, returns |-> <<>>,
                 attributes |-> <<[kind |-> "modifier", name |-> "check", args |-> 1]>>],
                <<<<>>, <<>>, <<>>, <<B0>>>>, 2, 1, 99, "E", "SUP")}
    \cup {Frame("SUP.ContractDefinition", [cty |-> "contract", name |-> "Derived", bases |-> <<[name |-> "Parent", args |-> x[1]]>>],
                <<x[2], <<>>>>, 1, x[3], 99, "E", "SUP")
            : x \in ArgShapes}

\* hole T: type expressions
Param1 == <<[present |-> TRUE, storage |-> "", name |-> "arg"]>>
TFrames ==
    {Frame("CP.VariableDefinition", [name |-> "typed", vattrs |-> <<>>], <<<<>>, <<>>>>, 1, 1, 0, "T", "CP"),
     Frame("SUP.VariableDefinition", [name |-> "TYPED", vattrs |-> <<"constant">>], <<<<>>, <<Num("1")>>>>, 1, 1, 0, "T", "SUP"),
     Frame("S.VariableDefinition", [name |-> "tloc", storage |-> ""], <<<<>>, <<>>>>, 1, 1, 99, "T", "S"),
     Frame("CP.FunctionDefinition", [fty |-> "function", name |-> "takes", params |-> Param1, attributes |-> FnAttrs("public"), returns |-> <<>>],
           <<<<>>, <<>>, <<>>, <<B0>>>>, 1, 1, 99, "T", "CP"),
     Frame("CP.FunctionDefinition", [fty |-> "function", name |-> "gives", params |-> <<>>, attributes |-> FnAttrs("public"), returns |-> Param1],
           <<<<>>, <<>>, <<>>, <<B0>>>>, 3, 1, 99, "T", "CP"),
     Frame("SUP.FunctionDefinition", [fty |-> "function", name |-> "freeTakes", params |-> Param1, attributes |-> <<>>, returns |-> Param1],
           <<<<>>, <<>>, <<U256>>, <<B0>>>>, 1, 1, 99, "T", "SUP"),
     Frame("SUP.FunctionDefinition", [fty |-> "function", name |-> "freeGives", params |-> <<>>, attributes |-> <<>>, returns |-> Param1],
           <<<<>>, <<>>, <<>>, <<B0>>>>, 3, 1, 99, "T", "SUP"),
     Frame("CP.StructDefinition", [name |-> "Rec", fields |-> <<[name |-> "fa", storage |-> ""]>>], <<<<>>>>, 1, 1, 99, "T", "CP"),
     Frame("SUP.StructDefinition", [name |-> "FileRec", fields |-> <<[name |-> "fa", storage |-> ""], [name |-> "fb", storage |-> ""]>>], <<<<U256>>>>, 1, 2, 99, "T", "SUP"),
     Frame("CP.EventDefinition", [name |-> "Happened", anonymous |-> FALSE, fields |-> <<[indexed |-> TRUE, name |-> "who"]>>], <<<<>>>>, 1, 1, 99, "T", "CP"),
     Frame("SUP.EventDefinition", [name |-> "FileHappened", anonymous |-> FALSE, fields |-> <<[indexed |-> FALSE, name |-> ""]>>], <<<<>>>>, 1, 1, 99, "T", "SUP"),
     Frame("CP.ErrorDefinition", [name |-> "Bad", fields |-> <<[name |-> "why"]>>], <<<<>>>>, 1, 1, 99, "T", "CP"),
     Frame("SUP.ErrorDefinition", [name |-> "FileBad", fields |-> <<[name |-> ""]>>], <<<<>>>>, 1, 1, 99, "T", "SUP"),
     Frame("CP.TypeDefinition", [name |-> "Alias"], <<<<>>>>, 1, 1, 99, "T", "CP"),
     Frame("SUP.TypeDefinition", [name |-> "FileAlias"], <<<<>>>>, 1, 1, 99, "T", "SUP"),
     Frame("CP.Using", [library |-> "SomeLib", functions |-> <<>>, global |-> ""], <<<<>>>>, 1, 1, 99, "T", "CP"),
     Frame("SUP.Using", [library |-> "", functions |-> <<"helper">>, global |-> "global"], <<<<>>>>, 1, 1, 99, "T", "SUP"),
     Frame("E.Type", [ty |-> "mapping", n |-> 0], <<<<>>, <<U256>>>>, 1, 1, 99, "T", "T"),
     Frame("E.Type", [ty |-> "mapping", n |-> 0], <<<<Ty("address", 0)>>, <<>>>>, 2, 1, 99, "T", "T"),
     Frame("E.Type", [ty |-> "function", n |-> 0, params |-> Param1, attributes |-> FnAttrs("external"), returns |-> <<>>, hasReturns |-> FALSE, retattributes |-> <<>>],
           <<<<>>, <<>>, <<>>, <<>>>>, 1, 1, 99, "T", "T"),
     Frame("E.Type", [ty |-> "function", n |-> 0, params |-> <<>>, attributes |-> FnAttrs("external"), returns |-> Param1, hasReturns |-> TRUE, retattributes |-> <<>>],
           <<<<>>, <<>>, <<>>, <<>>>>, 3, 1, 99, "T", "T"),
     Frame("E.ArraySubscript", A0, <<<<>>, <<>>>>, 1, 1, 0, "T", "T"),
     Frame("E.New", A0, <<<<>>>>, 1, 1, 2, "T", "E"),
     Frame("S.Try", [returns |-> Param1, catches |-> <<[kind |-> "simple", id |-> "", param |-> NoParam]>>],
           <<<<CallWith(a1)>>, <<>>, <<B0>>, <<B0>>>>, 2, 1, 99, "T", "S"),
     Frame("S.Try", [returns |-> <<>>, catches |-> <<[kind |-> "simple", id |-> "", param |-> CParam("memory", "data")]>>],
           <<<<CallWith(a1)>>, <<>>, <<>>, <<B0>>>>, 4, 1, 99, "T", "S")}

\* hole CP / SUP
Member0 == N("CP.VariableDefinition", [name |-> "pad", vattrs |-> <<>>], <<<<U256>>, <<>>>>)
CPFrames ==
    UNION {ListFrames("SUP.ContractDefinition", [cty |-> cty, name |-> "Holder", bases |-> <<>>], <<<<>>>>, 2, <<>>,
                      [Member0 EXCEPT !.a.name = "padA"], [Member0 EXCEPT !.a.name = "padB"], 99, "CP", "SUP")
           : cty \in {"contract", "abstract", "library", "interface"}}
Item0(nm) == N("SUP.ContractDefinition", [cty |-> "contract", name |-> nm, bases |-> <<>>], <<<<>>, <<>>>>)
PragmaNode == N("SUP.PragmaDirective", [pragmaId |-> "solidity", value |-> "0.8.17"], <<>>)
SUPFrames ==
    {Frame("SU.SourceUnit", A0, <<<<PragmaNode, Item0("Before"), Item0("After")>>>>, 1, p, 99, "SUP", "SU") : p \in {2, 3, 4}}
    \cup {Frame("SU.SourceUnit", A0, <<<<PragmaNode>>>>, 1, 2, 99, "SUP", "SU")}

AllFrames == EFramesE \cup EFramesS \cup CallFrames \cup SFrames \cup BodyFrames \cup DeclEFrames \cup TFrames \cup CPFrames \cup SUPFrames

\* which hole sorts a tree of a given sort can fill
Fits(sort, hole) ==
    \/ sort = hole
    \/ sort = "B" /\ hole = "S"            \* a block is a statement
    \/ sort = "Simple" /\ hole = "S"
    \/ sort = "Args" /\ hole = "S"
    \/ sort = "T" /\ hole = "E"            \* a type expression is an expression

-----------------------------------------------------------------------------
(* Base contexts: from a tree of a given sort down to a complete file        *)
InFunction(ss) ==
    N("CP.FunctionDefinition", [fty |-> "function", name |-> "host", params |-> <<>>, attributes |-> FnAttrs("public"), returns |-> <<>>],
      <<<<>>, <<>>, <<>>, <<Block(ss)>>>>)
InContract(parts) == N("SUP.ContractDefinition", [cty |-> "contract", name |-> "Host", bases |-> <<>>], <<<<>>, parts>>)
InFile(items) == N("SU.SourceUnit", A0, <<<<PragmaNode>> \o items>>)

ToFile(t, sort) ==
    CASE sort = "SU"  -> t
      [] sort = "SUP" -> InFile(<<t>>)
      [] sort = "CP"  -> InFile(<<InContract(<<t>>)>>)
      [] sort \in {"S", "B", "Simple"} -> InFile(<<InContract(<<InFunction(<<t>>)>>)>>)
      [] sort = "Args" -> InFile(<<InContract(<<InFunction(<<ExprStmt(N("E.FunctionCallBlock", A0, <<<<Var("fn")>>, <<t>>>>))>>)>>)>>)
      [] sort = "E"   -> InFile(<<InContract(<<InFunction(<<ExprStmt(t)>>)>>)>>)
      [] sort = "T"   -> InFile(<<InContract(<<InFunction(<<LocalVar("typedLocal", t, <<>>)>>)>>)>>)

-----------------------------------------------------------------------------
(* Flattening (nested -> flat, ids in pre-order)                             *)
RECURSIVE Size(_)
Size(t) == LET RECURSIVE SlotSize(_, _), SeqSize(_, _)
               SeqSize(s, j) == IF j > Len(s) THEN 0 ELSE Size(s[j]) + SeqSize(s, j + 1)
               SlotSize(c, i) == IF i > Len(c) THEN 0 ELSE SeqSize(c[i], 1) + SlotSize(c, i + 1)
           IN 1 + SlotSize(t.c, 1)

SlotLabels(t) == LET sig == SigOf(t) IN [i \in 1 .. Len(sig) |-> sig[i].lab]

RECURSIVE FlatNode(_, _, _, _)
FlatNode(t, id, par, slot) ==
    LET labs == SlotLabels(t)
        \* children as <<tree, slot label>> in order
        RECURSIVE Kids(_, _)
        Kids(i, j) == IF i > Len(t.c) THEN <<>>
                      ELSE IF j > Len(t.c[i]) THEN Kids(i + 1, 1)
                      ELSE <<<<t.c[i][j], labs[i], i>>>> \o Kids(i, j + 1)
        kids == Kids(1, 1)
        RECURSIVE IdOf(_)
        IdOf(j) == IF j = 1 THEN id + 1 ELSE IdOf(j - 1) + Size(kids[j - 1][1])
        ch == [j \in 1 .. Len(kids) |-> IdOf(j)]
        sl == [i \in 1 .. Len(t.c) |-> [lab |-> labs[i], ch |-> SelectSeq(ch, LAMBDA c : \E j \in 1 .. Len(kids) : ch[j] = c /\ kids[j][3] = i)]]
        RECURSIVE Rest(_)
        Rest(j) == IF j > Len(kids) THEN <<>> ELSE FlatNode(kids[j][1], ch[j], id, kids[j][2]) \o Rest(j + 1)
    IN <<[k |-> t.k, a |-> t.a, ch |-> ch, sl |-> sl, par |-> par, slot |-> slot, last |-> id + Size(t) - 1]>> \o Rest(1)

Flatten(t) == FlatNode(t, 1, 0, "")

-----------------------------------------------------------------------------
(* Deep nesting: one frame plugged into itself n times (the properties quantify over nesting up to 64) *)
RECURSIVE Nest(_, _, _)
Nest(f, t, n) == IF n = 0 THEN t ELSE Plug(f, Nest(f, t, n - 1))
FrameOf(k, hs, hp) == CHOOSE f \in AllFrames : f.k = k /\ f.hs = hs /\ f.hp = hp /\ f.in \in {"E", "S"}
DeepFrames == {FrameOf("E.Parenthesis", 1, 1), FrameOf("E.Add", 1, 1), FrameOf("E.Add", 2, 1), FrameOf("E.Not", 1, 1),
               FrameOf("E.FunctionCall", 2, 2), FrameOf("E.ArraySubscript", 2, 1), FrameOf("E.Ternary", 3, 1),
               FrameOf("E.Assign", 2, 1), FrameOf("E.MemberAccess", 1, 1), FrameOf("E.PreIncrement", 1, 1)}
DeepStmtFrames == {CHOOSE f \in AllFrames : f.k = "S.Block" /\ ~f.a.unchecked /\ f.hp = 2 /\ Len(f.c[1]) = 2,
                   CHOOSE f \in AllFrames : f.k = "S.If" /\ f.hs = 3,
                   CHOOSE f \in AllFrames : f.k = "S.While" /\ f.hs = 2 /\ f.in = "S",
                   CHOOSE f \in AllFrames : f.k = "S.For" /\ f.hs = 4 /\ f.c[1] = <<>>}
DeepTrees(n, seedE, seedS) ==
    {ToFile(Nest(f, seedE, n), "E") : f \in DeepFrames} \cup {ToFile(Nest(f, seedS, n), "S") : f \in DeepStmtFrames}

-----------------------------------------------------------------------------
\* vacuity guard: the frames exercise every (kind, slot) of Sig
FrameSlots == {<<f.k, (IF f.k = "E.Type" THEN TypeSig(f.a.ty) ELSE FixedSig[f.k])[f.hs].lab>> : f \in AllFrames}
SigSlots == UNION {{<<k, FixedSig[k][i].lab>> : i \in 1 .. Len(FixedSig[k])} : k \in DOMAIN FixedSig}
            \cup {<<"E.Type", "key">>, <<"E.Type", "value">>, <<"E.Type", "params">>, <<"E.Type", "returns">>}
\* slots no frame has a hole in: the grammar admits no argument-bearing attribute on a function TYPE
UncoveredByDesign == {<<"E.Type", "attrs">>, <<"E.Type", "retattrs">>}
FramesCoverSig == SigSlots \subseteq FrameSlots
=============================================================================
