---------------------------- MODULE MC_Solstat ----------------------------
(***************************************************************************)
(* Model checking of the whole-run machine on a small world: a catalogue of *)
(* 2 + 2 + 1 patterns, three contents with overlapping findings, a target   *)
(* directory with a nested directory, a Foundry test file and a text file,  *)
(* a default directory ./contracts that may or may not exist, a directory   *)
(* name that does not exist; every combination of --path / --toml presence, *)
(* configured lists (subset, reordered, empty, duplicate, unknown name) and  *)
(* initial report file.  Each behaviour is also printed for the binary.      *)
(* Negative controls: FallbackAll (an empty configured list means "all",     *)
(* seeded change C14-d), WriteOnAbort.                                       *)
(***************************************************************************)
EXTENDS Solstat, TLC, Json

CONSTANTS FallbackAll, WriteOnAbort

MCCatalogue == [vulnerabilities |-> <<"v1", "v2">>, optimizations |-> <<"o1", "o2">>, qa |-> <<"q1">>]
MCRes == [c1 |-> [v1 |-> <<3>>, o1 |-> <<5, 9>>, q1 |-> <<2>>],
          c2 |-> [v1 |-> <<4>>, o2 |-> <<1>>],
          c3 |-> [o1 |-> <<>>],
          c7 |-> [o1 |-> <<7>>, q1 |-> <<4>>]]     \* a file without a version pragma: o2 (version-gated) finds nothing in it
Nm(text, sol, tsol) == [text |-> text, sol |-> sol, tsol |-> tsol]
F(n, c) == [kind |-> "file", name |-> n, content |-> c]
Dr(n, es) == [kind |-> "dir", name |-> n, tree |-> [entries |-> es]]
MCTreeOf ==
    [P |-> [entries |-> <<F(Nm("A.sol", TRUE, FALSE), "c1"),
                          Dr(Nm("lib.sol", TRUE, FALSE), <<F(Nm("A.sol", TRUE, FALSE), "c2"), F(Nm("T.t.sol", TRUE, TRUE), "c1")>>),
                          F(Nm("notes.txt", FALSE, FALSE), "c1"),
                          F(Nm("C.sol", TRUE, FALSE), "c3"),
                          F(Nm("N.sol", TRUE, FALSE), "c7")>>],
     contracts |-> [entries |-> <<F(Nm("B.sol", TRUE, FALSE), "c2")>>],
     E |-> [entries |-> <<>>],
     \* a target directory whose own name looks like a contract (concretely ../Vault.sol): it is a directory all the same
     S |-> [entries |-> <<F(Nm("D.sol", TRUE, FALSE), "c1"), F(Nm("D.t.sol", TRUE, TRUE), "c2")>>]]

Lists(cat) == IF cat = "qa" THEN {<<>>, <<"q1">>, <<"zz">>}
              ELSE LET a == MCCatalogue[cat][1]
                       b == MCCatalogue[cat][2]
                   IN {<<>>, <<a>>, <<b, a>>, <<a, a>>, <<a, "zz">>}
Tomls == {[path |-> p, vulnerabilities |-> v, optimizations |-> o, qa |-> q] :
            p \in {"P", "contracts", "Q", "S"}, v \in Lists("vulnerabilities"), o \in Lists("optimizations"), q \in Lists("qa")}
Inputs == {[flag |-> f, toml |-> t, contracts |-> c] :
             f \in {"", "P", "E", "Q", "contracts", "S"}, t \in {<<>>} \cup {<<x>> : x \in Tomls}, c \in BOOLEAN}

\* the machine with the negative controls switched in
BadListOf(i, cat) == IF FallbackAll /\ HasToml(i) /\ Toml(i)[cat] = <<>> THEN MCCatalogue[cat] ELSE ListOf(i, cat)
MCWalk ==
    /\ pc = "walk" /\ k <= 3
    /\ IF Exists(inp, DirOf(inp))
       THEN /\ found' = [found EXCEPT ![Cats[k]] = WalkResult(TreeOf[DirOf(inp)], BadListOf(inp, Cats[k]))]
            /\ k' = k + 1 /\ pc' = (IF k = 3 THEN "render" ELSE "walk") /\ exit' = exit /\ rep' = rep
       ELSE /\ pc' = "aborted" /\ exit' = 101 /\ UNCHANGED <<found, k>>
            /\ rep' = IF WriteOnAbort THEN File("report", <<>>) ELSE rep
    /\ UNCHANGED <<inp, rep0>>
MCNext == ParseOptions \/ MCWalk \/ RenderAndWrite
MCSpec == InitWith(Inputs) /\ [][MCNext]_vars /\ WF_vars(MCNext)

\* duplicates in a configured list: the pattern runs twice and its entries are listed twice -- the end-to-end
\* statement is about the SET of listed names only when no name is repeated
NoRepeat(i) == HasToml(i) => \A c \in SetOf(Cats) : Cardinality(SetOf(Toml(i)[c])) = Len(Toml(i)[c])
EndToEndMC == NoRepeat(inp) => EndToEnd

DumpBehaviour == (pc = "start" /\ NoRepeat(inp)) =>
    PrintT(<<"REPLAY", ToJson([inp |-> inp, rep0 |-> rep0.kind, ok |-> Outcome(inp, rep0).ok,
                               report |-> Outcome(inp, rep0).report.val])>>)
=============================================================================
