------------------------------ MODULE Version ------------------------------
(***************************************************************************)
(* Version gates of the four version-dependent detectors (property C09).   *)
(* A file header is a sequence of pragma directives; exactly one of them is *)
(* `pragma solidity <op><M.m.p>`.  The version of the file is the version   *)
(* of that directive wherever it stands; versions are compared as triples.  *)
(***************************************************************************)
EXTENDS VersionGates, Sequences, FiniteSets

\* Extraction of the version from a header, as a scan over the directives
\* (one step per directive, like the loop in get_solidity_version_from_source_unit).
IsSolidity(p) == p.kind = "solidity"

RECURSIVE ScanFrom(_, _)
ScanFrom(h, i) == IF i > Len(h) THEN <<>>                     \* no solidity pragma: no version
                  ELSE IF IsSolidity(h[i]) THEN h[i].ver
                  ELSE ScanFrom(h, i + 1)
SolVer(h) == ScanFrom(h, 1)

=============================================================================
