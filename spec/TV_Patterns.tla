---------------------------- MODULE TV_Patterns ----------------------------
(***************************************************************************)
(* Trace validation for C05 - C08 (MODE selects the property).  A record is  *)
(* one program (projected tree with line numbers) and, per detector, the     *)
(* lines the real analyze_for_* returned.  For every detector of the mode    *)
(* the reported set must lie between MustLines and MayLines (Patterns.tla).  *)
(***************************************************************************)
EXTENDS RefDetect, Json, IOUtils, SequencesExt

Rec  == ndJsonDeserialize(IOEnv.TRACE)
Mode == IOEnv.MODE

Dets == CASE Mode = "C05" -> C05Detectors [] Mode = "C06" -> C06Detectors
          [] Mode = "C07" -> C07Detectors [] Mode = "C08" -> C08Detectors
          [] OTHER -> C05Detectors \cup C06Detectors \cup C07Detectors \cup C08Detectors \cup LineOnlyDetectors

VARIABLES l, bad, exercised, inconsistent
vars == <<l, bad, exercised, inconsistent>>

\* verdicts of the detectors of the mode that the record carries results for
Bad(r) == {d \in Dets \cap DOMAIN r.results : Verdict(d, r.tree, SetOf(r.results[d])) \in {"missed", "spurious"}}
\* the record exercises the property: some detector of the mode has a canonical occurrence in it
Exercises(r) == \E d \in Dets \cap DOMAIN r.results : MustLines(d, r.tree) # {} /\ Verdict(d, r.tree, SetOf(r.results[d])) # "outside-domain"

Init == l = 1 /\ bad = <<>> /\ exercised = 0 /\ inconsistent = <<>>
Next == /\ l <= Len(Rec)
        /\ l' = l + 1
        /\ LET r == Rec[l]
               B == Bad(r)
               bs == SetToSeq(B)
           IN /\ bad' = IF B = {} \/ Len(bad) >= 400 THEN bad
                        ELSE bad \o [i \in 1 .. Len(bs) |-> <<l, bs[i] \o ":" \o Verdict(bs[i], r.tree, SetOf(r.results[bs[i]]))>>]
              /\ exercised' = IF Exercises(r) THEN exercised + 1 ELSE exercised
              \* the declarative bounds and the reference designs must agree on every tree (else the SPECIFICATION is wrong)
              /\ inconsistent' = IF RefConsistent(r.tree) \/ Len(inconsistent) >= 20 THEN inconsistent ELSE Append(inconsistent, l)
Spec == Init /\ [][Next]_vars
Report == (l = Len(Rec) + 1) => PrintT(<<"TVRESULT", ToJson([n |-> Len(Rec), bad |-> bad, exercised |-> exercised, inconsistent |-> inconsistent])>>)
=============================================================================
