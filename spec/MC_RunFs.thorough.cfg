SPECIFICATION Spec
CONSTANTS
  MaxRuns = 3
  AppendMode = FALSE
  ReadsStale = FALSE
INVARIANTS OnlyReport Overwrite DumpBehaviour
CHECK_DEADLOCK FALSE
