SPECIFICATION Spec
CONSTANTS
  MaxTop = 2
  MaxSub = 2
  Small = FALSE
  Deep = FALSE
  Dump = FALSE
  OverwriteOnReturn = FALSE
INVARIANTS UnionHolds NonEmptySets Inert FoldIsMachine DumpBehaviour
PROPERTY Terminates
CHECK_DEADLOCK FALSE
