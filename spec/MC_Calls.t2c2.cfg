SPECIFICATION Spec
CONSTANTS
  Threads = 2
  CallsPerThread = 2
  SharedScratch = FALSE
INVARIANTS Isolated DumpBehaviour
PROPERTY Terminates
CHECK_DEADLOCK FALSE
