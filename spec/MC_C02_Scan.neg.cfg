SPECIFICATION Spec
CONSTANTS
  MaxLen = 3
  ReturnZeroAtEnd = TRUE
INVARIANTS ScanIsLineOf OneBased DumpBehaviour
PROPERTY Terminates
CHECK_DEADLOCK FALSE
