SPECIFICATION Spec
CONSTANTS
  Sizes = {8,128,248,256}
  MaxLen = 3
  Dump = FALSE
  BadStep = TRUE
INVARIANTS GreedyIsLayout
CHECK_DEADLOCK FALSE
