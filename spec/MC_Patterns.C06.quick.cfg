SPECIFICATION Spec
CONSTANTS
  Prop = "C06"
  Full = FALSE
INVARIANTS WellFormed DumpBehaviour
CHECK_DEADLOCK FALSE
