SPECIFICATION Spec
CONSTANTS
  Prop = "C07"
  Full = TRUE
INVARIANTS WellFormed DumpBehaviour
CHECK_DEADLOCK FALSE
