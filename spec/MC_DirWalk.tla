---------------------------- MODULE MC_DirWalk ----------------------------
(***************************************************************************)
(* The directory walk as an explicit-stack machine over every small tree    *)
(* (every listing order, file and sub-directory interleaving, eligible and  *)
(* ineligible names) and several ordered pattern selections.                 *)
(***************************************************************************)
EXTENDS DirWalk, TLC, Json

CONSTANTS MaxTop, MaxSub, Deep, Small, Dump, OverwriteOnReturn

\* names: two eligible, a Foundry test file, a non-Solidity file, an upper-case extension
N(text, sol, tsol) == [text |-> text, sol |-> sol, tsol |-> tsol]
FileNames == {N("A.sol", TRUE, FALSE), N("B.sol", TRUE, FALSE), N("A.t.sol", TRUE, TRUE)}
             \cup (IF Small THEN {} ELSE {N("notes.txt", FALSE, FALSE)})
\* a directory may be called x.sol or x.t.sol: it is still a directory (descended into, never read as a file)
DirNames  == {N("sub", FALSE, FALSE), N("lib.sol", TRUE, FALSE)}
             \cup (IF Small THEN {} ELSE {N("mocks.t.sol", TRUE, TRUE)})
\* c4 (thorough): a file of pragma and import directives only -- still an eligible file with a finding
Contents  == {"c1", "c2", "c3"} \cup (IF Small THEN {} ELSE {"c4"})
Pats      == {"p1", "p2", "p3"}

\* abstract per-file results with overlapping pattern sets; c3 has no finding at all
Res == [c1 |-> [p1 |-> <<1>>, p2 |-> <<2, 3>>], c2 |-> [p1 |-> <<7>>, p3 |-> <<4>>], c3 |-> [p2 |-> <<>>], c4 |-> [p3 |-> <<2>>]]

File(n, c) == [kind |-> "file", name |-> n, content |-> c]
Dir(n, t)  == [kind |-> "dir", name |-> n, tree |-> t]
Files == {File(n, c) : n \in FileNames, c \in Contents}

DistinctNames(es) == \A i, j \in 1 .. Len(es) : i # j => es[i].name.text # es[j].name.text
SeqsUpTo(S, n) == UNION {[1 .. k -> S] : k \in 0 .. n}
Tree(es) == [entries |-> es]

Leaves == {Tree(es) : es \in {s \in SeqsUpTo(Files, MaxSub) : DistinctNames(s)}}
\* a directory holding files and at most one deeper directory (only when Deep)
Mid == Leaves \cup (IF Deep THEN {Tree(<<f, Dir(N("deep", FALSE, FALSE), l)>>) : f \in Files, l \in {x \in Leaves : Len(x.entries) = 1}}
                                  \cup {Tree(<<Dir(N("deep", FALSE, FALSE), l), f>>) : f \in Files, l \in {x \in Leaves : Len(x.entries) = 1}}
                    ELSE {})
TopEntries == Files \cup {Dir(n, t) : n \in DirNames, t \in Mid}
Roots == {Tree(es) : es \in {s \in SeqsUpTo(TopEntries, MaxTop) : DistinctNames(s)}}

PatLists == {<<"p1">>, <<"p2", "p1">>, <<"p3", "p1", "p2">>}
            \cup (IF Small THEN {} ELSE {<<"p1", "p2">>, <<"p1", "p2", "p3">>})

VARIABLES tree, pats, stack, result, phase
vars == <<tree, pats, stack, result, phase>>

Init == /\ tree \in Roots /\ pats \in PatLists
        /\ stack = <<[todo |-> tree.entries, acc |-> EmptyAcc]>>
        /\ result = EmptyAcc /\ phase = "walk"

Top == stack[Len(stack)]
ReplaceTop(f) == [stack EXCEPT ![Len(stack)] = f]

\* the entry is neither a directory nor an eligible file: nothing is read
SkipEntry == /\ phase = "walk" /\ Top.todo # <<>>
             /\ LET e == Head(Top.todo) IN e.kind = "file" /\ ~Eligible(e.name)
             /\ stack' = ReplaceTop([Top EXCEPT !.todo = Tail(@)])
             /\ UNCHANGED <<tree, pats, result, phase>>

\* an eligible file: every selected pattern is run on it, non-empty results are appended
AnalyseFile == /\ phase = "walk" /\ Top.todo # <<>>
               /\ LET e == Head(Top.todo) IN
                    /\ e.kind = "file" /\ Eligible(e.name)
                    /\ stack' = ReplaceTop([todo |-> Tail(Top.todo), acc |-> AddFile(Top.acc, e, Res, pats)])
               /\ UNCHANGED <<tree, pats, result, phase>>

\* a directory: a new call of analyze_dir
Descend == /\ phase = "walk" /\ Top.todo # <<>>
           /\ LET e == Head(Top.todo) IN
                /\ e.kind = "dir"
                /\ stack' = Append(ReplaceTop([Top EXCEPT !.todo = Tail(@)]),
                                   [todo |-> e.tree.entries, acc |-> EmptyAcc])
           /\ UNCHANGED <<tree, pats, result, phase>>

\* the call returns: its map is merged into the caller's
Return == /\ phase = "walk" /\ Top.todo = <<>> /\ Len(stack) > 1
          /\ LET parent == stack[Len(stack) - 1]
                 merged == IF OverwriteOnReturn THEN Overwrite(parent.acc, Top.acc) ELSE Merge(parent.acc, Top.acc)
             IN stack' = Append(SubSeq(stack, 1, Len(stack) - 2), [parent EXCEPT !.acc = merged])
          /\ UNCHANGED <<tree, pats, result, phase>>

Finish == /\ phase = "walk" /\ Top.todo = <<>> /\ Len(stack) = 1
          /\ result' = Top.acc /\ phase' = "done"
          /\ UNCHANGED <<tree, pats, stack>>

Next == SkipEntry \/ AnalyseFile \/ Descend \/ Return \/ Finish
Spec == Init /\ [][Next]_vars /\ WF_vars(Next)

Done == phase = "done"
UnionHolds    == Done => UnionExact(tree, Res, pats, result)
NonEmptySets  == Done => NoEmptyLineSet(result)
\* C16: ineligible files are inert -- the result equals that of the tree without them
RECURSIVE Prune(_)
Prune(t) == Tree(LET RECURSIVE Go(_)
                     Go(i) == IF i > Len(t.entries) THEN <<>>
                              ELSE LET e == t.entries[i] IN
                                   (IF e.kind = "dir" THEN <<Dir(e.name, Prune(e.tree))>>
                                    ELSE IF Eligible(e.name) THEN <<e>> ELSE <<>>) \o Go(i + 1)
                 IN Go(1))
Inert == Done => UnionExact(Prune(tree), Res, pats, result)
\* the fold by which Solstat.tla abbreviates one call of analyze_dir is this machine's result (same order of entries)
SR == INSTANCE SolstatRun WITH Catalogue <- <<>>, TreeOf <- <<>>
FoldIsMachine == Done => result = SR!WalkResult(tree, pats)
Terminates == <>Done

DumpBehaviour == (Dump /\ phase = "walk" /\ Len(stack) = 1 /\ Top.todo = tree.entries /\ Top.acc = EmptyAcc) =>
                     PrintT(<<"REPLAY", ToJson([tree |-> tree, pats |-> pats])>>)
=============================================================================
