---------------------------- MODULE TV_Solstat ----------------------------
(***************************************************************************)
(* Trace validation of whole runs of the real binary against Solstat.tla.   *)
(* WORLD (JSON): the real catalogue, the directory trees that were           *)
(* materialised and, per content, the line sets the per-file entry points     *)
(* returned in isolation.  One record per run: the input, the kind of report  *)
(* file present before, and what was observed -- exit status, the paths that  *)
(* changed, whether the previous report is still there byte for byte, and     *)
(* the entries read back from the new report.  A run is accepted iff that is  *)
(* exactly Solstat!Outcome(input, before).                                    *)
(***************************************************************************)
EXTENDS Naturals, Sequences, FiniteSets, TLC, Json, IOUtils

World == JsonDeserialize(IOEnv.WORLD)
S == INSTANCE SolstatRun WITH Catalogue <- World.catalogue, TreeOf <- World.trees, Res <- World.res
Rec == ndJsonDeserialize(IOEnv.TRACE)

VARIABLES l, bad
vars == <<l, bad>>

SetOf(s) == {s[i] : i \in 1 .. Len(s)}
BagOfSeq(s) == [x \in SetOf(s) |-> Cardinality({i \in 1 .. Len(s) : s[i] = x})]

\* the observed report: obs.report[cat][pattern] = sequence of <<file, line>>
ObservedValue(o) == [c \in DOMAIN o.report |-> [p \in DOMAIN o.report[c] |-> BagOfSeq(o.report[c][p])]]

Why(r) ==
    LET before == S!File(r.rep0, <<>>)
        out == S!Outcome(r.inp, before)
        o == r.obs
    IN IF \E i \in 1 .. Len(o.changed) : o.changed[i] # o.report_path THEN "other-path-changed"
       ELSE IF out.ok /\ o.exit # 0 THEN "valid-run-failed"
       ELSE IF ~out.ok /\ o.exit = 0 THEN "invalid-run-succeeded"
       ELSE IF ~out.ok THEN (IF o.report_unchanged THEN "" ELSE "abort-touched-report")
       ELSE IF ~o.report_present \/ o.report_unchanged THEN "no-report-written"
       ELSE IF o.garbage THEN "report-unreadable"
       ELSE IF DOMAIN ObservedValue(o) # DOMAIN out.report.val THEN "wrong-categories"
       ELSE IF \E c \in DOMAIN out.report.val : DOMAIN ObservedValue(o)[c] # DOMAIN out.report.val[c] THEN "wrong-patterns"
       ELSE IF ObservedValue(o) # out.report.val THEN "wrong-entries"
       ELSE ""

Init == l = 1 /\ bad = <<>>
Next == /\ l <= Len(Rec) /\ l' = l + 1
        /\ LET w == Why(Rec[l]) IN bad' = IF w = "" \/ Len(bad) >= 100 THEN bad ELSE Append(bad, <<l, w>>)
Spec == Init /\ [][Next]_vars
Report == (l = Len(Rec) + 1) => PrintT(<<"TVRESULT", ToJson([n |-> Len(Rec), bad |-> bad])>>)
=============================================================================
