SPECIFICATION Spec
CONSTANTS
  Prop = "C05"
  Full = TRUE
INVARIANTS WellFormed DumpBehaviour
CHECK_DEADLOCK FALSE
