SPECIFICATION Spec
CONSTANTS
  Prop = "C07"
  Full = FALSE
INVARIANTS WellFormed DumpBehaviour
CHECK_DEADLOCK FALSE
