---------------------------- MODULE SolstatRun ----------------------------
(***************************************************************************)
(* Vocabulary of the whole run of the binary (src/main.rs), shared by the   *)
(* state machine Solstat.tla and the trace specification TV_Solstat.tla:     *)
(*                                                                          *)
(*   start --ParseOptions--> walk(vulnerabilities) --> walk(optimizations)  *)
(*         \                 --> walk(qa) --Render--> --Write--> written     *)
(*          `--> aborted                                                     *)
(*                                                                          *)
(* It composes the component specifications -- option resolution (Config),  *)
(* the directory walk (DirWalk), the report (Report) and the file-system     *)
(* footprint (RunFs) -- so that TLC can check END-TO-END statements none of   *)
(* them makes alone: what is in solstat_report.md afterwards is exactly the   *)
(* findings of the listed patterns on the eligible files of the directory     *)
(* that the options name, whatever report was there before, and a run that    *)
(* aborts leaves the file system as it found it.                              *)
(*                                                                          *)
(* The world of a run:                                                       *)
(*   Catalogue  category -> sequence of documented pattern names             *)
(*   TreeOf     directory name -> tree (DirWalk format) ; a name outside its  *)
(*              domain does not exist                                        *)
(*   Res        content -> pattern -> line sequence (per-file entry point)    *)
(* An input is [flag, toml, contracts] as in Config.tla, with configured      *)
(* names given directly by their lower-cased spelling.                        *)
(* The report file of the working directory is [kind, val] with kind         *)
(* "absent", "stale" (anything left by an earlier run) or "report" and val a  *)
(* report value [category -> pattern -> bag of <<file, line>>] restricted to  *)
(* non-empty parts: the BYTES are a function of that value (Report.tla, C13), *)
(* so the value stands for them here.                                         *)
(***************************************************************************)
EXTENDS Naturals, Sequences, FiniteSets

CONSTANTS Catalogue, TreeOf, Res

D == INSTANCE DirWalk

Cats == <<"vulnerabilities", "optimizations", "qa">>
SetOf(s) == {s[i] : i \in 1 .. Len(s)}
Documented(cat) == SetOf(Catalogue[cat])

\* ---- option resolution (Config.tla, restated over plain names) ----------------------------
HasToml(inp) == inp.toml # <<>>
Toml(inp) == inp.toml[1]
AllKnown(inp) == \A k \in 1 .. 3 : SetOf(Toml(inp)[Cats[k]]) \subseteq Documented(Cats[k])
Aborts(inp) == \/ HasToml(inp) /\ ~AllKnown(inp)
               \/ ~HasToml(inp) /\ inp.flag = "" /\ ~inp.contracts
DirOf(inp) == IF inp.flag # "" THEN inp.flag ELSE IF HasToml(inp) THEN Toml(inp).path ELSE "contracts"
\* the pattern LIST handed to analyze_dir (order as configured / as get_all_* returns it)
ListOf(inp, cat) == IF HasToml(inp) THEN Toml(inp)[cat] ELSE Catalogue[cat]

\* ./contracts exists iff the input says so; any other directory iff the world has it
Exists(i, d) == d \in DOMAIN TreeOf /\ (d = "contracts" => i.contracts)

\* ---- one call of analyze_dir: the result of the walk machine of MC_DirWalk, as a fold ------
RECURSIVE WalkResult(_, _)
WalkResult(t, pats) ==
    LET RECURSIVE Go(_, _)
        Go(i, acc) == IF i > Len(t.entries) THEN acc
                      ELSE LET e == t.entries[i] IN
                           Go(i + 1, IF e.kind = "dir" THEN D!Merge(acc, WalkResult(e.tree, pats))
                                     ELSE IF D!Eligible(e.name) THEN D!AddFile(acc, e, Res, pats)
                                     ELSE acc)
    IN Go(1, D!EmptyAcc)

\* ---- the report value of three findings maps (generate_report) -----------------------------
\* one <<file, line>> per 'file:line' entry of the report
RECURSIVE LinesOfEntry(_, _, _)
LinesOfEntry(f, ls, i) == IF i > Len(ls) THEN <<>> ELSE <<<<f, ls[i]>>>> \o LinesOfEntry(f, ls, i + 1)
RECURSIVE FlatLines(_, _)
FlatLines(es, i) == IF i > Len(es) THEN <<>> ELSE LinesOfEntry(es[i][1], es[i][2], 1) \o FlatLines(es, i + 1)
\* (an entry without lines is no finding, a pattern without findings has no section: Report.tla, Reported)
PartOf(F) == [p \in {q \in DOMAIN F : FlatLines(F[q], 1) # <<>>} |-> D!BagOfSeq(FlatLines(F[p], 1))]
ReportOf(found) == [c \in {x \in SetOf(Cats) : DOMAIN PartOf(found[x]) # {}} |-> PartOf(found[c])]

File(kind, val) == [kind |-> kind, val |-> val]

\* END-TO-END statements
Selected(i, cat) == IF HasToml(i) THEN SetOf(Toml(i)[cat]) ELSE Documented(cat)
\* what must be in the report: for every selected pattern with a finding somewhere beneath the directory,
\* the bag of <<file, lines>> of the eligible files -- nothing about listing order, list order or the old report
ExpectedPart(i, cat) ==
    LET t == TreeOf[DirOf(i)]
        ps == {p \in Selected(i, cat) : D!Expected(t, Res, p) # <<>>}
    IN [p \in ps |-> D!BagOfSeq(FlatLines(D!Expected(t, Res, p), 1))]
ExpectedReport(i) ==
    [c \in {x \in SetOf(Cats) : DOMAIN ExpectedPart(i, x) # {}} |-> ExpectedPart(i, c)]

\* the complete outcome of a run, as a function of input and world alone
Outcome(i, before) ==
    IF Aborts(i) \/ ~Exists(i, DirOf(i))
    THEN [ok |-> FALSE, report |-> before]
    ELSE [ok |-> TRUE, report |-> File("report", ExpectedReport(i))]

=============================================================================
