----------------------------- MODULE MC_Config -----------------------------
(***************************************************************************)
(* Option resolution as a machine (parse arguments, read the configuration, *)
(* resolve the names one by one, choose the directory, analyse, write) over  *)
(* a family of inputs, with the design properties of C14; prints every       *)
(* input for the driver to run the real binary on.                           *)
(***************************************************************************)
EXTENDS Config, TLC

CONSTANTS Small

Casings == {"lower", "upper", "title", "mixed"}
Nm(b, c) == [base |-> b, casing |-> c]
UnknownBases == {"", "unknown_pattern", "address-zero", "addresszero", "address_zero2", "sstore "}
\* a name that belongs to another category is unknown where it stands
Foreign(cat) == IF cat = "optimizations" THEN "floating_pragma" ELSE "address_zero"

Lists(cat) ==
    LET names == Catalogue[cat]
        n == Len(names)
    IN  {<<>>}
        \cup {<<Nm(names[i], c)>> : i \in 1 .. n, c \in Casings}
        \cup {<<Nm(names[i], "lower"), Nm(names[i + 1], "upper")>> : i \in 1 .. (n - 1)}
        \cup {<<Nm(names[i + 1], "lower"), Nm(names[i], "lower")>> : i \in 1 .. (n - 1)}
        \cup {[i \in 1 .. n |-> Nm(names[i], "lower")], [i \in 1 .. n |-> Nm(names[n + 1 - i], "mixed")]}
        \cup {<<Nm(u, "lower")>> : u \in UnknownBases \cup {Foreign(cat)}}
        \cup {<<Nm(names[1], "lower"), Nm("unknown_pattern", "lower")>>, <<Nm("unknown_pattern", "lower"), Nm(names[1], "lower")>>}
        \* an unknown name at the end, in the middle and at the head of a list that names EVERY pattern of the category
        \* (nothing is left to select by then -- the name is unknown all the same), also behind a repeated name
        \cup (LET full == [i \in 1 .. n |-> Nm(names[i], IF i % 2 = 0 THEN "lower" ELSE "upper")]
                  unk == Nm("unknown_pattern", "lower")
              IN {Append(full, unk), <<unk>> \o full, SubSeq(full, 1, n - 1) \o <<unk, full[n]>>,
                  full \o <<full[1], Nm(Foreign(cat), "lower")>>})

TomlOf(path, o, v, q) == <<[path |-> path, optimizations |-> o, vulnerabilities |-> v, qa |-> q]>>
First(cat) == <<Nm(Catalogue[cat][1], "lower")>>

\* one category varies, the others are empty or hold their first name
Tomls == {TomlOf("T", o, <<>>, <<>>) : o \in Lists("optimizations")}
         \cup {TomlOf("T", <<>>, v, <<>>) : v \in Lists("vulnerabilities")}
         \cup {TomlOf("T", <<>>, <<>>, q) : q \in Lists("qa")}
         \cup {TomlOf("T", First("optimizations"), v, First("qa")) : v \in Lists("vulnerabilities")}
         \cup {TomlOf("T", o, First("vulnerabilities"), First("qa")) : o \in {l \in Lists("optimizations") : Len(l) >= 2}}

Inputs == {[flag |-> f, toml |-> t, contracts |-> c] :
              f \in {"", "P"}, t \in {<<>>} \cup Tomls, c \in (IF Small THEN {TRUE} ELSE BOOLEAN)}
          \cup {[flag |-> f, toml |-> <<>>, contracts |-> FALSE] : f \in {"", "P"}}
          \cup {[flag |-> "", toml |-> TomlOf("T", First("optimizations"), <<>>, <<>>), contracts |-> FALSE]}
          \* the default directory named explicitly: an explicit --path still wins over the configuration file,
          \* and a configuration file that names ./contracts is obeyed like any other
          \cup {[flag |-> "./contracts", toml |-> t, contracts |-> TRUE]
                  : t \in {<<>>, TomlOf("T", First("optimizations"), First("vulnerabilities"), First("qa")),
                           TomlOf("T", <<>>, First("vulnerabilities"), <<>>)}}
          \cup {[flag |-> f, toml |-> TomlOf("./contracts", First("optimizations"), First("vulnerabilities"), First("qa")), contracts |-> TRUE]
                  : f \in {"", "P"}}

VARIABLES inp, pc, k, i, selected, dir, written
vars == <<inp, pc, k, i, selected, dir, written>>

Init == /\ inp \in Inputs
        /\ pc = "config" /\ k = 1 /\ i = 1 /\ dir = "" /\ written = FALSE
        /\ selected = [c \in SetOf(Cats) |-> {}]

\* no --toml: every documented pattern; with --toml: resolve the listed names one by one
ReadConfig == /\ pc = "config"
              /\ IF HasToml(inp) THEN pc' = "names" /\ UNCHANGED selected
                 ELSE pc' = "dir" /\ selected' = [c \in SetOf(Cats) |-> Documented(c)]
              /\ UNCHANGED <<inp, k, i, dir, written>>
ResolveName == /\ pc = "names" /\ k <= 3 /\ i <= Len(Toml(inp)[Cats[k]])
               /\ LET n == Toml(inp)[Cats[k]][i] IN
                  IF Known(Cats[k], n)
                  THEN /\ selected' = [selected EXCEPT ![Cats[k]] = @ \cup {n.base}]
                       /\ i' = i + 1 /\ UNCHANGED pc
                  ELSE pc' = "aborted" /\ UNCHANGED <<selected, i>>
               /\ UNCHANGED <<inp, k, dir, written>>
NextList == /\ pc = "names" /\ k <= 3 /\ i > Len(Toml(inp)[Cats[k]])
            /\ k' = k + 1 /\ i' = 1
            /\ pc' = IF k = 3 THEN "dir" ELSE pc
            /\ UNCHANGED <<inp, selected, dir, written>>
ChooseDir == /\ pc = "dir"
             /\ IF inp.flag = "" /\ ~HasToml(inp) /\ ~inp.contracts
                THEN pc' = "aborted" /\ UNCHANGED dir
                ELSE dir' = DirOf(inp) /\ pc' = "write"
             /\ UNCHANGED <<inp, k, i, selected, written>>
Write == /\ pc = "write" /\ written' = TRUE /\ pc' = "done"
         /\ UNCHANGED <<inp, k, i, selected, dir>>

Next == ReadConfig \/ ResolveName \/ NextList \/ ChooseDir \/ Write
Spec == Init /\ [][Next]_vars /\ WF_vars(Next)

\* design properties
UnknownAbortsBeforeWrite == (pc = "aborted") => ~written
AbortIff      == (pc = "aborted") => Aborts(inp)
DoneIff       == (pc = "done") => /\ ~Aborts(inp) /\ written /\ dir = DirOf(inp)
                                  /\ \A c \in SetOf(Cats) : selected[c] = Selected(inp, c)
DirPrecedence == (pc = "done") => dir = (IF inp.flag # "" THEN inp.flag ELSE IF HasToml(inp) THEN Toml(inp).path ELSE "./contracts")
\* distinct documented names select distinct patterns: names are their own patterns in the model;
\* the implementation side (str_to_* injective on the catalogue, get_all_* covered) is checked by the driver
Terminates == <>(pc \in {"done", "aborted"})

DumpBehaviour == (pc = "config") => PrintT(<<"REPLAY", ToJson([input |-> inp, aborts |-> Aborts(inp)])>>)
=============================================================================
