SPECIFICATION Spec
CONSTANTS
  Full = TRUE
INVARIANTS WellFormed DumpBehaviour
CHECK_DEADLOCK FALSE
