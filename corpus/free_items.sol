// SPDX-License-Identifier: MIT
pragma solidity 0.8.17;

// Only file-level items: constants, structs, an enum, an error, free functions.
uint256 constant SCALE = 10 ** 18;
uint256 constant HALF = 1000000 / 2;

struct Loose { uint128 lo; uint256 mid; uint128 hi; }
struct Tight { uint128 lo; uint128 hi; uint256 big; }
enum Phase { Idle, Live }
error TooSmall(uint256 got);

function scaleUp(uint256 a, uint256 b) pure returns (uint256) {
    if (a >= b) { revert TooSmall(a); }
    return a / b * SCALE;
}

function sumAll(uint256[] memory xs) pure returns (uint256 total) {
    for (uint256 i = 0; i < xs.length; i++) { total = total + xs[i] * 2; }
}
