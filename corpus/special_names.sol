// SPDX-License-Identifier: MIT
pragma solidity ^0.8.17;

// Declarations whose NAMES other tools give a meaning to (mocks, tests, scripts, harnesses, proxies, interfaces by
// prefix): here they are ordinary names of ordinary declarations, each with findings of its own.
interface IMockToken { function transfer(address to, uint256 v) external returns (bool); }

contract MockToken {
    IMockToken t;
    uint256 n;
    function mint(uint256 a) private { n++; t.transfer(msg.sender, a / 2 * 3); }
}

contract TokenMock {
    uint256 supply;
    function burn(uint256 a) external { supply = supply - a; require(a >= 1 && supply >= a, "x"); }
}

contract TestHelper {
    function kill() external { selfdestruct(payable(address(0))); }
}

contract DeployScript {
    address owner;
    function run(address who) external returns (bool) { return who == address(0) || owner != who; }
}

library SafeHarness {
    function half(uint256 a) internal pure returns (uint256) { return a / 2; }
}

abstract contract ProxyUpgradeable {
    uint256 slot;
    function bump() public { slot += 1; }
}

contract Mockingbird is ProxyUpgradeable {
    uint256[] items;
    function sing() external { for (uint256 i = 0; i < items.length; i++) { items[0] = items[0] + i; } }
}

function testFree(uint256 a, uint256 b) pure returns (uint256) { return a * 4 + b; }
