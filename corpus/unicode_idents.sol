// SPDX-License-Identifier: MIT
pragma solidity 0.8.17;

// Identifiers outside ASCII (the lexer accepts Unicode XID): every reported location below BEGINS with one.
interface IJeton { function transfer(address to, uint256 v) external returns (bool); }

contract Ünit {
    uint256 private été;
    uint256 public _ñu = 3;
    address public ñ;
    uint256[] public données;
    IJeton jeton;

    constructor(address départ) {
        ñ = départ;
    }

    function _öffentlich(uint256 é, uint256 ü) public returns (uint256) {
        if (ñ != address(0)) {
            été = é + 1;
        }
        if (é >= ü) {
            é++;
        }
        for (uint256 ï = 0; ï < données.length; ï++) {
            données[0] = données[0] + é;
        }
        jeton.transfer(ñ, é / ü * 2);
        require(é > 0 && ü > 0, "positif");
        bool où = true;
        if (où == true) {
            return é * 4;
        }
        return keccak256(abi.encode(é)).length;
    }

    function privé() private {
        selfdestruct(payable(msg.sender));
    }
}
