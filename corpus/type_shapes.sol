// SPDX-License-Identifier: MIT
pragma solidity 0.8.17;

// Every way a type can be written, in every place a declaration can stand.
type Price is uint128;

library Counters { struct Counter { uint256 value; } enum Mode { Up, Down } }
interface IPool { enum Kind { A, B } struct Slot { uint128 lo; uint128 hi; } function kind() external returns (Kind); }

struct Route { uint128 a; IPool.Kind kind; uint128 b; Counters.Counter hits; Price fee; }

contract TypeShapes {
    Counters.Counter private _tokenIds;
    IPool.Kind public poolKind;
    uint128 small;
    Counters.Mode mode;
    uint128 other;
    IPool.Slot[] public slots;
    IPool.Kind[2] pair;
    mapping(address => Counters.Counter) private perUser;
    mapping(IPool.Kind => mapping(uint256 => IPool.Slot[])) nested;
    function(uint256) external returns (uint256) callback;
    function(IPool.Kind) internal pure returns (Counters.Mode) private chooser;
    Price public unitPrice;
    address payable public sink;
    bytes1 tag;
    string public label;
    uint[] dyn;
    uint256[3][] grid;

    struct Inner { IPool.Kind k; uint8 x; Counters.Counter c; uint8 y; function() external f; }

    event Seen(IPool.Kind indexed kind, Counters.Mode mode);
    error Bad(IPool.Slot slot);

    function use(IPool.Kind k, Counters.Counter memory c, IPool.Slot[] calldata many) external returns (IPool.Kind, Counters.Mode) {
        IPool.Kind local = k;
        Counters.Counter storage mine = perUser[msg.sender];
        mine.value = c.value + many.length;
        Price p = Price.wrap(uint128(mine.value));
        unitPrice = p;
        return (local, Counters.Mode.Up);
    }

    // several memory parameters, one per line: each is a finding of its own, every time
    function many(
        uint256[] memory xs,
        bytes memory blob,
        string memory note,
        IPool.Slot[] memory slotsIn
    ) external returns (uint256) {
        return xs.length + blob.length + bytes(note).length + slotsIn.length;
    }
}
