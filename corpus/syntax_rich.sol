// SPDX-License-Identifier: MIT
pragma solidity 0.8.17;
pragma abicoder v2;

import "./Other.sol";
import {A as B, C} from "./Lib.sol";
import * as Everything from "./All.sol";

type Price is uint128;

error Unauthorized(address who, uint256 code);
event Moved(address indexed from, address indexed to, uint256 amount) anonymous;

enum Phase { Idle, Running, Done }

struct Point { uint128 x; uint128 y; }

uint256 constant FILE_LEVEL = 10 ** 18;

using Math for uint256 global;

function freeHelper(uint256 a, uint256 b) pure returns (uint256) {
    return a > b ? a - b : b - a;
}

interface IThing {
    function poke(uint256 v) external returns (bool ok);
    function peek() external view returns (uint256, address);
}

library Math {
    function twice(uint256 a) internal pure returns (uint256) { return a * 2; }
}

abstract contract Base {
    uint256 internal baseValue;
    constructor(uint256 v) { baseValue = v; }
    modifier onlyPositive(uint256 v) { require(v > 0, "positive"); _; }
    function hook() internal virtual;
}

contract Rich is Base(7 + 1), IThing {
    using Math for uint256;

    mapping(address => mapping(uint256 => bool)) private seen;
    uint256[] public items;
    uint256 public total = 2 ** (3 + 1);
    address payable owner;
    function(uint256) external returns (bool) callback;
    Point origin;
    Phase phase;
    bytes32 immutable salt;
    ;

    event Local(uint256 v);
    error Local2(uint256 v);
    struct Inner { bool flag; Point p; }
    enum Side { Left, Right }
    type Id is uint64;

    constructor(uint256 start, bytes32 s) Base(start * 2) onlyPositive(start + 1) {
        salt = s;
        total = start;
    }

    receive() external payable {}
    fallback() external payable { total += msg.value; }

    function hook() internal override {
        unchecked { ++total; total--; }
    }

    function poke(uint256 v) external override onlyPositive(v - 1) returns (bool ok) {
        uint256 i = 0;
        for (uint256 j = 0; j < items.length; j++) {
            if (items[j] == v) { continue; } else if (items[j] > v) break;
            i += items[j] ** 2;
        }
        for (;;) { break; }
        for (i = 0; i < 3; ++i) seen[msg.sender][i] = true;
        while (i > 0) { i--; }
        do { i++; } while (i < 10 && !(i == 7));
        (uint256 a, , address b) = peek2();
        (a, b) = (1, address(0));
        uint256[3] memory fixedArr = [uint256(1), 2, v];
        bytes memory data = abi.encodeWithSelector(this.poke.selector, v);
        bytes memory slice = data[1:];
        slice = data[:2];
        slice = data[1:2];
        ok = a >= 1 ? true : false;
        try this.peek() returns (uint256 x, address y) {
            total = x + uint160(y);
        } catch Error(string memory reason) {
            total = bytes(reason).length;
            total++;
        } catch (bytes memory low) {
            total = low.length * 2;
        }
        try new Helper{salt: salt, value: 1 wei}(v) returns (Helper h) { owner = payable(address(h)); } catch { total = 1 + 2; }
        emit Local(v + 1);
        if (v > 100) revert Local2({v: v * 3});
        if (v > 50) revert Unauthorized(msg.sender, v / 2);
        if (v > 40) revert("plain");
        delete items;
        owner.transfer(address(this).balance);
        (bool sent, ) = owner.call{value: 1 ether, gas: 5000}("");
        callback = this.poke;
        Point memory p = Point({x: 1, y: uint128(v)});
        origin = Point(1, 2);
        total = ~total & 0xff | (total ^ 3) << 2 >> 1;
        total = -int256(total) < 0 ? 1 days : 2 weeks + 3 hours;
        total = 1_000 + 1e3 + 2.5e1 + 0x10 + hex"deadbeef".length + "ab" "cd".length + unicode"é".length;
        total = type(uint256).max % (v + 1);
        assembly { let c := add(total, div(v, 2)) sstore(0, c) }
        assembly "evmasm" ("memory-safe") { mstore(0, keccak256(0, 64)) }
        return sent || ok;
    }

    function peek() external view returns (uint256, address) { return (total, owner); }
    function peek2() internal view returns (uint256, uint256, address) { return (total, 2, owner); }
    function noBody(uint256) external;
    function old() public constant returns (uint x) { x = now_(); }
    function now_() private pure returns (uint) { return 1; }
    function namedCall() public { this.poke{gas: 1}({v: 3}); }
}

contract Helper { constructor(uint256 v) payable {} }
