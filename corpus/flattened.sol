// SPDX-License-Identifier: MIT
pragma solidity ^0.8.0;

// A "flattened" source: the files of a project pasted one after the other, each with its own header, so that
// pragma and import directives FOLLOW definitions.
library MathLib {
    function half(uint256 x) internal pure returns (uint256) { return x / 2; }
}

// File: contracts/Base.sol
pragma solidity ^0.8.0;
import "./MathLib.sol";

abstract contract Base {
    uint256 internal counter;
    function bump() public virtual { counter++; }
}

// File: contracts/Main.sol
pragma solidity 0.8.17;
pragma abicoder v2;
import {Base} from "./Base.sol";

contract Main is Base {
    using MathLib for uint256;
    function run(uint256 v) external returns (uint256) {
        require(v > 0, "zero");
        return v.half() * 4;
    }
}

// File: contracts/Late.sol
pragma solidity >=0.8.4;
import * as L from "./Lib.sol";
