// SPDX-License-Identifier: MIT
pragma solidity ^0.8.17;

// Text outside ASCII in every item (comments, string literals, NatSpec): a byte offset is not a character offset,
// and every finding below stands after such text, most of them at the very end of their line.

interface IERC20 {
    /// @notice 送金する — перевод — تحويل
    function transfer(address to, uint256 amount) external returns (bool);
    function approve(address spender, uint256 amount) external returns (bool);
    function transferFrom(address from, address to, uint256 amount) external returns (bool);
}

/* 日本語のコメントです、これは長いコメントです。絵文字 😀😀😀😀 も含みます。 */
library Ünïcode {
    // ÄÖÜ äöü ß — ελληνικά — 中文注释
    function half(uint256 a, uint256 b, uint256 c) internal pure returns (uint256) {
        return a / b * c;
    }
}

contract First {
    string public greeting = unicode"こんにちは世界、これは三十二バイトより長い";
    IERC20 token;
    address owner;
    // ここで selfdestruct(payable(msg.sender)) と書いてもコメントです
    function pay(address to, uint256 v) external {
        token.transfer(to, v);
    }
    function grant(address to, uint256 v) external {
        token.approve(to, v);
    }
}

/// @title 二番目 — второй — الثاني
contract Second {
    IERC20 token;
    uint256 rate;
    function pull(address from, uint256 v) external {
        /* 🚀🚀🚀🚀🚀🚀🚀🚀 */ token.transferFrom(from, address(this), v);
    }
    function price(uint256 a, uint256 b) external view returns (uint256) {
        return a / rate * b;
    }
    function close() external {
        selfdestruct(payable(msg.sender));
    }
}

/* ── 注意 ── 以下の構造体は並べ替えで一スロット節約できます ── ✦✦✦✦✦✦✦✦ */
struct LooseAfter { uint128 lo; uint256 mid; uint128 hi; }
struct TightAfter { uint128 lo; uint128 hi; uint256 mid; }
contract PackedAfter { uint128 a; uint256 b; uint128 c; }
contract OptimalAfter { uint128 a; uint128 c; uint256 b; }

// 最後 — конец
function freeHalf(uint256 a, uint256 b) pure returns (uint256) {
    return a / 2 * b;
}
