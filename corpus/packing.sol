// SPDX-License-Identifier: MIT
pragma solidity 0.8.17;

// containers with assorted member types for the storage-slot model (C10)
struct Loose {
    uint8 a;
    uint256 b;
    uint8 c;
}

struct Tight {
    uint128 a;
    uint128 b;
    uint256 c;
}

struct Mixed {
    bool flag;
    address owner;
    bytes32 root;
    uint64 stamp;
    bytes4 sel;
}

contract Vault {
    uint8 small;
    mapping(address => uint256) balances;
    bool paused;
    address payable beneficiary;
    uint96 fee;
    string name;
    bytes20 tag;
    uint16[] history;

    struct Position {
        int24 tickLower;
        int24 tickUpper;
        uint128 liquidity;
        uint256 feeGrowth;
        address operator;
        bool active;
    }

    struct Single {
        uint256 only;
    }
}

contract Ordered {
    uint256 a;
    uint128 b;
    uint128 c;
    bool d;
}

library Lib {
    struct Pair {
        bytes1 x;
        bytes31 y;
    }
}

interface IEmpty {}

contract Nine {
    uint64 a; uint64 b; uint64 c; uint64 d; uint128 e; uint128 f; uint8 g; uint256 h; uint8 i;
}
