// SPDX-License-Identifier: MIT
pragma solidity 0.8.17;

interface IOracle { function read(uint256 k) external returns (uint256); function poke() external; }

// The same occurrences of the patterns in the three places a `try` statement gives them: the success block of a try
// WITHOUT a returns clause (solang attaches it to the call expression), the success block WITH a returns clause, and
// the catch clauses.
contract TryShapes {
    uint256[] public vals;
    address public keeper;
    IOracle oracle;
    bool flag;

    function bare(uint256 a, uint256 b) public {
        try oracle.poke() {
            uint256 c = a + b;
            c++;
            if (a >= b) { vals[0] = vals[0] + c; }
            require(a > 0 && b > 0, "both");
            if (keeper != address(0)) { flag = flag == true; }
            for (uint256 i = 0; i < vals.length; ++i) { c = c * 4; }
            bytes32 h = keccak256(abi.encode(c));
            uint256 bal = address(this).balance;
        } catch {
            uint256 d = a - b;
            d--;
        }
    }

    function withReturns(uint256 a, uint256 b) public {
        try oracle.read(a) returns (uint256 r) {
            uint256 c = r + b;
            c++;
            if (r <= b) { vals[1] = vals[1] * c; }
        } catch Error(string memory reason) {
            require(a > 1 && b > 1, reason);
        } catch (bytes memory) {
            uint256 e = a / 8;
            e++;
        }
    }

    function nested(uint256 a) public {
        try oracle.poke() {
            try oracle.read(a) returns (uint256 r) {
                vals[2] = vals[2] - r;
            } catch {
                a++;
            }
        } catch {}
    }

    // the one exempt form of increment_decrement: prefix ++ / -- inside an unchecked block (postfix is not exempt)
    function counted(uint256 n) public {
        for (uint256 i = 0; i < n; ) {
            unchecked { ++i; }
        }
        unchecked {
            --n;
            n++;
            { ++n; }
        }
        ++n;
        unchecked { n--; } --n;
    }
}
