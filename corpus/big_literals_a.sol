// SPDX-License-Identifier: MIT
pragma solidity 0.8.17;

// Powers of two beyond 128 bits (and their neighbours), longest literals first.
contract BigLiteralsA {
    function f(uint256 x) external pure returns (uint256) {
        uint256 a = x / 57896044618658097711785492504343953926634992332820282019728792003956564819968;
        uint256 b = x * 1606938044258990275541962092341162602522202993782792835301376;
        uint256 c = x * 1361129467683753853853498429727072845824;
        uint256 d = x * 1606938044258990275541962092341162602522202993782792835313721;
        return a + b + c + d;
    }
}
