// SPDX-License-Identifier: MIT
pragma solidity 0.8.17;

// Function-like definitions WITHOUT a name: what follows the keyword is `(`, and nothing else identifies them.
contract Unnamed {
    uint256 public n;

    constructor() public { n = 1; }

    fallback() external { n++; }

    receive() external payable { n += 2; }
}

contract UnnamedToo {
    uint256 public m;

    fallback(bytes calldata data) external returns (bytes memory) { m = data.length; return data; }
}

abstract contract Declared {
    constructor() { }
    fallback() external virtual;
}
