// SPDX-License-Identifier: MIT
pragma solidity 0.8.17;

// Every way of updating an array element in place: the element as left and as right operand, parenthesised, with every
// operator, with literal and variable indexes, the arrays and indexes differing.
contract UpdateForms {
    uint256[] vals;
    uint256[] other;
    uint256[][] grid;

    function left(uint256 x, uint256 i) external {
        vals[0] = vals[0] + x;
        vals[1] = vals[1] - x;
        vals[2] = vals[2] * x;
        vals[3] = vals[3] / x;
        vals[4] = vals[4] % x;
        vals[5] = vals[5] << x;
        vals[6] = vals[6] >> x;
        vals[7] = vals[7] & x;
        vals[8] = vals[8] | x;
        vals[9] = vals[9] ^ x;
        vals[i] = vals[i] + x;
    }

    function right(uint256 x, uint256 i) external {
        vals[0] = x + vals[0];
        vals[1] = grid[1][0] + vals[1];
        vals[2] = (vals[2] + x);
        vals[3] = x * (vals[3]);
        vals[i] = x + vals[i];
    }

    function apart(uint256 x) external {
        vals[0] = vals[1] + x;
        vals[1] = other[1] + x;
        other[2] = x + vals[2];
        vals[3] = x;
        vals[4] += x;
        vals[12] = other[2] + vals[1];
    }
}
