// SPDX-License-Identifier: MIT
pragma solidity 0.8.17;

// Signatures and selectors written as STRINGS (low-level calls, events, hashes): text, not member accesses.
contract LowLevelCalls {
    event Log(string what);

    function viaSignature(address token, address to, uint256 v) external returns (bool ok) {
        (ok, ) = token.call(abi.encodeWithSignature("transfer(address,uint256)", to, v));
    }

    function viaSelector(address token, address to, uint256 v) external returns (bool ok) {
        (ok, ) = token.call(abi.encodeWithSelector(bytes4(keccak256("approve(address,uint256)")), to, v));
    }

    function note() external {
        emit Log("transferFrom(address,address,uint256)");
        emit Log("selfdestruct(payable(msg.sender)); x++; a / b * c");
    }

    function digest() external pure returns (bytes32) {
        return keccak256("transfer(address,uint256)");
    }
}
