// SPDX-License-Identifier: MIT
pragma solidity ^0.7.6;
// vendored from @openzeppelin/contracts@4.8.3 (audited at v0.8.19)

interface IERC20Like {
    function transfer(address to, uint256 value) external returns (bool);
}

library SafeMath {
    function add(uint256 a, uint256 b) internal pure returns (uint256) {
        return a;
    }
}

struct LooseRecord {
    uint8 small;
    uint256 big;
    uint8 tiny;
}

contract OldWitness {
    using SafeMath for uint256;

    uint8 first;
    uint256 second;
    uint8 third;
    uint256 neverWritten;
    uint256 setOnce;
    uint256 public constant LIMIT = 10;
    uint256 private plain;
    uint256[] values;
    IERC20Like token;

    function before() public {
        plain = 1;
    }

    constructor(uint256 initial) {
        setOnce = initial;
    }

    function _exposed(uint256[] memory data, uint256 a, uint256 b) public returns (uint256) {
        require(a > 0 && b > 0, "both arguments must be strictly positive numbers");
        if (a == 0 || msg.sender == address(0)) {
            return 0;
        }
        bool ok = true;
        if (ok == true) {
            values[0] = values[0] + a;
        }
        for (uint256 i = 0; i < data.length; i++) {
            b = b.add(a) * 4;
        }
        if (a >= b) {
            b = a / b * 3;
        }
        bytes32 h = keccak256(abi.encode(a));
        token.transfer(msg.sender, address(this).balance);
        return b;
    }

    function destroy() public {
        selfdestruct(payable(address(token)));
    }
}

// last reviewed against solc 0.8.21
