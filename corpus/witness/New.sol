// SPDX-License-Identifier: MIT
pragma solidity 0.8.17;
// ported from the 0.6.12 code base, see CHANGELOG 0.4.26 -> 0.7.6

library SafeMath {
    function sub(uint256 a, uint256 b) internal pure returns (uint256) {
        return a;
    }
}

contract NewWitness {
    using SafeMath for uint256;

    uint256 counter;

    function run(uint256 a, uint256 b) external returns (uint256) {
        require(a > b, "a must exceed b");
        counter = a.sub(b);
        return counter;
    }
}

// schema 0.1.0
