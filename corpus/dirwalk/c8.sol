// SPDX-License-Identifier: MIT
pragma solidity 0.8.17;

// The same state-variable names in several contracts of one file (each contract has its own).
contract Left {
    address private owner;
    uint256 public LIMIT = 10;

    constructor() { owner = msg.sender; }
}

contract Right {
    uint256 fee;

    address private owner;

    uint256 public LIMIT = 20;

    function set(address o) public { owner = o; }
}

contract Third {
    bool flag;
    bool flag2;
    address private owner;
    uint256 public LIMIT = 30;
}
