// SPDX-License-Identifier: MIT
pragma solidity ^0.8.17;

// A floating pragma and an unprotected selfdestruct, no token call: one low and one high severity finding.
contract OnlyFloat {
    function close() external { selfdestruct(payable(address(0))); }
}
