// SPDX-License-Identifier: MIT
pragma solidity 0.8.17;

// The same state variable names as in other files of the tree -- written here, only declared there (and the reverse).
contract Writer {
    uint256 private x;
    uint256 fee = 100;
    address keeper;
    function set(uint256 v) external { x = v; keeper = msg.sender; }
}
