// SPDX-License-Identifier: MIT
pragma solidity ^0.8.17;

// Deeply nested expressions (a 70-way allow-list, a 60-term sum, 50 parentheses) between ordinary findings.
interface IDeep { function transfer(address to, uint256 v) external returns (bool); }

contract DeepBefore {
    IDeep t;
    uint256 n;
    function before(uint256 a) private { n++; t.transfer(msg.sender, a / 2 * 3); }
}

contract Deep {
    uint256 total;
    function allowed(uint256 id) external pure returns (bool) {
        return id == 1 || id == 2 || id == 3 || id == 4 || id == 5 || id == 6 || id == 7 || id == 8 || id == 9 || id == 10 || id == 11 || id == 12 || id == 13 || id == 14 || id == 15 || id == 16 || id == 17 || id == 18 || id == 19 || id == 20 || id == 21 || id == 22 || id == 23 || id == 24 || id == 25 || id == 26 || id == 27 || id == 28 || id == 29 || id == 30 || id == 31 || id == 32 || id == 33 || id == 34 || id == 35 || id == 36 || id == 37 || id == 38 || id == 39 || id == 40 || id == 41 || id == 42 || id == 43 || id == 44 || id == 45 || id == 46 || id == 47 || id == 48 || id == 49 || id == 50 || id == 51 || id == 52 || id == 53 || id == 54 || id == 55 || id == 56 || id == 57 || id == 58 || id == 59 || id == 60 || id == 61 || id == 62 || id == 63 || id == 64 || id == 65 || id == 66 || id == 67 || id == 68 || id == 69 || id == 70;
    }
    function sum(uint256 v0, uint256 v1, uint256 v2) external {
        total = v0 + v1 + v2 + v0 + v1 + v2 + v0 + v1 + v2 + v0 + v1 + v2 + v0 + v1 + v2 + v0 + v1 + v2 + v0 + v1 + v2 + v0 + v1 + v2 + v0 + v1 + v2 + v0 + v1 + v2 + v0 + v1 + v2 + v0 + v1 + v2 + v0 + v1 + v2 + v0 + v1 + v2 + v0 + v1 + v2 + v0 + v1 + v2 + v0 + v1 + v2 + v0 + v1 + v2 + v0 + v1 + v2 + v0 + v1 + v2;
    }
    function wrapped(uint256 id) external pure returns (uint256) {
        return ((((((((((((((((((((((((((((((((((((((((((((((((((id))))))))))))))))))))))))))))))))))))))))))))))))));
    }
}

contract DeepAfter {
    IDeep t;
    uint256 m;
    function later(uint256 a) private { m++; t.transfer(msg.sender, a / 4 * 5); }
}
