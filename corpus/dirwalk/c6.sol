// SPDX-License-Identifier: MIT
pragma solidity 0.8.17;

contract Twin {
    uint256 private n;
    function tick(uint256 a, uint256 b) public payable returns (uint256) {
        n++;

        return a % b | n;
    }
}
