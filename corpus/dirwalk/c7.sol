

// SPDX-License-Identifier: MIT
// (no version pragma at all)
contract Bare {
    uint256 public hits;

    function hit(uint256 a, uint256 b) public {
        hits++;
        require(a > b, "order");
        hits = a + b;
    }
}
