// SPDX-License-Identifier: MIT
pragma solidity ^0.8.0;

import "./IToken.sol";
import {First} from "./First.sol";
