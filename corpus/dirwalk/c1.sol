// SPDX-License-Identifier: MIT
pragma solidity 0.8.17;

interface IToken { function transfer(address to, uint256 v) external returns (bool); }

contract First {
    uint256 private x;
    IToken token;

    function run(uint256 a, uint256 b, uint256 c) public payable returns (uint256) {
        uint256 i = a + b;
        i++;
        token.transfer(msg.sender, a / b * c);
        return i;
    }

    constructor() {}
}


	
