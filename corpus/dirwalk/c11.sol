// SPDX-License-Identifier: MIT
pragma solidity 0.8.17;

// Several findings of one pattern inside one declaration (parameters of one function, structs of one contract,
// constants of one contract): each is a finding of its own, the same ones every time.
contract Wrapped {
    uint256 constant A_LIMIT = 1;
    uint256 constant B_LIMIT = 2;
    uint256 constant C_LIMIT = 3;
    struct S { uint128 p; uint256 q; uint128 r; }
    struct T { uint8 p; uint256 q; uint8 r; }
    struct U { bool p; uint256 q; bool r; }

    function take(
        uint256[] memory xs,
        bytes memory blob,
        string memory note,
        address[] memory who
    ) external pure returns (uint256) {
        return xs.length + blob.length + bytes(note).length + who.length;
    }

    function give(
        uint256[] memory ys,
        bytes memory more
    ) public pure returns (uint256) {
        return ys.length + more.length;
    }

    function spread(uint256 a, uint256 b, uint256 d, uint256 e) public pure returns (uint256) {
        uint256 c = a +
            b * d -
            e / b;
        return c *
            (a -
             b);
    }
}
