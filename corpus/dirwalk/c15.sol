// SPDX-License-Identifier: MIT
pragma solidity 0.8.17;

contract Declarer {
    uint256 fee = 100;
    address keeper;
    uint256 private x;
    function bump(uint256 v) external { fee = v; }
}
