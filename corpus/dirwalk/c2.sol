

  
// SPDX-License-Identifier: MIT
pragma solidity ^0.8.17;

interface IToken2 { function approve(address to, uint256 v) external returns (bool); }

contract Second {
    uint256 private y;
    IToken2 token;

    function g(uint256 a, uint256 b) private returns (uint256) {
        if (a >= b) {
            token.approve(address(this), a - b);
        }
        return a;
    }
}
