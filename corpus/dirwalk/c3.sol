
// SPDX-License-Identifier: MIT
pragma solidity 0.8.17;

contract Empty {}