// SPDX-License-Identifier: MIT
pragma solidity 0.8.17;

// The shorter ones: 2^129 has as many digits as 2^128.
contract BigLiteralsB {
    function g(uint256 x) external pure returns (uint256) {
        uint256 a = x * 680564733841876926926749214863536422912;
        uint256 b = x * 340282366920938463463374607431768211456;
        uint256 c = x / 680564733841876926926749214863536422913;
        return a + b + c;
    }
}
