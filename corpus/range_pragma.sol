// SPDX-License-Identifier: MIT
pragma solidity >=0.7.0 <0.9.0;

// A version RANGE whose two bounds lie on different sides of both gates (0.8.0 and 0.8.4):
// how the gap between the comparators is written must not change which version is read.
library SafeMath {
    function sub(uint256 a, uint256 b) internal pure returns (uint256) { return a - b; }
    function add(uint256 a, uint256 b) internal pure returns (uint256) { return a + b; }
    function mul(uint256 a, uint256 b) internal pure returns (uint256) { return a * b; }
    function div(uint256 a, uint256 b) internal pure returns (uint256) { return a / b; }
}

contract Ranged {
    using SafeMath for uint256;
    uint256 public total;

    function spend(uint256 a, uint256 b) public {
        require(a > b, "not enough");
        require(a > 0, "a very long revert message that needs more than thirty two bytes");
        total = a.sub(b);
        total = total.add(1);
        total = a.add(b).sub(1).mul(2).div(3);
        total = (a.sub(b)).add(total.mul(2));
    }
}
