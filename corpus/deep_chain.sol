// SPDX-License-Identifier: MIT
pragma solidity 0.8.17;

// A long else-if chain: the syntax tree is as deep as the chain is long (generated: 400 levels); items before and
// after it: whatever a walk keeps about its depth ends with the item.
contract Before {
    uint256 public seen;
    function note(uint256 a) public { seen = a * 2; seen++; }
}

contract DeepChain {
    uint256 public acc;

    function route(uint256 k) public {
        if (k == 0) {
            acc++;
        } else if (k == 1) {
            acc++;
        } else if (k == 2) {
            acc++;
        } else if (k == 3) {
            acc++;
        } else if (k == 4) {
            acc++;
        } else if (k == 5) {
            acc++;
        } else if (k == 6) {
            acc++;
        } else if (k == 7) {
            acc++;
        } else if (k == 8) {
            acc++;
        } else if (k == 9) {
            acc++;
        } else if (k == 10) {
            acc++;
        } else if (k == 11) {
            acc++;
        } else if (k == 12) {
            acc++;
        } else if (k == 13) {
            acc++;
        } else if (k == 14) {
            acc++;
        } else if (k == 15) {
            acc++;
        } else if (k == 16) {
            acc++;
        } else if (k == 17) {
            acc++;
        } else if (k == 18) {
            acc++;
        } else if (k == 19) {
            acc++;
        } else if (k == 20) {
            acc++;
        } else if (k == 21) {
            acc++;
        } else if (k == 22) {
            acc++;
        } else if (k == 23) {
            acc++;
        } else if (k == 24) {
            acc++;
        } else if (k == 25) {
            acc++;
        } else if (k == 26) {
            acc++;
        } else if (k == 27) {
            acc++;
        } else if (k == 28) {
            acc++;
        } else if (k == 29) {
            acc++;
        } else if (k == 30) {
            acc++;
        } else if (k == 31) {
            acc++;
        } else if (k == 32) {
            acc++;
        } else if (k == 33) {
            acc++;
        } else if (k == 34) {
            acc++;
        } else if (k == 35) {
            acc++;
        } else if (k == 36) {
            acc++;
        } else if (k == 37) {
            acc++;
        } else if (k == 38) {
            acc++;
        } else if (k == 39) {
            acc++;
        } else if (k == 40) {
            acc++;
        } else if (k == 41) {
            acc++;
        } else if (k == 42) {
            acc++;
        } else if (k == 43) {
            acc++;
        } else if (k == 44) {
            acc++;
        } else if (k == 45) {
            acc++;
        } else if (k == 46) {
            acc++;
        } else if (k == 47) {
            acc++;
        } else if (k == 48) {
            acc++;
        } else if (k == 49) {
            acc++;
        } else if (k == 50) {
            acc++;
        } else if (k == 51) {
            acc++;
        } else if (k == 52) {
            acc++;
        } else if (k == 53) {
            acc++;
        } else if (k == 54) {
            acc++;
        } else if (k == 55) {
            acc++;
        } else if (k == 56) {
            acc++;
        } else if (k == 57) {
            acc++;
        } else if (k == 58) {
            acc++;
        } else if (k == 59) {
            acc++;
        } else if (k == 60) {
            acc++;
        } else if (k == 61) {
            acc++;
        } else if (k == 62) {
            acc++;
        } else if (k == 63) {
            acc++;
        } else if (k == 64) {
            acc++;
        } else if (k == 65) {
            acc++;
        } else if (k == 66) {
            acc++;
        } else if (k == 67) {
            acc++;
        } else if (k == 68) {
            acc++;
        } else if (k == 69) {
            acc++;
        } else if (k == 70) {
            acc++;
        } else if (k == 71) {
            acc++;
        } else if (k == 72) {
            acc++;
        } else if (k == 73) {
            acc++;
        } else if (k == 74) {
            acc++;
        } else if (k == 75) {
            acc++;
        } else if (k == 76) {
            acc++;
        } else if (k == 77) {
            acc++;
        } else if (k == 78) {
            acc++;
        } else if (k == 79) {
            acc++;
        } else if (k == 80) {
            acc++;
        } else if (k == 81) {
            acc++;
        } else if (k == 82) {
            acc++;
        } else if (k == 83) {
            acc++;
        } else if (k == 84) {
            acc++;
        } else if (k == 85) {
            acc++;
        } else if (k == 86) {
            acc++;
        } else if (k == 87) {
            acc++;
        } else if (k == 88) {
            acc++;
        } else if (k == 89) {
            acc++;
        } else if (k == 90) {
            acc++;
        } else if (k == 91) {
            acc++;
        } else if (k == 92) {
            acc++;
        } else if (k == 93) {
            acc++;
        } else if (k == 94) {
            acc++;
        } else if (k == 95) {
            acc++;
        } else if (k == 96) {
            acc++;
        } else if (k == 97) {
            acc++;
        } else if (k == 98) {
            acc++;
        } else if (k == 99) {
            acc++;
        } else if (k == 100) {
            acc++;
        } else if (k == 101) {
            acc++;
        } else if (k == 102) {
            acc++;
        } else if (k == 103) {
            acc++;
        } else if (k == 104) {
            acc++;
        } else if (k == 105) {
            acc++;
        } else if (k == 106) {
            acc++;
        } else if (k == 107) {
            acc++;
        } else if (k == 108) {
            acc++;
        } else if (k == 109) {
            acc++;
        } else if (k == 110) {
            acc++;
        } else if (k == 111) {
            acc++;
        } else if (k == 112) {
            acc++;
        } else if (k == 113) {
            acc++;
        } else if (k == 114) {
            acc++;
        } else if (k == 115) {
            acc++;
        } else if (k == 116) {
            acc++;
        } else if (k == 117) {
            acc++;
        } else if (k == 118) {
            acc++;
        } else if (k == 119) {
            acc++;
        } else if (k == 120) {
            acc++;
        } else if (k == 121) {
            acc++;
        } else if (k == 122) {
            acc++;
        } else if (k == 123) {
            acc++;
        } else if (k == 124) {
            acc++;
        } else if (k == 125) {
            acc++;
        } else if (k == 126) {
            acc++;
        } else if (k == 127) {
            acc++;
        } else if (k == 128) {
            acc++;
        } else if (k == 129) {
            acc++;
        } else if (k == 130) {
            acc++;
        } else if (k == 131) {
            acc++;
        } else if (k == 132) {
            acc++;
        } else if (k == 133) {
            acc++;
        } else if (k == 134) {
            acc++;
        } else if (k == 135) {
            acc++;
        } else if (k == 136) {
            acc++;
        } else if (k == 137) {
            acc++;
        } else if (k == 138) {
            acc++;
        } else if (k == 139) {
            acc++;
        } else if (k == 140) {
            acc++;
        } else if (k == 141) {
            acc++;
        } else if (k == 142) {
            acc++;
        } else if (k == 143) {
            acc++;
        } else if (k == 144) {
            acc++;
        } else if (k == 145) {
            acc++;
        } else if (k == 146) {
            acc++;
        } else if (k == 147) {
            acc++;
        } else if (k == 148) {
            acc++;
        } else if (k == 149) {
            acc++;
        } else if (k == 150) {
            acc++;
        } else if (k == 151) {
            acc++;
        } else if (k == 152) {
            acc++;
        } else if (k == 153) {
            acc++;
        } else if (k == 154) {
            acc++;
        } else if (k == 155) {
            acc++;
        } else if (k == 156) {
            acc++;
        } else if (k == 157) {
            acc++;
        } else if (k == 158) {
            acc++;
        } else if (k == 159) {
            acc++;
        } else if (k == 160) {
            acc++;
        } else if (k == 161) {
            acc++;
        } else if (k == 162) {
            acc++;
        } else if (k == 163) {
            acc++;
        } else if (k == 164) {
            acc++;
        } else if (k == 165) {
            acc++;
        } else if (k == 166) {
            acc++;
        } else if (k == 167) {
            acc++;
        } else if (k == 168) {
            acc++;
        } else if (k == 169) {
            acc++;
        } else if (k == 170) {
            acc++;
        } else if (k == 171) {
            acc++;
        } else if (k == 172) {
            acc++;
        } else if (k == 173) {
            acc++;
        } else if (k == 174) {
            acc++;
        } else if (k == 175) {
            acc++;
        } else if (k == 176) {
            acc++;
        } else if (k == 177) {
            acc++;
        } else if (k == 178) {
            acc++;
        } else if (k == 179) {
            acc++;
        } else if (k == 180) {
            acc++;
        } else if (k == 181) {
            acc++;
        } else if (k == 182) {
            acc++;
        } else if (k == 183) {
            acc++;
        } else if (k == 184) {
            acc++;
        } else if (k == 185) {
            acc++;
        } else if (k == 186) {
            acc++;
        } else if (k == 187) {
            acc++;
        } else if (k == 188) {
            acc++;
        } else if (k == 189) {
            acc++;
        } else if (k == 190) {
            acc++;
        } else if (k == 191) {
            acc++;
        } else if (k == 192) {
            acc++;
        } else if (k == 193) {
            acc++;
        } else if (k == 194) {
            acc++;
        } else if (k == 195) {
            acc++;
        } else if (k == 196) {
            acc++;
        } else if (k == 197) {
            acc++;
        } else if (k == 198) {
            acc++;
        } else if (k == 199) {
            acc++;
        } else if (k == 200) {
            acc++;
        } else if (k == 201) {
            acc++;
        } else if (k == 202) {
            acc++;
        } else if (k == 203) {
            acc++;
        } else if (k == 204) {
            acc++;
        } else if (k == 205) {
            acc++;
        } else if (k == 206) {
            acc++;
        } else if (k == 207) {
            acc++;
        } else if (k == 208) {
            acc++;
        } else if (k == 209) {
            acc++;
        } else if (k == 210) {
            acc++;
        } else if (k == 211) {
            acc++;
        } else if (k == 212) {
            acc++;
        } else if (k == 213) {
            acc++;
        } else if (k == 214) {
            acc++;
        } else if (k == 215) {
            acc++;
        } else if (k == 216) {
            acc++;
        } else if (k == 217) {
            acc++;
        } else if (k == 218) {
            acc++;
        } else if (k == 219) {
            acc++;
        } else if (k == 220) {
            acc++;
        } else if (k == 221) {
            acc++;
        } else if (k == 222) {
            acc++;
        } else if (k == 223) {
            acc++;
        } else if (k == 224) {
            acc++;
        } else if (k == 225) {
            acc++;
        } else if (k == 226) {
            acc++;
        } else if (k == 227) {
            acc++;
        } else if (k == 228) {
            acc++;
        } else if (k == 229) {
            acc++;
        } else if (k == 230) {
            acc++;
        } else if (k == 231) {
            acc++;
        } else if (k == 232) {
            acc++;
        } else if (k == 233) {
            acc++;
        } else if (k == 234) {
            acc++;
        } else if (k == 235) {
            acc++;
        } else if (k == 236) {
            acc++;
        } else if (k == 237) {
            acc++;
        } else if (k == 238) {
            acc++;
        } else if (k == 239) {
            acc++;
        } else if (k == 240) {
            acc++;
        } else if (k == 241) {
            acc++;
        } else if (k == 242) {
            acc++;
        } else if (k == 243) {
            acc++;
        } else if (k == 244) {
            acc++;
        } else if (k == 245) {
            acc++;
        } else if (k == 246) {
            acc++;
        } else if (k == 247) {
            acc++;
        } else if (k == 248) {
            acc++;
        } else if (k == 249) {
            acc++;
        } else if (k == 250) {
            acc++;
        } else if (k == 251) {
            acc++;
        } else if (k == 252) {
            acc++;
        } else if (k == 253) {
            acc++;
        } else if (k == 254) {
            acc++;
        } else if (k == 255) {
            acc++;
        } else if (k == 256) {
            acc++;
        } else if (k == 257) {
            acc++;
        } else if (k == 258) {
            acc++;
        } else if (k == 259) {
            acc++;
        } else if (k == 260) {
            acc++;
        } else if (k == 261) {
            acc++;
        } else if (k == 262) {
            acc++;
        } else if (k == 263) {
            acc++;
        } else if (k == 264) {
            acc++;
        } else if (k == 265) {
            acc++;
        } else if (k == 266) {
            acc++;
        } else if (k == 267) {
            acc++;
        } else if (k == 268) {
            acc++;
        } else if (k == 269) {
            acc++;
        } else if (k == 270) {
            acc++;
        } else if (k == 271) {
            acc++;
        } else if (k == 272) {
            acc++;
        } else if (k == 273) {
            acc++;
        } else if (k == 274) {
            acc++;
        } else if (k == 275) {
            acc++;
        } else if (k == 276) {
            acc++;
        } else if (k == 277) {
            acc++;
        } else if (k == 278) {
            acc++;
        } else if (k == 279) {
            acc++;
        } else if (k == 280) {
            acc++;
        } else if (k == 281) {
            acc++;
        } else if (k == 282) {
            acc++;
        } else if (k == 283) {
            acc++;
        } else if (k == 284) {
            acc++;
        } else if (k == 285) {
            acc++;
        } else if (k == 286) {
            acc++;
        } else if (k == 287) {
            acc++;
        } else if (k == 288) {
            acc++;
        } else if (k == 289) {
            acc++;
        } else if (k == 290) {
            acc++;
        } else if (k == 291) {
            acc++;
        } else if (k == 292) {
            acc++;
        } else if (k == 293) {
            acc++;
        } else if (k == 294) {
            acc++;
        } else if (k == 295) {
            acc++;
        } else if (k == 296) {
            acc++;
        } else if (k == 297) {
            acc++;
        } else if (k == 298) {
            acc++;
        } else if (k == 299) {
            acc++;
        } else if (k == 300) {
            acc++;
        } else if (k == 301) {
            acc++;
        } else if (k == 302) {
            acc++;
        } else if (k == 303) {
            acc++;
        } else if (k == 304) {
            acc++;
        } else if (k == 305) {
            acc++;
        } else if (k == 306) {
            acc++;
        } else if (k == 307) {
            acc++;
        } else if (k == 308) {
            acc++;
        } else if (k == 309) {
            acc++;
        } else if (k == 310) {
            acc++;
        } else if (k == 311) {
            acc++;
        } else if (k == 312) {
            acc++;
        } else if (k == 313) {
            acc++;
        } else if (k == 314) {
            acc++;
        } else if (k == 315) {
            acc++;
        } else if (k == 316) {
            acc++;
        } else if (k == 317) {
            acc++;
        } else if (k == 318) {
            acc++;
        } else if (k == 319) {
            acc++;
        } else if (k == 320) {
            acc++;
        } else if (k == 321) {
            acc++;
        } else if (k == 322) {
            acc++;
        } else if (k == 323) {
            acc++;
        } else if (k == 324) {
            acc++;
        } else if (k == 325) {
            acc++;
        } else if (k == 326) {
            acc++;
        } else if (k == 327) {
            acc++;
        } else if (k == 328) {
            acc++;
        } else if (k == 329) {
            acc++;
        } else if (k == 330) {
            acc++;
        } else if (k == 331) {
            acc++;
        } else if (k == 332) {
            acc++;
        } else if (k == 333) {
            acc++;
        } else if (k == 334) {
            acc++;
        } else if (k == 335) {
            acc++;
        } else if (k == 336) {
            acc++;
        } else if (k == 337) {
            acc++;
        } else if (k == 338) {
            acc++;
        } else if (k == 339) {
            acc++;
        } else if (k == 340) {
            acc++;
        } else if (k == 341) {
            acc++;
        } else if (k == 342) {
            acc++;
        } else if (k == 343) {
            acc++;
        } else if (k == 344) {
            acc++;
        } else if (k == 345) {
            acc++;
        } else if (k == 346) {
            acc++;
        } else if (k == 347) {
            acc++;
        } else if (k == 348) {
            acc++;
        } else if (k == 349) {
            acc++;
        } else if (k == 350) {
            acc++;
        } else if (k == 351) {
            acc++;
        } else if (k == 352) {
            acc++;
        } else if (k == 353) {
            acc++;
        } else if (k == 354) {
            acc++;
        } else if (k == 355) {
            acc++;
        } else if (k == 356) {
            acc++;
        } else if (k == 357) {
            acc++;
        } else if (k == 358) {
            acc++;
        } else if (k == 359) {
            acc++;
        } else if (k == 360) {
            acc++;
        } else if (k == 361) {
            acc++;
        } else if (k == 362) {
            acc++;
        } else if (k == 363) {
            acc++;
        } else if (k == 364) {
            acc++;
        } else if (k == 365) {
            acc++;
        } else if (k == 366) {
            acc++;
        } else if (k == 367) {
            acc++;
        } else if (k == 368) {
            acc++;
        } else if (k == 369) {
            acc++;
        } else if (k == 370) {
            acc++;
        } else if (k == 371) {
            acc++;
        } else if (k == 372) {
            acc++;
        } else if (k == 373) {
            acc++;
        } else if (k == 374) {
            acc++;
        } else if (k == 375) {
            acc++;
        } else if (k == 376) {
            acc++;
        } else if (k == 377) {
            acc++;
        } else if (k == 378) {
            acc++;
        } else if (k == 379) {
            acc++;
        } else if (k == 380) {
            acc++;
        } else if (k == 381) {
            acc++;
        } else if (k == 382) {
            acc++;
        } else if (k == 383) {
            acc++;
        } else if (k == 384) {
            acc++;
        } else if (k == 385) {
            acc++;
        } else if (k == 386) {
            acc++;
        } else if (k == 387) {
            acc++;
        } else if (k == 388) {
            acc++;
        } else if (k == 389) {
            acc++;
        } else if (k == 390) {
            acc++;
        } else if (k == 391) {
            acc++;
        } else if (k == 392) {
            acc++;
        } else if (k == 393) {
            acc++;
        } else if (k == 394) {
            acc++;
        } else if (k == 395) {
            acc++;
        } else if (k == 396) {
            acc++;
        } else if (k == 397) {
            acc++;
        } else if (k == 398) {
            acc++;
        } else if (k == 399) {
            acc++;
        } else {
            acc = k * 2;
        }
    }
}

contract DeepSum {
    uint256 public total;
    function sum(uint256 a) public { total = a + a + a + a + a + a + a + a + a + a + a + a + a + a + a + a + a + a + a + a + a + a + a + a + a + a + a + a + a + a + a + a + a + a + a + a + a + a + a + a + a + a + a + a + a + a + a + a + a + a + a + a + a + a + a + a + a + a + a + a + a + a + a + a + a + a + a + a + a + a + a + a + a + a + a + a + a + a + a + a + a + a + a + a + a + a + a + a + a + a + a + a + a + a + a + a + a + a + a + a + a + a + a + a + a + a + a + a + a + a + a + a + a + a + a + a + a + a + a + a + a + a + a + a + a + a + a + a + a + a + a + a + a + a + a + a + a + a + a + a + a + a + a + a + a + a + a + a + a + a + a + a + a + a + a + a + a + a + a + a + a + a + a + a + a + a + a + a + a + a + a + a + a + a + a + a + a + a + a + a + a + a + a + a + a + a + a + a + a + a + a + a + a + a + a + a + a + a + a + a + a + a + a + a + a + a + a + a + a + a + a + a + a + a + a + a + a + a + a + a + a + a + a + a + a + a + a + a + a + a + a + a + a + a + a + a + a + a + a + a + a + a + a + a + a + a + a + a + a + a + a + a + a + a + a + a + a + a + a + a + a + a + a + a + a + a + a + a + a + a + a + a + a + a + a + a + a + a + a + a + a + a + a + a + a + a + a + a + a + a + a + a + a + a + a + a + a + a + a + a; }
}

contract After {
    uint256 public last;
    function mark(uint256 a, uint256 b) public { require(a > 0 && b > 0, "both"); last = a + b; last++; }
}

function freeAfter(uint256 x) pure returns (uint256) { return x * 8; }
