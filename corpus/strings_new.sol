// SPDX-License-Identifier: MIT
pragma solidity 0.8.17;

// revert strings written as several adjacent literals, around the 32-byte threshold (C09, C17)
contract OldStringsNew {
    uint256 total;

    function check(uint256 a, uint256 b) public payable {
        require(a < b, "insufficient " "balance");
        require(a != b, "first part of a message that " "continues in a second literal");
        require(a > 1, "exactly thirty-two bytes long !!" " and more");
        require(b > 1, "thirty-one bytes long, no more!" "x");
        require(a + b > 2, unicode"café " unicode"au lait");
        require(a < 100, "a single literal that is definitely longer than thirty-two bytes");
        require(b < 100, "short");
        total = a - b;
    }
}
